"""python -m vlib.fuzz_worker MODULE CHECK DECODE OUT INSTRUMENT CORPUS [libFuzzer options]

One atheris / libFuzzer campaign over ``CHECK(DECODE(bytes))`` of a property module (see vlib/fuzz.py).
Statistics are written to OUT while running (libFuzzer ends the process itself; atexit handlers do not run).
"""
import hashlib
import importlib
import json
import os
import sys


def main():
    module, check_name, decode_name, out, instrument, corpus = sys.argv[1:7]
    lf_args = sys.argv[7:]
    runs = 0
    for a in lf_args:
        if a.startswith('-runs='):
            runs = int(a.split('=', 1)[1])
    import atheris
    include = [x for x in instrument.split(',') if x]
    with atheris.instrument_imports(include=include, enable_loader_override=False):
        mod = importlib.import_module(module)
        check = getattr(mod, check_name)
        decode = getattr(mod, decode_name)
        for sub in getattr(mod, 'SUBS', []):
            if sub.check is check and sub.setup:
                sub.setup()
        # warm up inside the import hook: the property modules import exactly_lib lazily
        for warm in (b'', b'\x01\x02abc', bytes(range(40))):
            c = decode(warm)
            if c is not None:
                check(c)

    st = {'evaluations': 0, 'labels': {}, 'keys': set(), 'samples': [], 'failures': {}, 'known': {},
          'inconclusive': 0, 'skipped': 0}

    def dump():
        fails = []
        for b, rec in sorted(st['failures'].items()):
            fails.append({'bucket': b, 'case': rec['case'], 'detail': rec['detail'], 'known': rec['known']})
        tmp = out + '.tmp'
        with open(tmp, 'w') as f:
            json.dump({'evaluations': st['evaluations'], 'labels': st['labels'],
                       'nontrivial_keys': sorted(st['keys']), 'samples': st['samples'], 'failures': fails,
                       'inconclusive': st['inconclusive'], 'skipped': st['skipped']}, f, default=str)
        os.replace(tmp, out)

    n_calls = [0]

    def one(data: bytes):
        n_calls[0] += 1
        try:
            case = decode(data)
            if case is None:
                st['skipped'] += 1
                return
            v = check(case)
            st['evaluations'] += 1
            for l in v.labels:
                st['labels'][l] = st['labels'].get(l, 0) + 1
            if v.inconclusive:
                st['inconclusive'] += 1
            if v.nontrivial:
                k = v.key if v.key is not None else json.dumps(case, sort_keys=True, default=str)
                st['keys'].add(hashlib.sha1(k.encode('utf-8', 'replace')).hexdigest()[:16])
                if len(st['samples']) < 3:
                    st['samples'].append(v.sample if v.sample is not None else case)
            if not v.ok and not v.inconclusive:
                size = len(json.dumps(case, default=str))
                cur = st['failures'].get(v.bucket)
                if cur is None or size < cur['size']:
                    st['failures'][v.bucket] = {'case': case, 'detail': v.detail, 'size': size, 'known': v.known}
                    dump()
        finally:
            if n_calls[0] % 250 == 0 or (runs and n_calls[0] >= runs - 1):
                dump()

    dump()
    atheris.Setup([sys.argv[0]] + lf_args + [corpus], one)
    atheris.Fuzz()


if __name__ == '__main__':
    main()
