"""Running Exactly (the code under test) and observing it.

In-process: a fresh production ``MainProgram`` per case, real files as
stdout/stderr, ``tempfile.tempdir`` pointed at a per-case sandbox root, cwd and
environment snapshotted/restored, any escaping exception captured.

Sub-process: ``python default-main-program-runner.py`` with TMPDIR set.
"""
import io
import json
import os
import shutil
import signal
import subprocess
import sys
import tempfile
import time
import traceback
from typing import Dict, List, Optional, Sequence

VERIF_DIR = os.path.dirname(os.path.dirname(os.path.abspath(__file__)))
REPO = os.environ.get('VERIF_REPO', '/repo')
REPO_SRC = os.path.join(REPO, 'src')
PYTHON = os.environ.get('VERIF_PYTHON', '/venv/bin/python')
PROBE = os.path.join(VERIF_DIR, 'vlib', 'probe', 'probe.py')

EXIT_IDENTIFIERS = {
    'PASS': 0, 'FAIL': 32, 'XFAIL': 33, 'XPASS': 33, 'SKIPPED': 0, 'PRE_PROCESS_ERROR': 65,
    'NO_EXECUTION__SYNTAX_ERROR': 65, 'SYNTAX_ERROR': 65, 'FILE_ACCESS_ERROR': 65,
    'VALIDATION_ERROR': 65, 'HARD_ERROR': 128, 'INTERNAL_ERROR': 129,
}


class CaseTimeout(BaseException):
    """Raised by the alarm handler; BaseException so that Exactly's own
    ``except Exception`` handlers do not swallow it."""


def _alarm_handler(signum, frame):
    raise CaseTimeout()


class RunResult:
    __slots__ = ('exit_code', 'out', 'err', 'exception', 'timed_out', 'cwd_changed',
                 'env_diff', 'elapsed', 'sandboxes', 'created_dirs', 'leaked_out', 'leaked_err')

    def __init__(self):
        self.exit_code = None
        self.out = ''
        self.err = ''
        self.exception = None
        self.timed_out = False
        self.cwd_changed = None
        self.env_diff = None
        self.elapsed = 0.0
        self.sandboxes = []
        self.created_dirs = []  # every directory made through tempfile.mkdtemp during the run (sandbox roots)
        # in-process runs: what was written to the stdout / stderr of the *process* (file descriptors 1 and 2) instead of
        # the files given to MainProgram.execute - under the real command line these are the same streams
        self.leaked_out = ''
        self.leaked_err = ''

    def as_dict(self) -> dict:
        return {k: getattr(self, k) for k in self.__slots__}

    @property
    def first_out_line(self) -> str:
        return self.out.split('\n', 1)[0] if self.out else ''

    @property
    def first_err_line(self) -> str:
        return self.err.split('\n', 1)[0] if self.err else ''


_WORK_BASE = None
_CASE_COUNTER = 0


def work_base() -> str:
    """Per-process scratch directory (removed by the runner at the end)."""
    global _WORK_BASE
    if _WORK_BASE is None or not os.path.isdir(_WORK_BASE) or _WORK_BASE_PID != os.getpid():
        _init_work_base()
    return _WORK_BASE


_WORK_BASE_PID = None


def _init_work_base():
    global _WORK_BASE, _WORK_BASE_PID
    root = os.environ.get('VERIF_WORK')
    if not root:
        base = '/dev/shm' if (os.path.isdir('/dev/shm') and os.access('/dev/shm', os.W_OK | os.X_OK)) else '/tmp'
        root = os.path.join(base, 'vx-orphan-%d' % os.getpid())
    os.makedirs(root, exist_ok=True)
    _WORK_BASE = os.path.join(root, 'p%d' % os.getpid())
    os.makedirs(_WORK_BASE, exist_ok=True)
    _WORK_BASE_PID = os.getpid()


class Workspace:
    """Per-case directory: home/ (case files), tmproot/ (sandbox root), obs/ (markers, probe output)."""

    def __init__(self, keep: bool = False):
        global _CASE_COUNTER
        _CASE_COUNTER += 1
        self.root = os.path.join(work_base(), 'c%d' % _CASE_COUNTER)
        if os.path.exists(self.root):
            _force_rmtree(self.root)
        self.home = os.path.join(self.root, 'home')
        self.tmproot = os.path.join(self.root, 'tmproot')
        self.obs = os.path.join(self.root, 'obs')
        for d in (self.home, self.tmproot, self.obs):
            os.makedirs(d)
        self.markers = os.path.join(self.obs, 'markers')
        self._keep = keep

    # -- materialisation -------------------------------------------------
    def subst(self, text: str) -> str:
        """Replace placeholders so that cases (and replay files) stay path independent."""
        return (text.replace('{OBS}', self.obs)
                .replace('{HOME}', self.home)
                .replace('{MARKERS}', self.markers)
                .replace('{PROBE}', PROBE)
                .replace('{PY}', PYTHON)
                .replace('{TMPROOT}', self.tmproot)
                .replace('{ROOT}', self.root))

    def write(self, rel: str, text, subst: bool = True, newline=None) -> str:
        path = os.path.join(self.home, rel)
        os.makedirs(os.path.dirname(path), exist_ok=True)
        if isinstance(text, bytes):
            with open(path, 'wb') as f:
                f.write(text)
        else:
            if subst:
                text = self.subst(text)
            with open(path, 'w', encoding='utf-8', newline='') as f:
                f.write(text)
        return path

    def write_files(self, files: Dict[str, str]):
        for rel, text in files.items():
            self.write(rel, text)

    def probe_cfg(self, name: str, **cfg) -> str:
        """Configure probe output file obs/<name>; returns its path."""
        out = os.path.join(self.obs, name)
        with open(out + '.cfg', 'w') as f:
            json.dump(cfg, f)
        return out

    def probe_records(self, name: str) -> List[dict]:
        out = os.path.join(self.obs, name)
        if not os.path.exists(out):
            return []
        with open(out) as f:
            return [json.loads(l) for l in f if l.strip()]

    def read_markers(self) -> List[str]:
        if not os.path.exists(self.markers):
            return []
        with open(self.markers) as f:
            return [l.rstrip('\n') for l in f]

    def sandboxes(self) -> List[str]:
        return sorted(os.listdir(self.tmproot))

    def close(self):
        if not self._keep:
            _force_rmtree(self.root)

    def __enter__(self):
        return self

    def __exit__(self, *a):
        self.close()


def _force_rmtree(path: str):
    def onerr(func, p, exc):
        try:
            os.chmod(os.path.dirname(p), 0o700)
            os.chmod(p, 0o700)
            func(p)
        except OSError:
            pass

    # make everything writable first (cases may chmod a-w)
    shutil.rmtree(path, onerror=onerr)
    if os.path.exists(path):
        for dp, dns, fns in os.walk(path):
            try:
                os.chmod(dp, 0o700)
            except OSError:
                pass
        shutil.rmtree(path, ignore_errors=True)


_imported = False


def _import_exactly():
    global _imported
    if not _imported:
        if REPO_SRC not in sys.path:
            sys.path.insert(0, REPO_SRC)
        _imported = True


def new_main_program(mem_buff_size: Optional[int] = None):
    _import_exactly()
    from exactly_lib import program_info
    from exactly_lib.cli import main_program
    from exactly_lib.cli.test_case_def import TestCaseDefinitionForMainProgram
    from exactly_lib.cli_default.program_modes import test_suite
    from exactly_lib.cli_default.program_modes.test_case import builtin_symbols, default_instructions_setup, \
        test_case_handling_setup
    from exactly_lib.common import instruction_name_and_argument_splitter
    from exactly_lib.execution import sandbox_dir_resolving
    from exactly_lib.processing.instruction_setup import TestCaseParsingSetup
    from exactly_lib.processing.parse.act_phase_source_parser import ActPhaseParser
    return main_program.MainProgram(
        test_case_handling_setup.setup(),
        sandbox_dir_resolving.mk_tmp_dir_with_prefix(program_info.PROGRAM_NAME + '-'),
        TestCaseDefinitionForMainProgram(
            TestCaseParsingSetup(instruction_name_and_argument_splitter.splitter,
                                 default_instructions_setup.INSTRUCTIONS_SETUP,
                                 ActPhaseParser()),
            builtin_symbols.ALL,
        ),
        test_suite.test_suite_definition(),
        io.DEFAULT_BUFFER_SIZE if mem_buff_size is None else mem_buff_size)


def _redirect_process_std_fds(ws):
    """file descriptors 1 and 2 of this process -> files of the workspace (children of Exactly that are not given
    a stdout of their own inherit them)"""
    try:
        sys.stdout.flush()
        sys.stderr.flush()
        saved = (os.dup(1), os.dup(2))
        paths = (os.path.join(ws.obs, '_fd1'), os.path.join(ws.obs, '_fd2'))
        for fd, path in zip((1, 2), paths):
            f = os.open(path, os.O_WRONLY | os.O_CREAT | os.O_TRUNC, 0o644)
            os.dup2(f, fd)
            os.close(f)
        return saved, paths
    except (OSError, ValueError, AttributeError):
        return None


def _restore_process_std_fds(fds):
    if fds is None:
        return '', ''
    saved, paths = fds
    try:
        sys.stdout.flush()
        sys.stderr.flush()
    except (OSError, ValueError, AttributeError):
        pass
    out = []
    for fd, old, path in zip((1, 2), saved, paths):
        os.dup2(old, fd)
        os.close(old)
        try:
            with open(path, 'rb') as f:
                out.append(f.read(20000).decode('utf-8', errors='replace'))
            os.remove(path)
        except OSError:
            out.append('')
    return out[0], out[1]


def run_inproc(ws: Workspace,
               argv: Sequence[str],
               cwd: Optional[str] = None,
               mem_buff_size: Optional[int] = None,
               timeout_s: float = 60.0,
               extra_env: Optional[Dict[str, Optional[str]]] = None,
               ) -> RunResult:
    """Run Exactly in this process.  The process' cwd/env/tempdir are restored afterwards."""
    _import_exactly()
    from exactly_lib.util.file_utils.std import StdOutputFiles

    res = RunResult()
    run_cwd = cwd if cwd is not None else ws.home
    out_path = os.path.join(ws.obs, '_stdout')
    err_path = os.path.join(ws.obs, '_stderr')

    saved_cwd = os.getcwd()
    saved_env = dict(os.environ)
    saved_tempdir = tempfile.tempdir
    os.chdir(run_cwd)
    if extra_env:
        for k, v in extra_env.items():
            if v is None:
                os.environ.pop(k, None)
            else:
                os.environ[k] = v
    env_before = dict(os.environ)
    tempfile.tempdir = ws.tmproot
    real_mkdtemp = tempfile.mkdtemp

    def recording_mkdtemp(*args, **kwargs):
        d = real_mkdtemp(*args, **kwargs)
        res.created_dirs.append(d)
        return d

    tempfile.mkdtemp = recording_mkdtemp
    old_handler = signal.signal(signal.SIGALRM, _alarm_handler)
    t0 = time.time()
    try:
        with open(out_path, 'w+', encoding='utf-8', newline='') as fo, \
                open(err_path, 'w+', encoding='utf-8', newline='') as fe:
            try:
                mp = new_main_program(mem_buff_size)
                # repeating: an alarm that fires inside a GC callback / __del__ is swallowed by the interpreter
                signal.setitimer(signal.ITIMER_REAL, timeout_s, 0.25)
                fds = _redirect_process_std_fds(ws)
                try:
                    res.exit_code = mp.execute(list(argv), StdOutputFiles(fo, fe))
                finally:
                    signal.setitimer(signal.ITIMER_REAL, 0)
                    res.leaked_out, res.leaked_err = _restore_process_std_fds(fds)
            except CaseTimeout:
                res.timed_out = True
            except BaseException as ex:  # SystemExit, KeyboardInterrupt from eval, anything
                res.exception = '%s: %s\n%s' % (type(ex).__name__, ex, traceback.format_exc(limit=12))
            try:
                fo.flush()
                fe.flush()
            except Exception:
                pass
        with open(out_path, 'rb') as f:
            res.out = f.read().decode('utf-8', errors='replace')
        with open(err_path, 'rb') as f:
            res.err = f.read().decode('utf-8', errors='replace')
    finally:
        signal.setitimer(signal.ITIMER_REAL, 0)
        signal.signal(signal.SIGALRM, old_handler)
        res.elapsed = time.time() - t0
        try:
            cwd_after = os.getcwd()
        except OSError:
            cwd_after = '<deleted>'
        res.cwd_changed = None if cwd_after == run_cwd else cwd_after
        env_after = dict(os.environ)
        if env_after != env_before:
            diff = {}
            for k in set(env_before) | set(env_after):
                if env_before.get(k) != env_after.get(k):
                    diff[k] = [env_before.get(k), env_after.get(k)]
            res.env_diff = diff
        os.environ.clear()
        os.environ.update(saved_env)
        os.chdir(saved_cwd)
        tempfile.tempdir = saved_tempdir
        tempfile.mkdtemp = real_mkdtemp
    res.sandboxes = ws.sandboxes()
    return res


def run_subproc(ws: Workspace,
                argv: Sequence[str],
                cwd: Optional[str] = None,
                timeout_s: float = 120.0,
                extra_env: Optional[Dict[str, str]] = None,
                ) -> RunResult:
    res = RunResult()
    env = dict(os.environ)
    env['TMPDIR'] = ws.tmproot
    env['PYTHONPATH'] = REPO_SRC
    env['PYTHONWARNINGS'] = 'ignore'
    env['PYTHONDONTWRITEBYTECODE'] = '1'
    if extra_env:
        env.update(extra_env)
    t0 = time.time()
    try:
        p = subprocess.run([PYTHON, os.path.join(REPO_SRC, 'default-main-program-runner.py')] + list(argv),
                           cwd=cwd if cwd is not None else ws.home,
                           env=env, stdin=subprocess.DEVNULL,
                           stdout=subprocess.PIPE, stderr=subprocess.PIPE, timeout=timeout_s)
        res.exit_code = p.returncode
        res.out = p.stdout.decode('utf-8', errors='replace')
        res.err = p.stderr.decode('utf-8', errors='replace')
    except subprocess.TimeoutExpired as ex:
        res.timed_out = True
        res.out = (ex.stdout or b'').decode('utf-8', errors='replace')
        res.err = (ex.stderr or b'').decode('utf-8', errors='replace')
    res.elapsed = time.time() - t0
    res.sandboxes = ws.sandboxes()
    return res


def identifier_of(res: RunResult, stream: str = 'out') -> str:
    """First line of the stream (the exit identifier in normal mode)."""
    return res.first_out_line if stream == 'out' else res.first_err_line


def tree_snapshot(root: str, with_contents: bool = True) -> dict:
    """Recursive listing: rel path -> ('d', mode) | ('f', mode, bytes-hex/len) | ('l', target)."""
    snap = {}
    for dp, dns, fns in os.walk(root, followlinks=False):
        rel_d = os.path.relpath(dp, root)
        for dn in list(dns):
            p = os.path.join(dp, dn)
            rel = os.path.normpath(os.path.join(rel_d, dn))
            if os.path.islink(p):
                snap[rel] = ['l', os.readlink(p)]
            else:
                snap[rel] = ['d']
        for fn in fns:
            p = os.path.join(dp, fn)
            rel = os.path.normpath(os.path.join(rel_d, fn))
            if os.path.islink(p):
                snap[rel] = ['l', os.readlink(p)]
            else:
                if with_contents:
                    try:
                        with open(p, 'rb') as f:
                            snap[rel] = ['f', f.read().decode('utf-8', errors='replace')]
                    except OSError as ex:
                        snap[rel] = ['f', '<unreadable %s>' % ex.errno]
                else:
                    snap[rel] = ['f']
    return snap
