"""C13 reference semantics (independent of the code under test - never imports exactly_lib).

Trees are JSON lists.

INTEGER-MATCHER (IM) trees              LINE-MATCHER (LM) trees
  ['cmp', OP, INT-TEXT]                   ['ln', IM]                 line-num IM
  ['const', bool]                         ['cm', REGEX, full(bool)]  contents matches [-full] REGEX
  ['not', IM]                             ['ce']                     contents is-empty
  ['and', [IM, ...]]                      ['const', bool]
  ['or', [IM, ...]]                       ['not', LM] ['and', [LM, ...]] ['or', [LM, ...]]

Line-number ranges: {'f': 's'|'u'|'l'|'b', 'a': INT-TEXT, 'b': INT-TEXT}
  s = "a"      the single line number a
  u = ":a"     line numbers from 1 to a
  l = "a:"     line numbers starting from a
  b = "a:b"    line numbers from a to b
Negative numbers count from the end (-1 = last line = N).  Read as sets of line numbers: a bound that does
not denote an existing line (0, beyond the text, before its start) is still an integer bound.

The second half is the *defect model* for finding KF-C13-1: a model of the analysis that derives, from a
line-matcher expression, an interval of line numbers outside of which no line can match
(exactly_lib...matcher_interval).  Every rule of the model is sound on its own (each node yields a pair
(cover of the accepted numbers, cover of the rejected numbers)) - except, when ``defect=True``, the one rule
the finding is about: the rejected-cover of a conjunction/disjunction is taken to be the complement of the
accepted-*cover* instead of being derived from the operands.
"""
import ast
import functools
import re
from typing import List, Tuple

OPS = ('==', '!=', '<', '<=', '>', '>=')


# ---------------------------------------------------------------------------------------------
# INTEGER: "An expression using Python syntax" - the generators only emit literals, unary +/-,
# binary + - * and parentheses; evaluated here without eval().
@functools.lru_cache(maxsize=4096)
def int_value(text: str) -> int:
    node = ast.parse(text.strip(), mode='eval').body
    return _ev(node)


def _ev(node) -> int:
    if isinstance(node, ast.Constant) and type(node.value) is int:
        return node.value
    if isinstance(node, ast.UnaryOp) and isinstance(node.op, (ast.USub, ast.UAdd)):
        v = _ev(node.operand)
        return -v if isinstance(node.op, ast.USub) else v
    if isinstance(node, ast.BinOp) and isinstance(node.op, (ast.Add, ast.Sub, ast.Mult)):
        a, b = _ev(node.left), _ev(node.right)
        if isinstance(node.op, ast.Add):
            return a + b
        if isinstance(node.op, ast.Sub):
            return a - b
        return a * b
    raise ValueError('integer expression outside the generated sub-language: %r' % ast.dump(node))


def _cmp(op: str, lhs: int, rhs: int) -> bool:
    if op == '==':
        return lhs == rhs
    if op == '!=':
        return lhs != rhs
    if op == '<':
        return lhs < rhs
    if op == '<=':
        return lhs <= rhs
    if op == '>':
        return lhs > rhs
    if op == '>=':
        return lhs >= rhs
    raise ValueError(op)


# ---------------------------------------------------------------------------------------------
# per-line evaluation
def im_eval(t, n: int) -> bool:
    k = t[0]
    if k == 'cmp':
        return _cmp(t[1], n, int_value(t[2]))
    if k == 'const':
        return bool(t[1])
    if k == 'not':
        return not im_eval(t[1], n)
    if k == 'and':
        return all(im_eval(c, n) for c in t[1])
    if k == 'or':
        return any(im_eval(c, n) for c in t[1])
    raise ValueError(k)


def lm_eval(t, n: int, line: str) -> bool:
    """n = 1-based line number, line = the line's text without its line separator."""
    k = t[0]
    if k == 'ln':
        return im_eval(t[1], n)
    if k == 'cm':
        rx = re.compile(t[1])
        return (rx.fullmatch(line) if t[2] else rx.search(line)) is not None
    if k == 'ce':
        return line == ''
    if k == 'const':
        return bool(t[1])
    if k == 'not':
        return not lm_eval(t[1], n, line)
    if k == 'and':
        return all(lm_eval(c, n, line) for c in t[1])
    if k == 'or':
        return any(lm_eval(c, n, line) for c in t[1])
    raise ValueError(k)


def split_lines(text: str) -> List[str]:
    """Lines with their separator kept; only '\n' separates; a last line may lack it."""
    if text == '':
        return []
    parts = text.split('\n')
    out = [p + '\n' for p in parts[:-1]]
    if parts[-1] != '':
        out.append(parts[-1])
    return out


def accepted_numbers(lm, lines: List[str]) -> List[int]:
    return [i for i, l in enumerate(lines, 1) if lm_eval(lm, i, l[:-1] if l.endswith('\n') else l)]


def filter_by_matcher(text: str, lm) -> str:
    lines = split_lines(text)
    keep = set(accepted_numbers(lm, lines))
    return ''.join(l for i, l in enumerate(lines, 1) if i in keep)


# ---------------------------------------------------------------------------------------------
# -line-nums
def _abs(n: int, num_lines: int) -> int:
    return n if n >= 0 else num_lines + n + 1


def range_matches(r, line_num: int, num_lines: int) -> bool:
    f = r['f']
    if f == 's':
        v = int_value(r['a'])
        return v != 0 and line_num == _abs(v, num_lines)
    if f == 'u':
        return 1 <= line_num <= _abs(int_value(r['a']), num_lines)
    if f == 'l':
        return line_num >= _abs(int_value(r['a']), num_lines)
    if f == 'b':
        return _abs(int_value(r['a']), num_lines) <= line_num <= _abs(int_value(r['b']), num_lines)
    raise ValueError(f)


def numbers_in_ranges(ranges, num_lines: int) -> List[int]:
    return [i for i in range(1, num_lines + 1) if any(range_matches(r, i, num_lines) for r in ranges)]


def filter_by_ranges(text: str, ranges) -> str:
    lines = split_lines(text)
    keep = set(numbers_in_ranges(ranges, len(lines)))
    return ''.join(l for i, l in enumerate(lines, 1) if i in keep)


def apply_stage(text: str, stage) -> str:
    if 'm' in stage:
        return filter_by_matcher(text, stage['m'])
    return filter_by_ranges(text, stage['r'])


def apply_stages(text: str, stages) -> str:
    for s in stages:
        text = apply_stage(text, s)
    return text


# ---------------------------------------------------------------------------------------------
# tree measures
def nodes(t, level='lm'):
    """yields (level, node) for every node; level is 'lm' or 'im'"""
    yield level, t
    k = t[0]
    if k == 'ln':
        yield from nodes(t[1], 'im')
    elif k == 'not':
        yield from nodes(t[1], level)
    elif k in ('and', 'or'):
        for c in t[1]:
            yield from nodes(c, level)


def depth(t) -> int:
    k = t[0]
    if k == 'ln':
        return 1 + depth(t[1])
    if k == 'not':
        return 1 + depth(t[1])
    if k in ('and', 'or'):
        return 1 + max(depth(c) for c in t[1])
    return 1


def constants_of(t) -> List[int]:
    return [int_value(n[2]) for _, n in nodes(t) if n[0] == 'cmp']


def _strip_nots(t):
    while t[0] == 'not':
        t = t[1]
    return t


def has_negated_ln_connective(t, negated=False) -> bool:
    """the shape finding KF-C13-1 needs: a `line-num IM` whose IM is (under negations) a && / ||, and that is
    evaluated under an odd number of line-matcher level negations"""
    k = t[0]
    if k == 'ln':
        return negated and _strip_nots(t[1])[0] in ('and', 'or')
    if k == 'not':
        return has_negated_ln_connective(t[1], not negated)
    if k in ('and', 'or'):
        return any(has_negated_ln_connective(c, negated) for c in t[1])
    return False


# ---------------------------------------------------------------------------------------------
# defect model KF-C13-1: interval analysis as pairs (pos, neg) of covers.
# A cover ("hull") is EMPTY or (lo, hi) with None = unbounded.
EMPTY = 'E'
ALL = (None, None)
Hull = object
Pair = Tuple[Hull, Hull]


def _compl(h: Hull) -> Hull:
    """complement of a cover, widened to a cover (a finite interval's complement is not an interval -> ALL)"""
    if h == EMPTY:
        return ALL
    lo, hi = h
    if lo is None and hi is None:
        return EMPTY
    if lo is None:
        return (hi + 1, None)
    if hi is None:
        return (None, lo - 1)
    return ALL


def _plain(h: Hull) -> Pair:
    return (h, _compl(h))


def _cmp_pair(op: str, x: int) -> Pair:
    if op == '==':
        return ((x, x), ALL)
    if op == '!=':
        return (ALL, (x, x))
    if op == '<':
        return _plain((None, x - 1))
    if op == '<=':
        return _plain((None, x))
    if op == '>':
        return _plain((x + 1, None))
    if op == '>=':
        return _plain((x, None))
    raise ValueError(op)


def _swap(p: Pair) -> Pair:
    return (p[1], p[0])


def _union(a: Pair, b: Pair) -> Pair:
    if a[0] == EMPTY:
        return b
    if b[0] == EMPTY:
        return a
    (alo, ahi), (blo, bhi) = a[0], b[0]
    lo = None if alo is None or blo is None else min(alo, blo)
    hi = None if ahi is None or bhi is None else max(ahi, bhi)
    return _plain((lo, hi))


def _intersection(a: Pair, b: Pair) -> Pair:
    if a[0] == EMPTY:
        return a
    if b[0] == EMPTY:
        return b
    (alo, ahi), (blo, bhi) = a[0], b[0]
    los = [x for x in (alo, blo) if x is not None]
    his = [x for x in (ahi, bhi) if x is not None]
    lo = max(los) if los else None
    hi = min(his) if his else None
    if lo is not None and hi is not None and lo > hi:
        return (EMPTY, ALL)
    return _plain((lo, hi))


def _reduce(op, pairs: List[Pair]) -> Pair:
    r = pairs[0]
    for p in pairs[1:]:
        r = op(r, p)
    return r


def _no_adaption(p: Pair) -> Pair:
    return p


def _adapt_to_line_numbers(p: Pair) -> Pair:
    """restrict a cover to line numbers (>= 1); a lower bound of 1 is no bound"""
    if p[0] == EMPTY:
        return p
    lo, hi = p[0]
    if hi is not None and hi < 1:
        return (EMPTY, ALL)
    if lo is not None:
        lo = max(1, lo)
        if lo == 1:
            lo = None
    if hi is not None:
        hi = max(1, hi)
    return _plain((lo, hi))


_CONST = {True: (ALL, EMPTY), False: (EMPTY, ALL)}
_UNKNOWN = (ALL, ALL)


class _Model:
    def __init__(self, level: str, defect: bool):
        self.level = level
        self.defect = defect
        self.adapt = _adapt_to_line_numbers if level == 'lm' else _no_adaption

    # interval of what the node accepts
    def ev(self, t) -> Pair:
        k = t[0]
        if k == 'const':
            return self.adapt(_CONST[bool(t[1])])
        if k == 'not':
            return self.adapt(self.neg(t[1]))
        if k == 'and':
            return self.bin(_intersection, _union, [self.ev(c) for c in t[1]])
        if k == 'or':
            return self.bin(_union, _intersection, [self.ev(c) for c in t[1]])
        if k == 'cmp':
            return self.adapt(_cmp_pair(t[1], int_value(t[2])))
        if k == 'ln':
            return self.adapt(_Model('im', self.defect).ev(t[1]))
        return _UNKNOWN  # contents matchers: nothing is known, in either polarity

    # interval of what the negation of the node accepts (not yet adapted)
    def neg(self, t) -> Pair:
        k = t[0]
        if k == 'const':
            return _CONST[not bool(t[1])]
        if k == 'not':
            return self.ev(t[1])
        if k == 'and':
            return self.ev(['or', [['not', c] for c in t[1]]])
        if k == 'or':
            return self.ev(['and', [['not', c] for c in t[1]]])
        if k == 'cmp':
            return _swap(_cmp_pair(t[1], int_value(t[2])))
        if k == 'ln':
            return _swap(_Model('im', self.defect).ev(t[1]))
        return _UNKNOWN

    def bin(self, op, dual, operands: List[Pair]) -> Pair:
        pos = _reduce(op, operands)
        if self.defect:
            # the modelled defect: the cover of the rejected numbers is the complement of the *cover* of the
            # accepted ones (sound only if the cover is exact)
            neg = pos[1]
        else:
            neg = _reduce(dual, [_swap(o) for o in operands])[0]
        return (pos[0], _adapt_hull(self.adapt, neg))


def _adapt_hull(adapt, h: Hull) -> Hull:
    return adapt((h, ALL))[0]


def interval_model(lm, defect: bool) -> Hull:
    """cover of the line numbers `lm` can accept: EMPTY or (lo, hi), None = unbounded"""
    return _Model('lm', defect).ev(lm)[0]


def in_hull(n: int, h: Hull) -> bool:
    if h == EMPTY:
        return False
    lo, hi = h
    return (lo is None or n >= lo) and (hi is None or n <= hi)


def filter_by_matcher_within(text: str, lm, h: Hull) -> str:
    """what `filter lm` gives if only the lines with numbers in h are looked at"""
    lines = split_lines(text)
    keep = set(i for i in accepted_numbers(lm, lines) if in_hull(i, h))
    return ''.join(l for i, l in enumerate(lines, 1) if i in keep)
