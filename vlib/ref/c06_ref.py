"""Reference reading and evaluation of the matcher / transformer expression languages (property C06).

Written from `exactly help syntax INTEGER-MATCHER | LINE-MATCHER | TEXT-MATCHER | FILE-MATCHER | FILES-MATCHER |
TEXT-TRANSFORMER` ("Operator precedence 1. !  2. &&  3. ||", "Operands are evaluated lazily, from left to right",
"The output of the text-transformer to the left is given as input to the text-transformer to the right",
"X may not contain infix operators (unless inside parentheses)").  Independent of the code under test.

Trees (JSON lists).  Operators: ['not', X], ['and', X, Y], ['or', X, Y], ['pipe', X, Y] (transformers only).
Leaves, per host type (nested operands are trees of the host named in NESTED):
  im  : ['cmp', OP, N]  ['const', B]
  lm  : ['const', B]  ['line-num', IM]  ['contents', TM]
  tm  : ['const', B]  ['is-empty']  ['matches', LITERAL]  ['equals', STR]  ['num-lines', IM]  ['every-line', LM]
        ['any-line', LM]  ['run', ID, EXIT]  ['transformed', TR, TM]
  fm  : ['const', B]  ['type', T]  ['name', GLOB]  ['contents', TM]  ['dir-contents', FSM]  ['run', ID, EXIT]
  fsm : ['const', B]  ['is-empty']  ['num-files', IM]  ['every-file', FM]  ['any-file', FM]  ['selection', FM, FSM]
        ['pruned', FM, FSM]  ['pruned-r', FM, FSM] (-with-pruned under `dir-contents d : -recursive`; root only)
  any : ['sym', NAME, FLAT-LEAF]   a reference to a symbol defined as that leaf
  tr  : ['identity']  ['replace', LETTER, STR]  ['replace-at', LM, LETTER, STR]  ['upper']  ['lower']
        ['filter', LM]  ['run', ID, OUTTEXT]

The same trees with *item lists* in the nested slots are what the renderer emits; `parse_items` reads an item list
back under the documented grammar or under a deliberately wrong variant (used to measure how discriminating a case
is, and to self-check the renderer).
"""
import fnmatch
import re

MATCHER_HOSTS = ('im', 'lm', 'tm', 'fm', 'fsm')
HOSTS = MATCHER_HOSTS + ('tr',)
OPERATORS = ('not', 'and', 'or', 'pipe')

# (host, leaf kind) -> [(index in the leaf list, host of the nested operand)]
NESTED = {
    ('lm', 'line-num'): [(1, 'im')], ('lm', 'contents'): [(1, 'tm')],
    ('tm', 'num-lines'): [(1, 'im')], ('tm', 'every-line'): [(1, 'lm')], ('tm', 'any-line'): [(1, 'lm')],
    ('tm', 'transformed'): [(1, 'tr'), (2, 'tm')],
    ('fm', 'contents'): [(1, 'tm')], ('fm', 'dir-contents'): [(1, 'fsm')],
    ('fsm', 'num-files'): [(1, 'im')], ('fsm', 'every-file'): [(1, 'fm')], ('fsm', 'any-file'): [(1, 'fm')],
    ('fsm', 'selection'): [(1, 'fm'), (2, 'fsm')], ('fsm', 'pruned'): [(1, 'fm'), (2, 'fsm')],
    ('fsm', 'pruned-r'): [(1, 'fm'), (2, 'fsm')],
    ('tr', 'filter'): [(1, 'lm')], ('tr', 'replace-at'): [(1, 'lm')],
}

# ---- the fixed world -------------------------------------------------------------------------------------------
# a directory tree (created in the home directory by the harness, copied into the sandbox by `copy d`)
TREE = {'d': 'dir', 'd/a.txt': 'file', 'd/b.txt': 'file', 'd/emp': 'dir', 'd/sub': 'dir', 'd/sub/c.txt': 'file'}
FILE_MODELS = ['d', 'd/a.txt', 'd/b.txt', 'd/emp', 'd/sub', 'd/sub/c.txt']
DIR_MODELS = ['d', 'd/emp', 'd/sub']


def file_text(world, path):
    return {'d/a.txt': world['text'], 'd/b.txt': '', 'd/sub/c.txt': 'c\n'}[path]


def entries(path):
    pre = path + '/'
    return sorted(p for p in TREE if p.startswith(pre) and '/' not in p[len(pre):])


def split_lines(text):
    """-> [(line without its newline, ending)] ; "a\\nb" has two lines, "" has none"""
    out = []
    parts = text.split('\n')
    for i, p in enumerate(parts):
        last = i == len(parts) - 1
        if last:
            if p != '':
                out.append((p, ''))
        else:
            out.append((p, '\n'))
    return out


class Hard(Exception):
    """the manual says: the result is HARD_ERROR"""


class Ambiguous(Exception):
    """the manual does not determine the outcome (order / laziness over the elements of a quantification)"""


class Env:
    def __init__(self, world, lazy=True, ltr=True):
        self.world = world
        self.lazy = lazy
        self.ltr = ltr
        self.trace = []
        self.trace_ok = True  # False: the manual does not determine which program leaves run, or in which order
        self.windows = {}  # defect model KF-C06-3: id(filter leaf) -> (lo, hi) = the only line numbers it looks at


_CMP = {
    '==': lambda a, b: a == b, '!=': lambda a, b: a != b, '<': lambda a, b: a < b,
    '<=': lambda a, b: a <= b, '>': lambda a, b: a > b, '>=': lambda a, b: a >= b,
}


def eval_matcher(host, t, model, env):
    op = t[0]
    if op == 'not':
        return not eval_matcher(host, t[1], model, env)
    if op in ('and', 'or'):
        operands = [t[1], t[2]]
        if not env.ltr:
            operands.reverse()
        if not env.lazy:
            vals = [eval_matcher(host, x, model, env) for x in operands]
            return all(vals) if op == 'and' else any(vals)
        for x in operands:
            v = eval_matcher(host, x, model, env)
            if op == 'and' and not v:
                return False
            if op == 'or' and v:
                return True
        return op == 'and'
    if op == 'sym':
        return _LEAF[host](t[2], model, env)
    return _LEAF[host](t, model, env)


def _quantified(host, sub, elements, env, may_skip_elements=False):
    """values of `sub` on every element.  Neither the order in which elements are visited nor whether visiting
    stops early is documented: with more than one element, program leaves make the trace undetermined (the value
    still is determined) and a HARD_ERROR makes the whole outcome ambiguous.  `may_skip_elements`: the construct
    may leave out elements altogether (`filter`, `replace -at` derive line-number ranges from the matcher)."""
    vals = []
    for m in elements:
        n0 = len(env.trace)
        try:
            v = eval_matcher(host, sub, m, env)
        except Hard:
            if len(elements) > 1 or may_skip_elements:
                raise Ambiguous()
            raise
        if len(env.trace) != n0 and (len(elements) > 1 or may_skip_elements):
            env.trace_ok = False
        vals.append(v)
    return vals


def _im(t, n, env):
    k = t[0]
    if k == 'const':
        return bool(t[1])
    if k == 'cmp':
        return _CMP[t[1]](n, t[2])
    raise ValueError('im leaf %r' % (t,))


def _lm(t, line, env):
    k = t[0]
    if k == 'const':
        return bool(t[1])
    if k == 'line-num':
        return eval_matcher('im', t[1], line[0], env)
    if k == 'contents':
        return eval_matcher('tm', t[1], line[1], env)
    raise ValueError('lm leaf %r' % (t,))


_TEXT_CONSUMERS = ('is-empty', 'matches', 'equals', 'num-lines', 'every-line', 'any-line', 'run')


def _tm(t, text, env):
    k = t[0]
    if k == 'const':
        return bool(t[1])
    if k == 'is-empty':
        return text == ''
    if k == 'matches':
        return t[1] in text  # the generated REGEXes are literal letters
    if k == 'equals':
        return text == t[1]
    lines = [(i + 1, l) for i, (l, _) in enumerate(split_lines(text))]
    if k == 'num-lines':
        return eval_matcher('im', t[1], len(lines), env)
    if k == 'every-line':
        return all(_quantified('lm', t[1], lines, env))
    if k == 'any-line':
        return any(_quantified('lm', t[1], lines, env))
    if k == 'run':
        env.trace.append([t[1], 'in', text])
        return t[2] == 0
    if k == 'transformed':
        n0 = len(env.trace)
        new = apply_tr(t[1], text, env)
        if len(env.trace) != n0 and t[2][0] not in _TEXT_CONSUMERS:
            # whether (and how often) the transformed text is computed when the matcher may not need it
            # is not documented
            env.trace_ok = False
        return eval_matcher('tm', t[2], new, env)
    raise ValueError('tm leaf %r' % (t,))


def _fm(t, path, env):
    k = t[0]
    if k == 'const':
        return bool(t[1])
    if k == 'type':
        return TREE[path] == t[1]
    if k == 'name':
        return fnmatch.fnmatchcase(path.rsplit('/', 1)[-1], t[1])
    if k == 'contents':
        if TREE[path] != 'file':
            raise Hard()
        return eval_matcher('tm', t[1], file_text(env.world, path), env)
    if k == 'dir-contents':
        if TREE[path] != 'dir':
            raise Hard()
        return eval_matcher('fsm', t[1], entries(path), env)
    if k == 'run':
        env.trace.append([t[1], 'arg', path.rsplit('/', 1)[-1]])
        return t[2] == 0
    raise ValueError('fm leaf %r' % (t,))


_FILES_CONSUMERS = ('is-empty', 'num-files', 'every-file', 'any-file')


def _fsm(t, files, env):
    k = t[0]
    if k == 'const':
        return bool(t[1])
    if k == 'is-empty':
        return not files
    if k == 'num-files':
        return eval_matcher('im', t[1], len(files), env)
    if k == 'every-file':
        return all(_quantified('fm', t[1], files, env))
    if k == 'any-file':
        return any(_quantified('fm', t[1], files, env))
    if k == 'selection':
        n0 = len(env.trace)
        try:
            vals = _quantified('fm', t[1], files, env)
        except Hard:
            if t[2][0] not in _FILES_CONSUMERS:
                raise Ambiguous()
            raise
        if len(env.trace) != n0 and t[2][0] not in _FILES_CONSUMERS:
            # whether the selection is computed when the matcher applied to it may not look at the files
            # is not documented (it is not, for `-selection FM constant false`)
            env.trace_ok = False
        return eval_matcher('fsm', t[2], [f for f, v in zip(files, vals) if v], env)
    if k == 'pruned':
        # direct (non-recursive) contents: pruning only stops descending, the set of files is unchanged; whether
        # the file-matcher is applied to the directories at all is not documented
        n0 = len(env.trace)
        try:
            _quantified('fm', t[1], [f for f in files if TREE[f] == 'dir'], env)
        except Hard:
            raise Ambiguous()
        if len(env.trace) != n0:
            env.trace_ok = False
        return eval_matcher('fsm', t[2], files, env)
    if k == 'pruned-r':
        # `dir-contents d : -recursive -with-pruned FM FSM`: all files below d, without the contents of the
        # directories FM matches (FM "is only applied to directories"; the directories themselves stay)
        dirs = [f for f in entries('d') if TREE[f] == 'dir']
        vals = _quantified('fm', t[1], dirs, env)
        files = list(entries('d'))
        for d_, pruned in zip(dirs, vals):
            if not pruned:
                files += entries(d_)
        return eval_matcher('fsm', t[2], sorted(files), env)
    raise ValueError('fsm leaf %r' % (t,))


_LEAF = {'im': _im, 'lm': _lm, 'tm': _tm, 'fm': _fm, 'fsm': _fsm}


def apply_tr(t, text, env):
    k = t[0]
    if k == 'pipe':
        first, second = (t[1], t[2]) if env.ltr else (t[2], t[1])
        return apply_tr(second, apply_tr(first, text, env), env)
    if k == 'sym':
        return apply_tr(t[2], text, env)
    if k == 'identity':
        return text
    if k == 'replace':
        return text.replace(t[1], t[2])
    if k == 'upper':
        return text.upper()
    if k == 'lower':
        return text.lower()
    if k == 'run':
        env.trace.append([t[1], 'in', text])
        return t[2]
    lines = split_lines(text)
    models = [(i + 1, l) for i, (l, _) in enumerate(lines)]
    if k == 'filter':
        vals = _quantified('lm', t[1], models, env, may_skip_elements=True)
        if id(t) in env.windows:
            lo, hi = env.windows[id(t)]
            vals = [v and lo <= n <= hi for v, (n, _) in zip(vals, models)]
        return ''.join(l + e for (l, e), v in zip(lines, vals) if v)
    if k == 'replace-at':
        vals = _quantified('lm', t[1], models, env, may_skip_elements=True)
        return ''.join((l.replace(t[2], t[3]) if v else l) + e for (l, e), v in zip(lines, vals))
    raise ValueError('tr leaf %r' % (t,))


def outcome(host, tree, model, world, lazy=True, ltr=True, windows=None):
    """-> {'res': 'T'|'F' (matcher value) | 'X' (transformer, with 'text') | 'H' (HARD_ERROR) | 'A' (ambiguous),
           'trace': [[leaf id, 'in'|'arg', payload], ...] or None if the manual does not determine it}"""
    env = Env(world, lazy, ltr)
    env.windows = windows or {}
    try:
        if host == 'tr':
            text = apply_tr(tree, model, env)
            return {'res': 'X', 'text': text, 'trace': env.trace if env.trace_ok else None}
        v = eval_matcher(host, tree, model, env)
        return {'res': 'T' if v else 'F', 'trace': env.trace if env.trace_ok else None}
    except Hard:
        return {'res': 'H', 'trace': env.trace if env.trace_ok else None}
    except Ambiguous:
        return {'res': 'A', 'trace': None}


def differs(o, doc):
    """outcome `o` (of a wrong reading) is observably different from the documented outcome"""
    if o['res'] == 'A' or doc['res'] == 'A':
        return False
    if o['res'] != doc['res'] or o.get('text') != doc.get('text'):
        return True
    if o['trace'] is None or doc['trace'] is None:
        return False
    return o['trace'] != doc['trace']


# ---- reading an item list ----------------------------------------------------------------------------------------
class ParseError(Exception):
    pass


_NAME = {'&&': 'and', '||': 'or', '|': 'pipe'}
PARSE_VARIANTS = ('swap', 'flat-left', 'flat-right', 'not-loose')
EVAL_VARIANTS = ('eager', 'rtl')


class _Reader:
    def __init__(self, items, host, variant):
        self.items = items
        self.host = host
        self.variant = variant
        self.i = 0

    def peek(self):
        return self.items[self.i][0] if self.i < len(self.items) else None

    def take(self):
        it = self.items[self.i]
        self.i += 1
        return it

    def full(self):
        v = self.variant
        if self.host == 'tr':
            return self.level(('|',), self.primary)
        if v in ('doc', 'not-loose'):
            return self.level(('||',), lambda: self.level(('&&',), self.unary))
        if v == 'swap':
            return self.level(('&&',), lambda: self.level(('||',), self.unary))
        if v == 'flat-left':
            return self.level(('&&', '||'), self.unary)
        if v == 'flat-right':
            x = self.unary()
            if self.peek() in ('&&', '||'):
                op = self.take()[0]
                return [_NAME[op], x, self.full()]
            return x
        raise ValueError(v)

    def level(self, ops, sub):
        x = sub()
        while self.peek() in ops:
            op = self.take()[0]
            x = [_NAME[op], x, sub()]
        return x

    def unary(self):
        if self.host != 'tr' and self.peek() == '!':
            self.take()
            if self.variant == 'not-loose':
                return ['not', self.full()]
            return ['not', self.unary()]
        return self.primary()

    def primary(self):
        p = self.peek()
        if p == '(':
            self.take()
            x = self.full()
            if self.peek() != ')':
                raise ParseError('missing )')
            self.take()
            return x
        if p == 'leaf':
            leaf = list(self.take()[1])
            for idx, h in NESTED.get((self.host, leaf[0]), ()):
                leaf[idx] = parse_items(leaf[idx], h, self.variant, simple=True)
            return leaf
        raise ParseError('operand expected, found %r' % (p,))


def parse_items(items, host, variant='doc', simple=False):
    r = _Reader(items, host, variant)
    tree = r.unary() if simple else r.full()
    if r.i != len(items):
        raise ParseError('superfluous items')
    return tree


def alternative_readings(items, host, simple, model, world, doc_outcome):
    """names of the wrong readings of the same item list whose outcome differs from the documented one"""
    if doc_outcome['res'] == 'A':
        return []
    diff = []
    for v in PARSE_VARIANTS:
        try:
            t = parse_items(items, host, v, simple)
        except ParseError:
            diff.append(v)
            continue
        if differs(outcome(host, t, model, world), doc_outcome):
            diff.append(v)
    doc_tree = parse_items(items, host, 'doc', simple)
    for v in EVAL_VARIANTS:
        if differs(outcome(host, doc_tree, model, world, lazy=(v != 'eager'), ltr=(v != 'rtl')), doc_outcome):
            diff.append(v)
    return diff


def count_nodes(tree, host):
    """-> (number of leaves incl. nested ones, number of operators, max depth)"""
    op = tree[0]
    if op == 'not':
        l, o, d = count_nodes(tree[1], host)
        return l, o + 1, d + 1
    if op in ('and', 'or', 'pipe'):
        l1, o1, d1 = count_nodes(tree[1], host)
        l2, o2, d2 = count_nodes(tree[2], host)
        return l1 + l2, o1 + o2 + 1, max(d1, d2) + 1
    l, o, d = 1, 0, 0
    for idx, h in NESTED.get((host, op), ()):
        l2, o2, d2 = count_nodes(tree[idx], h)
        l, o, d = l + l2, o + o2, max(d, d2 + 1)
    return l, o, d


# ---- defect models (genuine defects of the unchanged tree, see the final report / known_findings.json) ------------------
def tokens_with_lines(expr_text):
    """[(token, preceded by a line break, start, end)] of a generated expression text (no token contains blanks)"""
    out = []
    prev_end = 0
    for m in re.finditer(r'\S+', expr_text):
        out.append((m.group(), '\n' in expr_text[prev_end:m.start()], m.start(), m.end()))
        prev_end = m.end()
    return out


def and_after_or_on_new_line(expr_text):
    """KF-C06-1/2: inside parentheses, an `&&` at the start of a line that follows an `||` of the same
    parenthesis level is not read as an operator; the parser then takes it *in place of the `)`*.
    -> (start, end) of the first such `&&` in the text, or None."""
    toks = tokens_with_lines(expr_text)
    depths = []
    depth = 0
    for tok, _, _, _ in toks:
        depths.append(depth)
        if tok == '(':
            depth += 1
        elif tok == ')':
            depth -= 1
    for i, (tok, nl, a, b) in enumerate(toks):
        if tok == '&&' and nl and depths[i] >= 1:
            d = depths[i]
            j = i - 1
            while j >= 0 and not (toks[j][0] == '(' and depths[j] == d - 1):
                if toks[j][0] == '||' and depths[j] == d:
                    return a, b
                j -= 1
    return None


def _subtrees(tree, host, acc):
    """all (node, host) of a tree, nested operands included"""
    acc.append((tree, host))
    op = tree[0]
    if op == 'not':
        _subtrees(tree[1], host, acc)
    elif op in ('and', 'or', 'pipe'):
        _subtrees(tree[1], host, acc)
        _subtrees(tree[2], host, acc)
    else:
        for idx, h in NESTED.get((host, op), ()):
            _subtrees(tree[idx], h, acc)
    return acc


def _lm_level(tree, acc):
    """the nodes of a line-matcher expression that belong to the line-matcher level itself"""
    acc.append(tree)
    if tree[0] == 'not':
        _lm_level(tree[1], acc)
    elif tree[0] in ('and', 'or'):
        _lm_level(tree[1], acc)
        _lm_level(tree[2], acc)
    return acc


def filters_with_negated_line_num_union(tree, host):
    """KF-C06-3 (the finding of property C13): `filter` derives a range of line numbers from its matcher and only
    looks at these lines; for a `!` above a `line-num` whose integer matcher contains an `||` the range is too
    narrow (the union is widened to "all", the inversion of "all" is "none").  -> the `filter` leaves whose
    line matcher has that shape"""
    out = []
    for node, h in _subtrees(tree, host, []):
        if h == 'tr' and node[0] == 'filter':
            vulnerable = False
            for n in _lm_level(node[1], []):
                if n[0] == 'not':
                    for m in _lm_level(n[1], []):
                        if m[0] == 'line-num' and any(x[0] == 'or' for x, _ in _subtrees(m[1], 'im', [])):
                            vulnerable = True
            if vulnerable:
                out.append(node)
    return out
