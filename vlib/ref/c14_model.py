"""C14 - reference value of a *source tree* (a text built from a literal / file / program output, transformed and
concatenated) and the *defect models* used to classify deviations.  Never imports exactly_lib.

A text is a string; its division into lines is "split after every '\\n'" (manual: "Every line ends with "\\n", except
the last line, which may or may not end with "\\n"", "Lines are separated by "\\n", regardless of the current OS").

Source tree (JSON lists)
    ['str', TEXT]                       constant string made by the public factory
    ['lit', TEXT, 'q' | 'here']         literal parsed from TEXT-SOURCE syntax (quoted string / here-document)
    ['file', TEXT]                      -contents-of FILE
    ['prog', TEXT, 'out'|'err', ignore_exit_code: bool]      -stdout-from / -stderr-from a program printing TEXT
    ['tr', TR, SRC]                     SRC -transformed-by TR
    ['concat', [SRC, SRC, ...]]         concatenation (stdin parts of a program; concat.string_source)
Transformers TR (a deliberately small set with unambiguous semantics; C05 owns the transformer semantics)
    ['identity'] ['tcds'] ['upper'] ['lower'] ['strip', None|'space'|'nl']
    ['filter', LM]        LM = ['true'] | ['ln', OP, N] | ['has', CH]        (constant true / line-num OP N / contents matches CH)
    ['nums', [RANGE...]]  RANGE = [n] | [lo|None, hi|None]                   filter -line-nums
    ['grep', CH]
    ['replace', ID, pnl]  ID in REPLACEMENTS
    ['run', PROG, STDIN_TEXT | None]   PROG in PROGRAMS ('cat' = identity, 'tr' = a->X); stdin text is put before the model
    ['seq', TR, TR, ...]

Everything is evaluated on *chunk lists* (a chunking of the text): with the proper chunking (``nl_split``) the result
is the reference value; with the chunkings that the modelled defects produce it is the prediction of the defect.
"""
from typing import Dict, FrozenSet, List, Optional, Sequence, Tuple

BREAKS = '\x0b\x0c\x1c\x1d\x1e\x85\u2028\u2029'  # what str.splitlines treats as a line break besides \n, \r, \r\n

# id -> (regex as written, template as written, character replaced, replacement text)
REPLACEMENTS = {
    'aX': ('a', 'X', 'a', 'X'),
    'bCR': ('b', '\\r', 'b', '\r'),
    'bFF': ('b', '\\f', 'b', '\x0c'),
    'bNL': ('b', '\\n', 'b', '\n'),
    'NLdel': ('\\n', '', '\n', ''),
    'SPdel': (' ', '', ' ', ''),
    'eE': ('é', 'E', 'é', 'E'),
}
PROGRAMS = {'cat': None, 'tr': ('a', 'X')}

UNDECODABLE = ('\x00<undecodable>',)  # marker value in a closure: reading the text raises UnicodeDecodeError

_OPS = {'==': lambda a, b: a == b, '!=': lambda a, b: a != b, '<': lambda a, b: a < b, '<=': lambda a, b: a <= b,
        '>': lambda a, b: a > b, '>=': lambda a, b: a >= b}


# ---- chunkings -------------------------------------------------------------------------------------------------
def nl_split(text: str) -> Tuple[str, ...]:
    """The division into lines: split after each '\\n' and nowhere else."""
    if text == '':
        return ()
    parts = text.split('\n')
    out = [p + '\n' for p in parts[:-1]]
    if parts[-1] != '':
        out.append(parts[-1])
    return tuple(out)


def sl_split(text: str) -> Tuple[str, ...]:
    """DEFECT MODEL D1 only: the chunks str.splitlines(keepends=True) gives."""
    return tuple(text.splitlines(True))


def universal(text: str) -> str:
    """DEFECT MODEL D2 only: universal-newlines translation of a text read from a file in text mode."""
    return text.replace('\r\n', '\n').replace('\r', '\n')


def has_break_chars(text: str) -> bool:
    return any(c in text for c in BREAKS)


# ---- transformers on chunk lists --------------------------------------------------------------------------------
def _content(chunk: str) -> str:
    return chunk[:-1] if chunk.endswith('\n') else chunk


def _abs(n: int, total: int) -> int:
    return total + 1 + n if n < 0 else n


def range_selects(rng, num: int, total: int) -> bool:
    if len(rng) == 1:
        return num == _abs(rng[0], total)
    lo, hi = rng
    if lo is not None and num < _abs(lo, total):
        return False
    if hi is not None and num > _abs(hi, total):
        return False
    return True


def _lm(lm, num: int, chunk: str) -> bool:
    if lm[0] == 'true':
        return True
    if lm[0] == 'ln':
        return _OPS[lm[1]](num, lm[2])
    if lm[0] == 'has':
        return lm[1] in _content(chunk)
    raise ValueError('line matcher %r' % (lm,))


def apply(tr, chunks: Sequence[str]) -> Tuple[str, ...]:
    """Output chunks of the transformer for the given input chunks (all chunks are non-empty strings)."""
    tag = tr[0]
    chunks = tuple(chunks)
    if tag in ('identity', 'tcds'):
        return chunks
    if tag == 'upper':
        return tuple(c.upper() for c in chunks)
    if tag == 'lower':
        return tuple(c.lower() for c in chunks)
    if tag == 'strip':
        return _strip(tr[1], list(chunks))
    if tag == 'filter':
        return tuple(c for i, c in enumerate(chunks) if _lm(tr[1], i + 1, c))
    if tag == 'grep':
        return tuple(c for c in chunks if tr[1] in _content(c))
    if tag == 'nums':
        total = len(chunks)
        return tuple(c for i, c in enumerate(chunks) if any(range_selects(r, i + 1, total) for r in tr[1]))
    if tag == 'replace':
        _, _, old, new = REPLACEMENTS[tr[1]]
        out = []
        for c in chunks:
            if tr[2] and c.endswith('\n'):
                out.append(c[:-1].replace(old, new) + '\n')
            else:
                out.append(c.replace(old, new))
        return nl_split(''.join(out))  # the output is a text; its lines are its own
    if tag == 'run':
        text = (tr[2] or '') + ''.join(chunks)  # the program reads the text as a file
        sub = PROGRAMS[tr[1]]
        if sub is not None:
            text = text.replace(sub[0], sub[1])
        return nl_split(text)
    if tag == 'seq':
        for t in tr[1:]:
            chunks = apply(t, chunks)
        return chunks
    raise ValueError('transformer %r' % (tr,))


def _strip(variant, chunks: List[str]) -> Tuple[str, ...]:
    if variant == 'nl':
        while chunks and chunks[-1] == '\n':
            chunks.pop()
        if chunks:
            chunks[-1] = chunks[-1].rstrip('\n')
            if chunks[-1] == '':
                chunks.pop()
        return tuple(chunks)
    if variant is None:
        while chunks and chunks[0].isspace():
            chunks.pop(0)
        if chunks:
            chunks[0] = chunks[0].lstrip()
    while chunks and chunks[-1].isspace():
        chunks.pop()
    if chunks:
        chunks[-1] = chunks[-1].rstrip()
    return tuple(c for c in chunks if c != '')


# ---- reference value ----------------------------------------------------------------------------------------------
def ref_text(node) -> str:
    kind = node[0]
    if kind in ('str', 'lit', 'file', 'prog'):
        return node[1]
    if kind == 'tr':
        return ''.join(apply(node[1], nl_split(ref_text(node[2]))))
    if kind == 'concat':
        return ''.join(ref_text(p) for p in node[1])
    raise ValueError('source %r' % (node,))


def nodes_preorder(node) -> List:
    """All nodes of a source tree, the root first."""
    out = [node]
    if node[0] == 'tr':
        out += nodes_preorder(node[2])
    elif node[0] == 'concat':
        for p in node[1]:
            out += nodes_preorder(p)
    return out


def leaf_texts(node) -> List[str]:
    return [n[1] for n in nodes_preorder(node) if n[0] in ('str', 'lit', 'file', 'prog')]


def tr_tags(tr) -> List[str]:
    if tr[0] == 'seq':
        out = []
        for t in tr[1:]:
            out += tr_tags(t)
        return out
    if tr[0] == 'filter':
        return ['filter-' + tr[1][0]]
    if tr[0] == 'nums':
        neg = any(x is not None and x < 0 for r in tr[1] for x in r)
        return ['nums-%s%s' % ('multi' if len(tr[1]) > 1 else 'single', '-neg' if neg else '')]
    if tr[0] == 'run':
        return ['run-' + tr[1] + ('-stdin' if tr[2] is not None else '')]
    if tr[0] == 'replace':
        return ['replace-' + tr[1]]
    return [tr[0]]


# ---- DEFECT MODELS ------------------------------------------------------------------------------------------------
# D1  a text held in memory (a constant string, or a text cached in memory after freezing) divides into lines with
#     str.splitlines: \x0b \x0c \x1c \x1d \x1e \x85 \u2028 \u2029 and a lone \r end a "line".
# D2  a text held in a file (an existing file, program output, a text cached on disk) is read in text mode with
#     universal newlines: \r\n and \r arrive as \n - but not when the same text is handed over as a file.
# D3  SpooledTextFile._rollover positions the new file with seek(<number of characters written so far>): when the
#     characters written so far take more bytes than that, the following writes overwrite the tail of what was
#     already written (and what is left over of the old tail stays behind the new data).
# D4  a concatenation is written to a file part by part; a part that is the (not yet cached) output of a program is
#     written by that program straight to the file descriptor while the parts written before it still sit in the
#     file object's buffer: the program-made parts come first, the others follow when the file is closed.
D1, D2, D3, D4 = 'D1', 'D2', 'D3', 'D4'
IO_BUFFER = 8192  # D4 holds as long as the buffered parts are smaller than the file object's buffer


def spool_bytes(writes: Sequence[Tuple[str, bool]], buff: int) -> bytes:
    """D3: the bytes in the spooled file after the given sequence of writes (text, direct); direct = the text is
    written by a program through the file descriptor (which turns the spool into a file on disk first)."""
    buf = ''
    for i, (w, direct) in enumerate(writes):
        if not direct:
            buf += w
        if direct or len(buf) > buff:
            pre = buf.encode('utf-8')
            n = len(buf)
            rest_writes = writes[i:] if direct else writes[i + 1:]
            rest = ''.join(t for t, _ in rest_writes).encode('utf-8')
            if rest == b'':
                return pre
            return pre[:n] + rest + pre[n + len(rest):]
    return buf.encode('utf-8')


def concat_lines(parts: Sequence[Sequence[str]]) -> Tuple[str, ...]:
    """How the concatenation walks over the lines of its parts, written out for chunk lists in which a chunk that
    is not the last one of its part may lack the final '\\n' (which the proper division never gives; D1 does):
    such a chunk is taken for "the unterminated last line" - it replaces an earlier one and is glued to the first
    line of the next part."""
    out = []
    pending = None

    def glue(s):
        return s if pending is None else pending + s

    for part in parts[:-1]:
        for i, c in enumerate(part):
            if i == 0:
                if c.endswith('\n'):
                    out.append(glue(c))
                    pending = None
                else:
                    pending = glue(c)
            elif c.endswith('\n'):
                out.append(c)
            else:
                pending = c
    last = parts[-1]
    if last:
        out.append(glue(last[0]))
        out.extend(last[1:])
    elif pending is not None:
        out.append(pending)
    return tuple(out)


def _key(tags):
    return (len(tags), sorted(tags))


class Closure:
    """value (tuple of chunks) -> smallest set of defect tags that predicts it."""

    def __init__(self, limit: int = 3000):
        self.values: Dict[Tuple[str, ...], FrozenSet[str]] = {}
        self.limit = limit

    def add(self, value: Tuple[str, ...], tags: FrozenSet[str]):
        cur = self.values.get(value)
        if cur is None:
            if len(self.values) < self.limit:
                self.values[value] = tags
        elif _key(tags) < _key(cur):
            self.values[value] = tags

    def add_readings(self, chunks: Tuple[str, ...], tags: FrozenSet[str], buff: int, file_backed_possible: bool,
                     writes_list: Sequence[Sequence[Tuple[str, bool]]]):
        """Everything a consumer may see of a text that was produced as ``chunks``."""
        text = ''.join(chunks)
        self.add(chunks, tags)
        self._texts(text, tags, file_backed_possible)
        # D3: the text went through the spooled file (freeze) in several writes
        if not text.isascii():
            for writes in writes_list:
                b = spool_bytes(writes, buff)
                if b != ''.join(t for t, _ in writes).encode('utf-8'):
                    try:
                        t3 = b.decode('utf-8')
                    except UnicodeDecodeError:
                        self.add(UNDECODABLE, tags | {D3})
                        continue
                    self._texts(t3, tags | {D3}, True)

    def _texts(self, text: str, tags: FrozenSet[str], file_backed_possible: bool):
        self.add(nl_split(text), tags)
        sl = sl_split(text)
        if sl != nl_split(text):
            self.add(sl, tags | {D1})
        if file_backed_possible and '\r' in text:
            t2 = universal(text)
            self.add(nl_split(t2), tags | {D2})
            sl2 = sl_split(t2)
            if sl2 != nl_split(t2):
                self.add(sl2, tags | {D1, D2})

    def texts(self) -> Dict[str, FrozenSet[str]]:
        out: Dict[str, FrozenSet[str]] = {}
        for v, tags in self.values.items():
            if v is UNDECODABLE:
                continue
            t = ''.join(v)
            cur = out.get(t)
            if cur is None or _key(tags) < _key(cur):
                out[t] = tags
        return out


_NONE = frozenset()


def normalise(node):
    """The same tree with every sequence of transformers written as nested single transformations."""
    kind = node[0]
    if kind == 'tr':
        inner = normalise(node[2])
        tr = node[1]
        if tr[0] == 'seq':
            for t in tr[1:]:
                inner = normalise(['tr', t, inner])
            return inner
        return ['tr', tr, inner]
    if kind == 'concat':
        return ['concat', [normalise(p) for p in node[1]]]
    return node


def writes_directly(node) -> bool:
    """(normalised node) its text is written to a file by a program through the file descriptor, unless cached."""
    kind = node[0]
    if kind == 'prog':
        return node[2] == 'out' or bool(node[3])
    if kind == 'tr':
        return node[1][0] == 'run'
    if kind == 'concat':
        return any(writes_directly(p) for p in node[1])
    return False


def closure(node, buff: int, limit: int = 3000) -> Closure:
    """All values (chunkings) of the node that the defect models D1-D4 predict some consumer may see, including the
    correct one (with the empty tag set)."""
    return _closure(normalise(node), buff, limit)


def _flat_parts(node) -> List:
    if node[0] == 'concat':
        out = []
        for p in node[1]:
            out += _flat_parts(p)
        return out
    return [node]


def _combos(cl: Closure, part_nodes, buff: int, limit: int, cap: int = 400):
    """Combinations of the values of the parts: list of (tuple of chunk tuples, tags)."""
    combos = [((), _NONE)]
    for p in part_nodes:
        pc = _closure(p, buff, limit)
        nxt = []
        for vs, tags in combos:
            for v, t in pc.values.items():
                if v is UNDECODABLE:
                    cl.add(UNDECODABLE, tags | t)
                    continue
                nxt.append((vs + (v,), tags | t))
                if len(nxt) > cap:
                    break
            if len(nxt) > cap:
                break
        combos = nxt
    return combos


def _d4_texts(cl: Closure, part_nodes, buff: int, limit: int):
    """D4: the text in the file when the parts are written one after the other: [(text, tags)] (only the texts
    that differ from the proper order)."""
    direct = [writes_directly(p) for p in part_nodes]
    if not any(direct) or all(direct):
        return []
    out = []
    for vs, tags in _combos(cl, part_nodes, buff, limit):
        texts = [''.join(v) for v in vs]
        first = ''.join(t for t, d in zip(texts, direct) if d)
        then = ''.join(t for t, d in zip(texts, direct) if not d)
        if len(then.encode('utf-8')) < IO_BUFFER and first + then != ''.join(texts):
            out.append((first + then, tags | {D4}))
    return out


def _closure(node, buff: int, limit: int) -> Closure:
    kind = node[0]
    cl = Closure(limit)
    if kind in ('str', 'lit'):
        cl.add_readings(nl_split(node[1]), _NONE, buff, False, [])
        # the text as a file: written in one piece, read back like any file
        cl._texts(node[1], _NONE, True)
    elif kind in ('file', 'prog'):
        cl.add_readings(nl_split(node[1]), _NONE, buff, True, [])
    elif kind == 'tr':
        tr = node[1]
        inner = _closure(node[2], buff, limit)
        for v, tags in list(inner.values.items()):
            if v is UNDECODABLE:
                cl.add(UNDECODABLE, tags)
                continue
            w = apply(tr, v)
            cl.add_readings(w, tags, buff, True, [[(c, False) for c in w]])
        if tr[0] == 'run' and tr[2]:
            # the program reads the file made of its own stdin followed by the model
            for text, tags in _d4_texts(cl, [['str', tr[2]]] + _flat_parts(node[2]), buff, limit):
                cl.add_readings(apply(['run', tr[1], None], nl_split(text)), tags, buff, True, [])
    elif kind == 'concat':
        part_nodes = node[1]
        direct = [writes_directly(p) for p in part_nodes]
        const = [p[0] in ('str', 'lit') for p in part_nodes]
        for vs, tags in _combos(cl, part_nodes, buff, limit):
            walked = concat_lines(vs)
            flat = tuple(c for v in vs for c in v)
            # the writes that make up the text when it is spooled: a constant string is one write, a program writes
            # its part itself, everything else is written line by line
            writes = []
            for v, d, c in zip(vs, direct, const):
                if d or c:
                    if v:
                        writes.append((''.join(v), d))
                else:
                    writes.extend((x, False) for x in v)
            writes_nodirect = [(t, False) for t, _ in writes]
            if ''.join(walked) != ''.join(flat):
                tags_w = tags | {D1}  # only chunkings that D1 produces make the walk lose or reorder text
            else:
                tags_w = tags
            cl.add_readings(walked, tags_w, buff, True, [writes, writes_nodirect])
            cl.add_readings(nl_split(''.join(flat)), tags, buff, True, [writes, writes_nodirect])
        for text, tags in _d4_texts(cl, _flat_parts(node), buff, limit):
            cl.add_readings(nl_split(text), tags, buff, True, [])
    else:
        raise ValueError('source %r' % (node,))
    return cl


def head_of(chunks: Sequence[str], min_chars: int) -> str:
    """Whole chunks from the start until at least ``min_chars`` characters (min_chars >= 1) or the end."""
    acc = ''
    for c in chunks:
        acc += c
        if len(acc) >= min_chars:
            break
    return acc


def classify_text(node, buff: int, observed: Optional[str]) -> Optional[FrozenSet[str]]:
    """Tags of the defect models that predict the observed text (None: not predicted; observed None = the access
    raised UnicodeDecodeError)."""
    cl = closure(node, buff)
    if observed is None:
        return cl.values.get(UNDECODABLE)
    tags = cl.texts().get(observed)
    return tags if tags else None


def classify_lines(node, buff: int, observed: Sequence[str]) -> Optional[FrozenSet[str]]:
    cl = closure(node, buff)
    tags = cl.values.get(tuple(observed))
    return tags if tags else None


def known_id(tags: FrozenSet[str]) -> str:
    """One known-finding id per mismatch: the defect highest in D4 > D3 > D2 > D1 that takes part in the prediction."""
    if D4 in tags:
        return 'KF-C14-4'
    if D3 in tags:
        return 'KF-C14-3'
    if D2 in tags:
        return 'KF-C14-2'
    return 'KF-C14-1'
