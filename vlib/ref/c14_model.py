"""C14 - reference value of a *source tree* (a text built from a literal / file / program output, transformed and
concatenated) and the *defect models* used to classify deviations.  Never imports exactly_lib.

A text is a string; its division into lines is "split after every '\\n'" (manual: "Every line ends with "\\n", except
the last line, which may or may not end with "\\n"", "Lines are separated by "\\n", regardless of the current OS").

Source tree (JSON lists)
    ['str', TEXT]                       constant string made by the public factory
    ['lit', TEXT, 'q' | 'here']         literal parsed from TEXT-SOURCE syntax (quoted string / here-document)
    ['file', TEXT]                      -contents-of FILE
    ['prog', TEXT, 'out'|'err', ignore_exit_code: bool]      -stdout-from / -stderr-from a program printing TEXT
    ['tr', TR, SRC]                     SRC -transformed-by TR
    ['concat', [SRC, SRC, ...]]         concatenation (stdin parts of a program; concat.string_source)
Transformers TR (a deliberately small set with unambiguous semantics; C05 owns the transformer semantics)
    ['identity'] ['tcds'] ['upper'] ['lower'] ['strip', None|'space'|'nl']
    ['filter', LM]        LM = ['true'] | ['ln', OP, N] | ['has', CH]        (constant true / line-num OP N / contents matches CH)
    ['nums', [RANGE...]]  RANGE = [n] | [lo|None, hi|None]                   filter -line-nums
    ['grep', CH]
    ['replace', ID, pnl]  ID in REPLACEMENTS
    ['run', PROG, STDIN_TEXT | None]   PROG in PROGRAMS ('cat' = identity, 'tr' = a->X); stdin text is put before the model
    ['seq', TR, TR, ...]

Everything is evaluated on *chunk lists* (a chunking of the text): with the proper chunking (``nl_split``) the result
is the reference value; with the chunkings that the modelled defects produce it is the prediction of the defect.
"""
from typing import Dict, FrozenSet, List, Optional, Sequence, Tuple

BREAKS = '\x0b\x0c\x1c\x1d\x1e\x85\u2028\u2029'  # what str.splitlines treats as a line break besides \n, \r, \r\n

# id -> (regex as written, template as written, character replaced, replacement text)
REPLACEMENTS = {
    'aX': ('a', 'X', 'a', 'X'),
    'bCR': ('b', '\\r', 'b', '\r'),
    'bFF': ('b', '\\f', 'b', '\x0c'),
    'bNL': ('b', '\\n', 'b', '\n'),
    'NLdel': ('\\n', '', '\n', ''),
    'SPdel': (' ', '', ' ', ''),
    'eE': ('é', 'E', 'é', 'E'),
}
PROGRAMS = {'cat': None, 'tr': ('a', 'X')}

UNDECODABLE = ('\x00<undecodable>',)  # marker value in a closure: reading the text raises UnicodeDecodeError

_OPS = {'==': lambda a, b: a == b, '!=': lambda a, b: a != b, '<': lambda a, b: a < b, '<=': lambda a, b: a <= b,
        '>': lambda a, b: a > b, '>=': lambda a, b: a >= b}


# ---- chunkings -------------------------------------------------------------------------------------------------
def nl_split(text: str) -> Tuple[str, ...]:
    """The division into lines: split after each '\\n' and nowhere else."""
    if text == '':
        return ()
    parts = text.split('\n')
    out = [p + '\n' for p in parts[:-1]]
    if parts[-1] != '':
        out.append(parts[-1])
    return tuple(out)


def sl_split(text: str) -> Tuple[str, ...]:
    """DEFECT MODEL D1 only: the chunks str.splitlines(keepends=True) gives."""
    return tuple(text.splitlines(True))


def universal(text: str) -> str:
    """DEFECT MODEL D2 only: universal-newlines translation of a text read from a file in text mode."""
    return text.replace('\r\n', '\n').replace('\r', '\n')


def has_break_chars(text: str) -> bool:
    return any(c in text for c in BREAKS)


# ---- transformers on chunk lists --------------------------------------------------------------------------------
def _content(chunk: str) -> str:
    return chunk[:-1] if chunk.endswith('\n') else chunk


def _abs(n: int, total: int) -> int:
    return total + 1 + n if n < 0 else n


def range_selects(rng, num: int, total: int) -> bool:
    if len(rng) == 1:
        return num == _abs(rng[0], total)
    lo, hi = rng
    if lo is not None and num < _abs(lo, total):
        return False
    if hi is not None and num > _abs(hi, total):
        return False
    return True


def _lm(lm, num: int, chunk: str) -> bool:
    if lm[0] == 'true':
        return True
    if lm[0] == 'ln':
        return _OPS[lm[1]](num, lm[2])
    if lm[0] == 'has':
        return lm[1] in _content(chunk)
    raise ValueError('line matcher %r' % (lm,))


def apply(tr, chunks: Sequence[str]) -> Tuple[str, ...]:
    """Output chunks of the transformer for the given input chunks (all chunks are non-empty strings)."""
    tag = tr[0]
    chunks = tuple(chunks)
    if tag in ('identity', 'tcds'):
        return chunks
    if tag == 'upper':
        return tuple(c.upper() for c in chunks)
    if tag == 'lower':
        return tuple(c.lower() for c in chunks)
    if tag == 'strip':
        return _strip(tr[1], list(chunks))
    if tag == 'filter':
        return tuple(c for i, c in enumerate(chunks) if _lm(tr[1], i + 1, c))
    if tag == 'grep':
        return tuple(c for c in chunks if tr[1] in _content(c))
    if tag == 'nums':
        total = len(chunks)
        return tuple(c for i, c in enumerate(chunks) if any(range_selects(r, i + 1, total) for r in tr[1]))
    if tag == 'replace':
        _, _, old, new = REPLACEMENTS[tr[1]]
        out = []
        for c in chunks:
            if tr[2] and c.endswith('\n'):
                out.append(c[:-1].replace(old, new) + '\n')
            else:
                out.append(c.replace(old, new))
        return nl_split(''.join(out))  # the output is a text; its lines are its own
    if tag == 'run':
        text = (tr[2] or '') + ''.join(chunks)  # the program reads the text as a file
        sub = PROGRAMS[tr[1]]
        if sub is not None:
            text = text.replace(sub[0], sub[1])
        return nl_split(text)
    if tag == 'seq':
        for t in tr[1:]:
            chunks = apply(t, chunks)
        return chunks
    raise ValueError('transformer %r' % (tr,))


def _strip(variant, chunks: List[str]) -> Tuple[str, ...]:
    if variant == 'nl':
        while chunks and chunks[-1] == '\n':
            chunks.pop()
        if chunks:
            chunks[-1] = chunks[-1].rstrip('\n')
            if chunks[-1] == '':
                chunks.pop()
        return tuple(chunks)
    if variant is None:
        while chunks and chunks[0].isspace():
            chunks.pop(0)
        if chunks:
            chunks[0] = chunks[0].lstrip()
    while chunks and chunks[-1].isspace():
        chunks.pop()
    if chunks:
        chunks[-1] = chunks[-1].rstrip()
    return tuple(c for c in chunks if c != '')


# ---- reference value ----------------------------------------------------------------------------------------------
def ref_text(node) -> str:
    kind = node[0]
    if kind in ('str', 'lit', 'file', 'prog'):
        return node[1]
    if kind == 'tr':
        return ''.join(apply(node[1], nl_split(ref_text(node[2]))))
    if kind == 'concat':
        return ''.join(ref_text(p) for p in node[1])
    raise ValueError('source %r' % (node,))


def nodes_preorder(node) -> List:
    """All nodes of a source tree, the root first."""
    out = [node]
    if node[0] == 'tr':
        out += nodes_preorder(node[2])
    elif node[0] == 'concat':
        for p in node[1]:
            out += nodes_preorder(p)
    return out


def leaf_texts(node) -> List[str]:
    return [n[1] for n in nodes_preorder(node) if n[0] in ('str', 'lit', 'file', 'prog')]


def tr_tags(tr) -> List[str]:
    if tr[0] == 'seq':
        out = []
        for t in tr[1:]:
            out += tr_tags(t)
        return out
    if tr[0] == 'filter':
        return ['filter-' + tr[1][0]]
    if tr[0] == 'nums':
        neg = any(x is not None and x < 0 for r in tr[1] for x in r)
        return ['nums-%s%s' % ('multi' if len(tr[1]) > 1 else 'single', '-neg' if neg else '')]
    if tr[0] == 'run':
        return ['run-' + tr[1] + ('-stdin' if tr[2] is not None else '')]
    if tr[0] == 'replace':
        return ['replace-' + tr[1]]
    return [tr[0]]


# ---- DEFECT MODELS ------------------------------------------------------------------------------------------------
# D1  a text held in memory (a constant string, or a text cached in memory after freezing) divides into lines with
#     str.splitlines: \x0b \x0c \x1c \x1d \x1e \x85 \u2028 \u2029 and a lone \r end a "line".
# D2  a text held in a file (an existing file, program output, a text cached on disk) is read in text mode with
#     universal newlines: \r\n and \r arrive as \n - but not when the same text is handed over as a file.
# D3  SpooledTextFile._rollover positions the new file with seek(<number of characters written so far>): when the
#     characters written so far take more bytes than that, the following writes overwrite the tail of what was
#     already written (and what is left over of the old tail stays behind the new data).
# D4  a concatenation is written to a file part by part; a part that is the (not yet cached) output of a program is
#     written by that program straight to the file descriptor while the parts written before it still sit in the
#     file object's buffer: the program-made parts come first, the others follow when the file is closed.
D1, D2, D3, D4 = 'D1', 'D2', 'D3', 'D4'
IO_BUFFER = 8192  # D4 holds as long as the buffered parts are smaller than the file object's buffer

Write = Tuple[str, bool]  # (text, direct): direct = written by a program through the file descriptor


def _d4_order(writes: Sequence[Write]) -> Optional[str]:
    """D4: what ends up in a file when the direct writes overtake the buffered ones (None: same as proper order,
    or the buffered text does not fit the file object's buffer)."""
    directs = ''.join(t for t, d in writes if d)
    others = ''.join(t for t, d in writes if not d)
    if directs == '' or others == '' or len(others.encode('utf-8')) > IO_BUFFER:
        return None
    text = directs + others
    return None if text == ''.join(t for t, _ in writes) else text


def file_results(writes: Sequence[Write]) -> List[Tuple[bytes, FrozenSet[str]]]:
    """The bytes of a plain file that the parts are written to one after the other, per defect assumption."""
    out = [(''.join(t for t, _ in writes).encode('utf-8'), _NONE)]
    t4 = _d4_order(writes)
    if t4 is not None:
        out.append((t4.encode('utf-8'), frozenset([D4])))
    return out


def spool_results(writes: Sequence[Write], buff: int) -> List[Tuple[bytes, FrozenSet[str]]]:
    """The bytes of the spooled file (freeze) after the writes, per defect assumption (D3: position after the
    roll-over = number of characters; D4: direct writes after the roll-over overtake buffered ones)."""
    proper = ''.join(t for t, _ in writes).encode('utf-8')
    buf = ''
    for i, (w, direct) in enumerate(writes):
        if not direct:
            buf += w
        if direct or len(buf) > buff:
            rest_writes = list(writes[i:] if direct else writes[i + 1:])
            pre = buf.encode('utf-8')
            n = len(buf)
            out = [(proper, _NONE)]
            rest_variants = [(''.join(t for t, _ in rest_writes), _NONE)]
            t4 = _d4_order(rest_writes)
            if t4 is not None:
                rest_variants.append((t4, frozenset([D4])))
            for rest_text, tags in rest_variants:
                rest = rest_text.encode('utf-8')
                if tags:
                    out.append((pre + rest, tags))
                if rest and n != len(pre):
                    out.append((pre[:n] + rest + pre[n + len(rest):], tags | {D3}))
            return out
    return [(proper, _NONE)]


def concat_lines(parts: Sequence[Sequence[str]]) -> Tuple[str, ...]:
    """How the concatenation walks over the lines of its parts, written out for chunk lists in which a chunk that
    is not the last one of its part may lack the final '\\n' (which the proper division never gives; D1 does):
    such a chunk is taken for "the unterminated last line" - it replaces an earlier one and is glued to the first
    line of the next part."""
    out = []
    pending = None

    def glue(s):
        return s if pending is None else pending + s

    for part in parts[:-1]:
        for i, c in enumerate(part):
            if i == 0:
                if c.endswith('\n'):
                    out.append(glue(c))
                    pending = None
                else:
                    pending = glue(c)
            elif c.endswith('\n'):
                out.append(c)
            else:
                pending = c
    last = parts[-1]
    if last:
        out.append(glue(last[0]))
        out.extend(last[1:])
    elif pending is not None:
        out.append(pending)
    return tuple(out)


def _key(tags):
    return (len(tags), sorted(tags))


_NONE = frozenset()


class Closure:
    """value (tuple of chunks) -> smallest set of defect tags that predicts it."""

    def __init__(self, limit: int = 3000):
        self.values: Dict[Tuple[str, ...], FrozenSet[str]] = {}
        self.limit = limit

    def add(self, value: Tuple[str, ...], tags: FrozenSet[str]):
        cur = self.values.get(value)
        if cur is None:
            if len(self.values) < self.limit:
                self.values[value] = tags
        elif _key(tags) < _key(cur):
            self.values[value] = tags

    def add_chunks(self, chunks: Tuple[str, ...], tags: FrozenSet[str], file_backed_possible: bool = True):
        """A text produced as ``chunks`` and everything a later reader may make of it."""
        self.add(chunks, tags)
        self.add_text(''.join(chunks), tags, file_backed_possible)

    def add_text(self, text: str, tags: FrozenSet[str], file_backed_possible: bool = True):
        self.add(nl_split(text), tags)
        sl = sl_split(text)
        if sl != nl_split(text):
            self.add(sl, tags | {D1})
        if file_backed_possible and '\r' in text:
            t2 = universal(text)
            self.add(nl_split(t2), tags | {D2})
            sl2 = sl_split(t2)
            if sl2 != nl_split(t2):
                self.add(sl2, tags | {D1, D2})

    def add_bytes(self, results: Sequence[Tuple[bytes, FrozenSet[str]]], tags: FrozenSet[str], through=None):
        """File contents (per defect assumption) that are read back as a text; ``through`` = a function from the
        text to the chunks that are the value (a program that reads the file)."""
        for b, t in results:
            try:
                text = b.decode('utf-8')
            except UnicodeDecodeError:
                self.add(UNDECODABLE, tags | t)
                continue
            if through is None:
                self.add_text(text, tags | t)
            else:
                self.add_chunks(through(text), tags | t)

    def texts(self) -> Dict[str, FrozenSet[str]]:
        out: Dict[str, FrozenSet[str]] = {}
        for v, tags in self.values.items():
            if v is UNDECODABLE:
                continue
            t = ''.join(v)
            cur = out.get(t)
            if cur is None or _key(tags) < _key(cur):
                out[t] = tags
        return out


FROM_LINES = ('identity', 'tcds', 'upper', 'lower', 'strip', 'replace')  # never cached by themselves: never spooled


def normalise(node):
    """The same tree with every sequence of transformers written as nested single transformations (`identity`
    inside a sequence contributes nothing)."""
    kind = node[0]
    if kind == 'tr':
        inner = normalise(node[2])
        tr = node[1]
        if tr[0] == 'seq':
            flat = _flat_seq(tr)
            for t in flat:
                if t[0] == 'identity':
                    continue
                inner = ['tr', t, inner]
            return inner
        return ['tr', tr, inner]
    if kind == 'concat':
        return ['concat', [normalise(p) for p in node[1]]]
    return node


def _flat_seq(tr) -> List:
    if tr[0] != 'seq':
        return [tr]
    out = []
    for t in tr[1:]:
        out += _flat_seq(t)
    return out


def writes_directly(node) -> bool:
    """(normalised node) its text is written to a file by a program through the file descriptor, unless cached."""
    kind = node[0]
    if kind == 'prog':
        return node[2] == 'out' or bool(node[3])
    if kind == 'tr':
        if node[1][0] == 'run':
            return True
        if node[1][0] == 'nums' and not any(x is not None and x < 0 for r in node[1][1] for x in r):
            # ranges that together select every line give the source itself
            return writes_directly(node[2])
    return False


def closure(node, buff: int, limit: int = 3000) -> Closure:
    """All values (chunkings) of the node that the defect models D1-D4 predict some consumer may see, including the
    correct one (with the empty tag set)."""
    return _closure(normalise(node), buff, limit)


def _flat_parts(node) -> List:
    if node[0] == 'concat':
        out = []
        for p in node[1]:
            out += _flat_parts(p)
        return out
    return [node]


def _write_combos(cl: Closure, part_nodes, buff: int, limit: int, cap: int = 300):
    """Combinations of the values of the parts and of the ways they are written to a file:
    list of (tuple of chunk tuples, tuple of writes, tags)."""
    combos = [((), (), _NONE)]
    for p in part_nodes:
        pc = _closure(p, buff, limit)
        const = p[0] in ('str', 'lit')
        direct = writes_directly(p)
        nxt = []
        for vs, ws, tags in combos:
            for v, t in pc.values.items():
                if v is UNDECODABLE:
                    cl.add(UNDECODABLE, tags | t)
                    continue
                text = ''.join(v)
                alts = []
                if const:
                    alts.append(((text, False),) if text else ())
                else:
                    alts.append(tuple((c, False) for c in v))  # line by line
                    if text and len(v) > 1:
                        alts.append(((text, False),))  # in one piece (a part that is cached in memory)
                    if direct and text:
                        alts.append(((text, True),))
                for a in alts:
                    nxt.append((vs + (v,), ws + a, tags | t))
                if len(nxt) > cap:
                    break
            if len(nxt) > cap:
                break
        combos = nxt
    return combos


def _closure(node, buff: int, limit: int) -> Closure:
    kind = node[0]
    cl = Closure(limit)
    if kind in ('str', 'lit'):
        cl.add_chunks(nl_split(node[1]), _NONE, False)
        cl.add_text(node[1], _NONE, True)  # the text as a file: written in one piece, read back like any file
    elif kind == 'file':
        cl.add_text(node[1], _NONE)
    elif kind == 'prog':
        cl.add_text(node[1], _NONE)
        # frozen after the output was cached in a file: the cached file is copied line by line to the spool
        for t, tags in ((node[1], _NONE), (universal(node[1]), frozenset([D2]))):
            cl.add_bytes(spool_results([(c, False) for c in nl_split(t)], buff), tags)
    elif kind == 'tr':
        tr = node[1]
        inner = _closure(node[2], buff, limit)
        for v, tags in list(inner.values.items()):
            if v is UNDECODABLE:
                cl.add(UNDECODABLE, tags)
                continue
            w = apply(tr, v)
            cl.add_chunks(w, tags)
            if tr[0] not in FROM_LINES:
                for t, tg in ((''.join(w), tags), (universal(''.join(w)), tags | {D2})):
                    for chunks in (w,) if tg is tags else (nl_split(t),):
                        cl.add_bytes(spool_results([(c, False) for c in chunks], buff), tg)
        if tr[0] == 'run' and tr[2]:
            # the program reads the file made of its own stdin followed by the model
            def through(text):
                return apply(['run', tr[1], None], nl_split(text))

            for vs, ws, tags in _write_combos(cl, [['str', tr[2]]] + _flat_parts(node[2]), buff, limit):
                cl.add_bytes([r for r in file_results(ws) if r[1]], tags, through)
    elif kind == 'concat':
        for vs, ws, tags in _write_combos(cl, _flat_parts(node), buff, limit):
            walked = concat_lines(vs)
            flat = ''.join(c for v in vs for c in v)
            # only chunkings that D1 produces make the walk over the lines lose or reorder text
            cl.add_chunks(walked, tags | {D1} if ''.join(walked) != flat else tags)
            cl.add_text(flat, tags)
            cl.add_bytes(file_results(ws), tags)
            cl.add_bytes(spool_results(ws, buff), tags)
    else:
        raise ValueError('source %r' % (node,))
    return cl


def head_of(chunks: Sequence[str], min_chars: int) -> str:
    """Whole chunks from the start until at least ``min_chars`` characters (min_chars >= 1) or the end."""
    acc = ''
    for c in chunks:
        acc += c
        if len(acc) >= min_chars:
            break
    return acc


def classify_text(node, buff: int, observed: Optional[str]) -> Optional[FrozenSet[str]]:
    """Tags of the defect models that predict the observed text (None: not predicted; observed None = the access
    raised UnicodeDecodeError)."""
    cl = closure(node, buff)
    if observed is None:
        return cl.values.get(UNDECODABLE)
    tags = cl.texts().get(observed)
    return tags if tags else None


def classify_lines(node, buff: int, observed: Sequence[str]) -> Optional[FrozenSet[str]]:
    cl = closure(node, buff)
    tags = cl.values.get(tuple(observed))
    return tags if tags else None


def known_id(tags: FrozenSet[str]) -> str:
    """One known-finding id per mismatch: the defect highest in D4 > D3 > D2 > D1 that takes part in the prediction."""
    if D4 in tags:
        return 'KF-C14-4'
    if D3 in tags:
        return 'KF-C14-3'
    if D2 in tags:
        return 'KF-C14-2'
    return 'KF-C14-1'


# ---- matchers of the CLI layer -------------------------------------------------------------------------------------
#   ['eq', SRC] equals SRC | ['cmp', TEXT] a program that compares its stdin with TEXT byte by byte | ['nl', N]
#   num-lines == N | ['every-le', N] every line : line-num <= N | ['any', S] any line : contents equals S | ['empty']
def matcher_value(m, chunks: Sequence[str], expected_text: Optional[str] = None) -> bool:
    kind = m[0]
    if kind == 'eq':
        return ''.join(chunks) == expected_text
    if kind == 'cmp':
        return ''.join(chunks) == m[1]
    if kind == 'nl':
        return len(chunks) == m[1]
    if kind == 'every-le':
        return len(chunks) <= m[1]
    if kind == 'any':
        return any(_content(c) == m[1] for c in chunks)
    if kind == 'empty':
        return ''.join(chunks) == ''
    raise ValueError('matcher %r' % (m,))


def ref_verdict(actual_node, m) -> bool:
    chunks = nl_split(ref_text(actual_node))
    return matcher_value(m, chunks, ref_text(m[1]) if m[0] == 'eq' else None)


def defect_flips_verdict(actual_node, m, buff: int) -> Optional[FrozenSet[str]]:
    """The smallest set of modelled defects under which the matcher's verdict differs from the reference verdict
    (None: no modelled defect changes it).  'undecodable' in the result = reading a text raises."""
    ref = ref_verdict(actual_node, m)
    acl = closure(actual_node, buff)
    best = None

    def consider(tags):
        nonlocal best
        if tags and (best is None or _key(tags) < _key(best)):
            best = tags

    exp = {None: _NONE}
    if m[0] == 'eq':
        ecl = closure(m[1], buff)
        exp = ecl.texts()
        if UNDECODABLE in ecl.values:
            consider(ecl.values[UNDECODABLE])
    if UNDECODABLE in acl.values:
        consider(acl.values[UNDECODABLE])
    for v, tags in acl.values.items():
        if v is UNDECODABLE:
            continue
        for et, etags in exp.items():
            if matcher_value(m, v, et) != ref:
                consider(tags | etags)
    return best
