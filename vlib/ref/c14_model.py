"""C14 - reference value of a *source tree* (a text built from a literal / file / program output, transformed and
concatenated) and the *defect model* of the one known finding (universal newlines) used to classify deviations.
Never imports exactly_lib.

A text is a string; its division into lines is "split after every '\\n'" (manual: "Every line ends with "\\n", except
the last line, which may or may not end with "\\n"", "Lines are separated by "\\n", regardless of the current OS").

Source tree (JSON lists)
    ['str', TEXT]                       constant string made by the public factory
    ['lit', TEXT, 'q' | 'here']         literal parsed from TEXT-SOURCE syntax (quoted string / here-document)
    ['file', TEXT]                      -contents-of FILE
    ['prog', TEXT, 'out'|'err', ignore_exit_code: bool]      -stdout-from / -stderr-from a program printing TEXT
    ['tr', TR, SRC]                     SRC -transformed-by TR
    ['concat', [SRC, SRC, ...]]         concatenation (stdin parts of a program; concat.string_source)
Transformers TR (a deliberately small set with unambiguous semantics; C05 owns the transformer semantics)
    ['identity'] ['tcds'] ['upper'] ['lower'] ['strip', None|'space'|'nl']
    ['filter', LM]        LM = ['true'] | ['ln', OP, N] | ['has', CH]        (constant true / line-num OP N / contents matches CH)
    ['nums', [RANGE...]]  RANGE = [n] | [lo|None, hi|None]                   filter -line-nums
    ['grep', CH]
    ['replace', ID, pnl] | ['replace', ID, pnl, LM]   ID in REPLACEMENTS; pnl = -preserve-new-lines; LM = -at LINE-MATCHER
    ['run', PROG, STDIN_TEXT | None]   PROG in PROGRAMS ('cat' = identity, 'tr' = a->X, 'count' = the number of times
                          the program has been run so far, on a line of its own, then the input; the reference value
                          is the one of the FIRST run - only used where exactly one run is demanded); stdin text is
                          put before the model
    ['seq', TR, TR, ...]

    ['stored', SRC]                     (CLI layer only) SRC written to a file that is then read as a text source
    ['appended', [SRC, SRC, ...]]       (CLI layer only) a file that the texts are written to one after the other

Transformers are evaluated on *chunk lists*; the chunks of a text are always its lines (``nl_split``).
"""
from typing import Dict, List, Optional, Sequence, Tuple

BREAKS = '\x0b\x0c\x1c\x1d\x1e\x85\u2028\u2029'  # what str.splitlines treats as a line break besides \n, \r, \r\n

# id -> (regex as written, template as written, character replaced, replacement text)
REPLACEMENTS = {
    'aX': ('a', 'X', 'a', 'X'),
    'bCR': ('b', '\\r', 'b', '\r'),
    'bFF': ('b', '\\f', 'b', '\x0c'),
    'bNL': ('b', '\\n', 'b', '\n'),
    'NLdel': ('\\n', '', '\n', ''),
    'SPdel': (' ', '', ' ', ''),
    'eE': ('é', 'E', 'é', 'E'),
}
PROGRAMS = {'cat': None, 'tr': ('a', 'X'), 'count': None}

_OPS = {'==': lambda a, b: a == b, '!=': lambda a, b: a != b, '<': lambda a, b: a < b, '<=': lambda a, b: a <= b,
        '>': lambda a, b: a > b, '>=': lambda a, b: a >= b}


# ---- chunkings -------------------------------------------------------------------------------------------------
def nl_split(text: str) -> Tuple[str, ...]:
    """The division into lines: split after each '\\n' and nowhere else."""
    if text == '':
        return ()
    parts = text.split('\n')
    out = [p + '\n' for p in parts[:-1]]
    if parts[-1] != '':
        out.append(parts[-1])
    return tuple(out)


def universal(text: str) -> str:
    """DEFECT MODEL D2 only: universal-newlines translation of a text read from a file in text mode."""
    return text.replace('\r\n', '\n').replace('\r', '\n')


def has_break_chars(text: str) -> bool:
    return any(c in text for c in BREAKS)


# ---- transformers on chunk lists --------------------------------------------------------------------------------
def _content(chunk: str) -> str:
    return chunk[:-1] if chunk.endswith('\n') else chunk


def _abs(n: int, total: int) -> int:
    return total + 1 + n if n < 0 else n


def range_selects(rng, num: int, total: int) -> bool:
    if len(rng) == 1:
        return num == _abs(rng[0], total)
    lo, hi = rng
    if lo is not None and num < _abs(lo, total):
        return False
    if hi is not None and num > _abs(hi, total):
        return False
    return True


def _lm(lm, num: int, chunk: str) -> bool:
    if lm[0] == 'true':
        return True
    if lm[0] == 'ln':
        return _OPS[lm[1]](num, lm[2])
    if lm[0] == 'has':
        return lm[1] in _content(chunk)
    raise ValueError('line matcher %r' % (lm,))


def apply(tr, chunks: Sequence[str]) -> Tuple[str, ...]:
    """Output chunks of the transformer for the given input chunks (all chunks are non-empty strings)."""
    tag = tr[0]
    chunks = tuple(chunks)
    if tag in ('identity', 'tcds'):
        return chunks
    if tag == 'upper':
        return tuple(c.upper() for c in chunks)
    if tag == 'lower':
        return tuple(c.lower() for c in chunks)
    if tag == 'strip':
        return _strip(tr[1], list(chunks))
    if tag == 'filter':
        return tuple(c for i, c in enumerate(chunks) if _lm(tr[1], i + 1, c))
    if tag == 'grep':
        return tuple(c for c in chunks if tr[1] in _content(c))
    if tag == 'nums':
        total = len(chunks)
        return tuple(c for i, c in enumerate(chunks) if any(range_selects(r, i + 1, total) for r in tr[1]))
    if tag == 'replace':
        _, _, old, new = REPLACEMENTS[tr[1]]
        at = tr[3] if len(tr) > 3 else None
        out = []
        for i, c in enumerate(chunks):
            if at is not None and not _lm(at, i + 1, c):
                out.append(c)
            elif tr[2] and c.endswith('\n'):
                out.append(c[:-1].replace(old, new) + '\n')
            else:
                out.append(c.replace(old, new))
        return nl_split(''.join(out))  # the output is a text; its lines are its own
    if tag == 'run':
        text = (tr[2] or '') + ''.join(chunks)  # the program reads the text as a file
        sub = PROGRAMS[tr[1]]
        if sub is not None:
            text = text.replace(sub[0], sub[1])
        if tr[1] == 'count':
            text = '1\n' + text
        return nl_split(text)
    if tag == 'seq':
        for t in tr[1:]:
            chunks = apply(t, chunks)
        return chunks
    raise ValueError('transformer %r' % (tr,))


def _strip(variant, chunks: List[str]) -> Tuple[str, ...]:
    if variant == 'nl':
        while chunks and chunks[-1] == '\n':
            chunks.pop()
        if chunks:
            chunks[-1] = chunks[-1].rstrip('\n')
            if chunks[-1] == '':
                chunks.pop()
        return tuple(chunks)
    if variant is None:
        while chunks and chunks[0].isspace():
            chunks.pop(0)
        if chunks:
            chunks[0] = chunks[0].lstrip()
    while chunks and chunks[-1].isspace():
        chunks.pop()
    if chunks:
        chunks[-1] = chunks[-1].rstrip()
    return tuple(c for c in chunks if c != '')


# ---- reference value ----------------------------------------------------------------------------------------------
def ref_text(node) -> str:
    kind = node[0]
    if kind in ('str', 'lit', 'file', 'prog'):
        return node[1]
    if kind == 'stored':
        return ref_text(node[1])
    if kind == 'tr':
        return ''.join(apply(node[1], nl_split(ref_text(node[2]))))
    if kind in ('concat', 'appended'):
        return ''.join(ref_text(p) for p in node[1])
    raise ValueError('source %r' % (node,))


def nodes_preorder(node) -> List:
    """All nodes of a source tree, the root first."""
    out = [node]
    if node[0] == 'tr':
        out += nodes_preorder(node[2])
    elif node[0] == 'stored':
        out += nodes_preorder(node[1])
    elif node[0] in ('concat', 'appended'):
        for p in node[1]:
            out += nodes_preorder(p)
    return out


def leaf_texts(node) -> List[str]:
    return [n[1] for n in nodes_preorder(node) if n[0] in ('str', 'lit', 'file', 'prog')]


def tr_tags(tr) -> List[str]:
    if tr[0] == 'seq':
        out = []
        for t in tr[1:]:
            out += tr_tags(t)
        return out
    if tr[0] == 'filter':
        return ['filter-' + tr[1][0]]
    if tr[0] == 'nums':
        neg = any(x is not None and x < 0 for r in tr[1] for x in r)
        return ['nums-%s%s' % ('multi' if len(tr[1]) > 1 else 'single', '-neg' if neg else '')]
    if tr[0] == 'run':
        return ['run-' + tr[1] + ('-stdin' if tr[2] is not None else '')]
    if tr[0] == 'replace':
        return ['replace-' + tr[1]] + (['replace-at'] if len(tr) > 3 and tr[3] is not None else [])
    return [tr[0]]


# ---- DEFECT MODEL (the one known finding of this property) ---------------------------------------------------------
# D2 (KF-C14-2)  a text held in a file (an existing file, the output of a program, a text cached on disk) is read in
#     text mode with universal newlines: "\r\n" and a lone "\r" arrive as "\n" when the text is consumed as a string,
#     line by line or written on - but not when the same text is handed over as a file (stdin of a program, `run`,
#     byte comparison of two files).  A text held in memory (a literal, a text cached in memory) keeps its CR.
#
# A deviation is attributed to D2 when BOTH hold (see props/c14_onevalue.py):
#   (a) the observed value is in the D2-closure of the reference value: the value obtained from the leaf texts by
#       the reference semantics of every transformer / concatenation, with the translation ``universal`` applied at
#       any subset of the places where a text can be read back from a file (file and program-output leaves, the
#       output of a caching transformer - filter, grep, -line-nums, run -, a concatenation, the file a program reads);
#   (b) the very same case shows no deviation at all when it is run again with text files opened without newline
#       translation (the counterfactual "D2 repaired": open(..., newline='\n') for every text-mode open).
# Anything else - in particular every deviation on a text without CR - is a violation.
D2 = 'D2'
KNOWN_ID = 'KF-C14-2'

FROM_LINES = ('identity', 'tcds', 'upper', 'lower', 'strip', 'replace')  # never cached by themselves


def normalise(node):
    """The same tree with every sequence of transformers written as nested single transformations (`identity`
    inside a sequence contributes nothing)."""
    kind = node[0]
    if kind == 'tr':
        inner = normalise(node[2])
        tr = node[1]
        if tr[0] == 'seq':
            flat = _flat_seq(tr)
            for t in flat:
                if t[0] == 'identity':
                    continue
                inner = ['tr', t, inner]
            return inner
        return ['tr', tr, inner]
    if kind in ('concat', 'appended'):
        return [kind, [normalise(p) for p in node[1]]]
    if kind == 'stored':
        return ['stored', normalise(node[1])]
    return node


def _flat_seq(tr) -> List:
    if tr[0] != 'seq':
        return [tr]
    out = []
    for t in tr[1:]:
        out += _flat_seq(t)
    return out


class Closure:
    """text -> True when it is the reference value, False when only D2 gives it."""

    def __init__(self, limit: int = 20000):
        self.values: Dict[str, bool] = {}
        self.limit = limit
        self.truncated = False  # not every value could be kept: membership cannot be denied

    def add(self, text: str, proper: bool):
        cur = self.values.get(text)
        if cur is None:
            if len(self.values) < self.limit:
                self.values[text] = proper
            else:
                self.truncated = True
        elif proper and not cur:
            self.values[text] = True

    def add_file_held(self, text: str, proper: bool):
        """A text that may be read back from a file."""
        self.add(text, proper)
        if '\r' in text:
            self.add(universal(text), False)


def closure(node, limit: int = 20000) -> Closure:
    """Every value of the node that D2 predicts some consumer may see, including the reference value."""
    return _closure(normalise(node), limit)


def _closure(node, limit: int) -> Closure:
    kind = node[0]
    cl = Closure(limit)
    if kind in ('str', 'lit'):
        cl.add(node[1], True)  # held in memory; its file is only ever handed over as a file
    elif kind in ('file', 'prog'):
        cl.add_file_held(node[1], True)
    elif kind == 'stored':
        inner = _closure(node[1], limit)
        cl.truncated = inner.truncated
        for v, proper in inner.values.items():
            cl.add_file_held(v, proper)
    elif kind == 'tr':
        tr = node[1]
        cached = tr[0] not in FROM_LINES
        inner = _closure(node[2], limit)
        cl.truncated = inner.truncated
        for v, proper in inner.values.items():
            # (for `run` with stdin: the program reads the file made of its stdin followed by the model as written)
            w = ''.join(apply(tr, nl_split(v)))
            if cached:
                cl.add_file_held(w, proper)
            else:
                cl.add(w, proper)
    elif kind in ('concat', 'appended'):
        combos = [('', True)]
        for p in node[1]:
            pc = _closure(p, limit)
            cl.truncated = cl.truncated or pc.truncated
            nxt = {}
            for t, proper in combos:
                for v, pr in pc.values.items():
                    if len(nxt) >= limit:
                        cl.truncated = True
                        break
                    nxt[t + v] = nxt.get(t + v, False) or (proper and pr)
            combos = list(nxt.items())
        for t, proper in combos:
            if kind == 'concat':
                cl.add_file_held(t, proper)
            else:
                cl.add(t, proper)  # the file is looked at as it is
    else:
        raise ValueError('source %r' % (node,))
    return cl


def head_of(chunks: Sequence[str], min_chars: int) -> str:
    """Whole chunks from the start until at least ``min_chars`` characters (min_chars >= 1) or the end."""
    acc = ''
    for c in chunks:
        acc += c
        if len(acc) >= min_chars:
            break
    return acc


def d2_predicts_text(node, observed: str) -> bool:
    """The observed text differs from the reference value and is a value that D2 predicts (part (a) of the model)."""
    cl = closure(node)
    return cl.values.get(observed) is False or (cl.truncated and observed not in cl.values)


def d2_predicts_lines(node, observed: Sequence[str]) -> bool:
    """Lines are always the proper division of some text: D2 changes characters, never the rule of division."""
    text = ''.join(observed)
    return tuple(observed) == nl_split(text) and d2_predicts_text(node, text)


def d2_texts(node) -> List[str]:
    """The values that only D2 gives."""
    return [t for t, proper in closure(node).values.items() if not proper]


# ---- matchers of the CLI layer -------------------------------------------------------------------------------------
#   ['eq', SRC] equals SRC | ['cmp', TEXT] a program that compares its stdin with TEXT byte by byte | ['nl', N]
#   num-lines == N | ['every-le', N] every line : line-num <= N | ['any', S] any line : contents equals S | ['empty']
#   | ['matches', CH] matches CH (the regex CH = one plain character is found somewhere in the text)
def matcher_value(m, chunks: Sequence[str], expected_text: Optional[str] = None) -> bool:
    kind = m[0]
    if kind == 'eq':
        return ''.join(chunks) == expected_text
    if kind == 'cmp':
        return ''.join(chunks) == m[1]
    if kind == 'nl':
        return len(chunks) == m[1]
    if kind == 'every-le':
        return len(chunks) <= m[1]
    if kind == 'any':
        wanted = m[1] if expected_text is None else expected_text
        return any(_content(c) == wanted for c in chunks)
    if kind == 'empty':
        return ''.join(chunks) == ''
    if kind == 'matches':
        return m[1] in ''.join(chunks)
    raise ValueError('matcher %r' % (m,))


def ref_verdict(actual_node, m) -> bool:
    chunks = nl_split(ref_text(actual_node))
    return matcher_value(m, chunks, ref_text(m[1]) if m[0] == 'eq' else None)


def d2_flips_verdict(actual_node, m) -> bool:
    """Part (a) of the defect model for a verdict: some value of the actual text (and, for `equals`, of the expected
    text) that D2 predicts makes the matcher's verdict differ from the reference verdict."""
    ref = ref_verdict(actual_node, m)
    acl = closure(actual_node).values
    exp = {None: True}
    if m[0] == 'eq':
        exp = closure(m[1]).values
    elif m[0] == 'any' and '\r' in m[1]:
        # a string with CR cannot be written in a case file: it is given as `-contents-of FILE` - a text held in a file
        exp = {m[1]: True, universal(m[1]): False}
    for v, proper in acl.items():
        for et, eproper in exp.items():
            if proper and eproper:
                continue
            if matcher_value(m, nl_split(v), et) != ref:
                return True
    return False
