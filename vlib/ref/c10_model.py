"""C10 reference model: what a generated test case denotes.

Independent of the code under test (no exactly_lib import).  Everything is
derived from the *case* (a JSON value, see vlib/gen/c10_gen.py for the shape)
by the rules of the built-in manual:

* `help syntax PROGRAM` / PROGRAM-ARGUMENT / STRING / LIST : the argument vector
  of a program is the written elements (a string symbol / path symbol reference
  = one element, an unquoted list symbol reference = its elements, a reference
  inside a string = string conversion, hard quotes = literal), arguments,
  stdin and transformations of `@ SYMBOL` programs are *appended* to those of
  the referenced program;
* `help act`, `help setup stdin`, `help actor command line`: stdin of the action
  to check = stdin of the PROGRAM followed by the stdin set in [setup];
* `help syntax TEXT-SOURCE`: string / here-doc / -contents-of / -stdout-from /
  -stderr-from (program's transformation applied to the captured channel,
  non-zero exit = HARD_ERROR unless -ignore-exit-code), optional transformation;
* `help concept current directory`: every OS process starts in the CD;
* `help setup run`, `help assert run`, `help setup $`, `help setup %`: non-zero
  exit = HARD_ERROR, in [assert] FAIL, unless -ignore-exit-code;
* `help case spec`: execution halts at the first error / failed assertion,
  [cleanup] is always executed.

Paths are expressed with the placeholders {HOME} and {SDS} (sandbox root).
"""
import copy
import json

RESERVED_WORDS = ('(', ')', '[', ']', '{', '}', '=', '|', ':', '!', '&&', '||')
PHASES = ('setup', 'before-assert', 'assert', 'cleanup')

PROBE_ARGV0 = ['{PY}', '{PROBE}']  # + '{OBS}/<id>'
ACT_HOME_MARK = 'in act-home:'


# ---------------------------------------------------------------------------
# probe id assignment: every base program head (one that starts the probe) gets
# an id in a fixed traversal order; the traversal is a pure function of the case
# ---------------------------------------------------------------------------
def with_ids(case):
    """-> deep copy of the case where every probe-starting head has 'probe': 'nK',
    plus case['probes'] = {id: cfg}."""
    c = copy.deepcopy(case)
    probes = {}

    def new_id(cfg):
        pid = 'n%d' % len(probes)
        probes[pid] = dict(cfg or {})
        return pid

    def do_program(p):
        h = p['head']
        if h['k'] != 'sym':
            h['probe'] = new_id(h.get('cfg'))
        if p.get('stdin'):
            do_ts(p['stdin'])
        if p.get('tr'):
            do_tr(p['tr'])

    def do_ts(ts):
        if ts['k'] == 'pgm':
            do_program(ts['p'])

    def do_tr(tr):
        for prim in tr:
            if prim[0] == 'run':
                do_program(prim[1])

    for d in c.get('tsyms', []):
        do_ts(d['ts'])
    for d in c.get('pgms', []):
        do_program(d['p'])
    if c.get('setup_stdin'):
        do_ts(c['setup_stdin'])
    act = c.get('act')
    if act:
        if act['k'] == 'program':
            do_program(act['p'])
        elif act['k'] in ('file', 'source', 'null'):
            act['probe'] = new_id(act.get('cfg'))
    for ph in PHASES:
        for ins in c.get('phases', {}).get(ph, []):
            if ins['k'] in ('run', 'from', 'filefrom'):
                do_program(ins['p'])
            elif ins['k'] in ('sys', 'shell'):
                ins['probe'] = new_id(ins.get('cfg'))
    c['probes'] = probes
    return c


# ---------------------------------------------------------------------------
# values
# ---------------------------------------------------------------------------
class Model:
    def __init__(self, case_with_ids, home='{HOME}', sds='{SDS}'):
        """home, sds: the real directories when known (transformations may act on texts that contain paths)"""
        self.case = case_with_ids
        # `act-home = DIR` of [conf] (relative to the location of the test case file)
        act_home = home + '/' + case_with_ids['act_home'] if case_with_ids.get('act_home') else home
        self.rel_root = {'home': home, 'act-home': act_home, 'default': home, 'act': sds + '/act', 'tmp': sds + '/tmp'}
        self.syms = {d['n']: d for d in self.case.get('syms', [])}
        self.tsyms = {d['n']: d for d in self.case.get('tsyms', [])}
        self.pgms = {d['n']: d for d in self.case.get('pgms', [])}
        self.files = self.case.get('files', {})
        self.probes = self.case['probes']
        self.cwd = sds + '/act'
        self.inv = []  # expected invocations
        self.unknown_probes = set()  # probes whose invocation is not determined by the manual
        self.fuzzy = False  # verdict not determined by the manual
        self.out_files = {}  # path of a file created from the output of a program -> contents
        self._optional = 0

    # -- strings ------------------------------------------------------------
    def path_value(self, rel, name):
        root = self.cwd if rel == 'cd' else self.rel_root[rel]
        return root + '/' + name

    def sym_as_list(self, name):
        d = self.syms[name]
        if d['t'] == 'string':
            return [d['v']]
        if d['t'] == 'list':
            return list(d['v'])
        return [self.path_value(d['rel'], d['name'])]

    def sym_as_string(self, name):
        d = self.syms[name]
        if d['t'] == 'list':
            return ' '.join(d['v'])
        return self.sym_as_list(name)[0]

    def pieces_value(self, pieces, substitute=True):
        out = []
        for kind, text in pieces:
            if kind == 't':
                out.append(text)
            elif substitute:
                out.append(self.sym_as_string(text))
            else:
                out.append('@[%s]@' % text)
        return ''.join(out)

    def string_value(self, sspec, text_source_position=False):
        """STRING: the concatenation of its fragments (`string_chunks`: the concrete syntax the case denotes);
        a reference in a naked or soft quoted fragment is substituted (string conversion of lists and paths),
        hard quoted fragments are literal."""
        return ''.join(self.sym_as_string(text) if is_ref else text
                       for style, text, is_ref in string_chunks(sspec, text_source_position))

    def args_value(self, args, last=None):
        out = []
        for a in args:
            k = a['k']
            if k == 'str':
                name = bare_reference(a)
                if name is not None:
                    # LIST / PROGRAM-ARGUMENT: an element that is exactly one unquoted SYMBOL-REFERENCE
                    out.extend(self.sym_as_list(name))
                else:
                    out.append(self.string_value(a))
            elif k == 'ref':
                out.extend(self.sym_as_list(a['n']))
            elif k == 'hardref':
                out.append('@[%s]@' % a['n'])
            elif k == 'xpath':
                out.append(self.path_value(a['rel'], a['name']))
            else:
                raise ValueError(k)
        if last:
            if last['k'] == 'eol':
                out.append(self.pieces_value(strip_source(last['pieces'])))
            elif last['k'] == 'here':
                out.append(''.join(self.pieces_value(l) + '\n' for l in last['lines']))
            else:
                raise ValueError(last['k'])
        return out

    def file_text(self, rel, name):
        """contents of a data file: the copies in a separate act-home directory are marked"""
        text = self.files[name]
        if rel == 'act-home' and self.case.get('act_home'):
            return ACT_HOME_MARK + text
        return text

    # -- transformers ---------------------------------------------------------
    def apply_transformer(self, tr, text, raw_program_output=False):
        """-> text or None (hard error)
        raw_program_output: the text is the output of a program, as it comes from the process (only of interest
        to the defect model KF-C10-1: such a text is marked as 'pgm' when it becomes part of a stdin)"""
        for prim in tr or []:
            op = prim[0]
            if op == 'upper':
                text = text.upper()
            elif op == 'lower':
                text = text.lower()
            elif op == 'strip':
                text = text.strip()
            elif op == 'strip-nl':
                text = text.rstrip('\n')
            elif op == 'strip-sp':
                text = text.rstrip()
            elif op == 'repl':
                text = text.replace(prim[1], prim[2])
            elif op == 'id':
                pass
            elif op == 'run':
                # how often a transformation is evaluated is not specified (at least once when the result is used)
                r = self.run_program(prim[1], consume='stdout',
                                     extra_parts=[{'text': text, 'pgm': raw_program_output}], count='1+',
                                     exit_relevant=not prim[2])
                if r.get('hard') or (r['exit'] != 0 and not prim[2]):
                    return None
                text = r['stdout']
            else:
                raise ValueError(op)
            if op != 'id':
                raw_program_output = False
        return text

    # -- text sources ---------------------------------------------------------
    def eval_ts(self, ts):
        """-> dict(text, pgm) or None (hard error)"""
        k = ts['k']
        pgm = False
        if k == 'str':
            text = self.string_value(ts['s'], text_source_position=True)
        elif k == 'here':
            text = ''.join(self.pieces_value(l) + '\n' for l in ts['lines'])
        elif k == 'file':
            text = self.file_text(ts.get('rel', 'default'), ts['name'])
        elif k == 'ssym':
            text = self.sym_as_string(ts['n'])
        elif k == 'tsym':
            r = self.eval_ts(self.tsyms[ts['n']]['ts'])
            if r is None:
                return None
            text, pgm = r['text'], r['pgm']
        elif k == 'pgm':
            # "executed once" is only promised for `-from`; a text source is produced at least once when used
            r = self.run_program(ts['p'], consume=ts['chan'], count='1+', exit_relevant=not ts.get('ignore'))
            if r.get('hard') or (r['exit'] != 0 and not ts.get('ignore')):
                return None
            text = r[ts['chan']]
            pgm = True
        else:
            raise ValueError(k)
        if ts.get('tr') and k != 'pgm':  # a program has its own -transformed-by
            text = self.apply_transformer(ts['tr'], text)
            if text is None:
                return None
        return {'text': text, 'pgm': pgm}

    # -- programs ---------------------------------------------------------------
    def flatten(self, p):
        """-> (base program, [layers in definition order])"""
        layers = [p]
        while layers[0]['head']['k'] == 'sym':
            layers.insert(0, self.pgms[layers[0]['head']['n']]['p'])
        return layers[0], layers

    def probes_in_program(self, p):
        out = []

        def prog(q):
            base, layers = self.flatten(q)
            out.append(base['head']['probe'])
            for l in layers:
                if l.get('stdin'):
                    ts_(l['stdin'])
                for prim in l.get('tr') or []:
                    if prim[0] == 'run':
                        prog(prim[1])

        def ts_(ts):
            if ts['k'] == 'pgm':
                prog(ts['p'])
            elif ts['k'] == 'tsym':
                ts_(self.tsyms[ts['n']]['ts'])

        prog(p)
        return out

    def program_argv(self, p):
        """-> list of acceptable argument vectors (after the probe's own leading arguments)"""
        base, layers = self.flatten(p)
        h = base['head']
        if h['k'] == 'shell':
            words_subst = self.shell_words(h['sh'], True)
            words_plain = self.shell_words(h['sh'], False)
            extra = []
            for l in layers:
                for a in l['args']:
                    # an appended argument becomes part of the command line: the shell divides it into words
                    extra.extend(a['shwords'] if 'shwords' in a else self.args_value([a]))
                extra.extend(self.args_value([], l.get('last')))
            alts = [words_subst + extra]
            if words_plain != words_subst:
                alts.append(words_plain + extra)
            return alts
        argv = []
        for l in layers:
            argv.extend(self.args_value(l['args'], l.get('last')))
        return [argv]

    def shell_words(self, sh, substitute):
        """sh = list of words, word = list of [style, pieces]; style u(nquoted) s(ingle) d(ouble).
        The denoted words by construction (POSIX word splitting); with substitution the substituted text is
        split again when it sits in an unquoted segment (values of referenced symbols are single simple words)."""
        words = []
        for w in sh['words']:
            words.append(''.join(self.pieces_value(pieces, substitute) for style, pieces in w))
        return words

    def run_program(self, p, consume, extra_parts=(), late_parts=None, count='1', exit_relevant=False):
        """Models one execution of a PROGRAM in the current directory.
        consume: 'stdout' | 'stderr' | None - the channel the program's transformations apply to.
        extra_parts: stdin parts appended after the program's own.
        late_parts: callable giving more parts (evaluated after the program's own).
        exit_relevant: a non-zero exit code makes the result an error (whether the transformations of the output
        are evaluated then is not specified).
        -> dict(hard=True) | dict(exit, stdout, stderr)"""
        base, layers = self.flatten(p)
        parts = []
        inv_mark = len(self.inv)

        def hard():
            # a text source / transformer could not be produced: the order in which the manual's "HARD_ERROR"
            # interrupts the evaluation of the other parts is not specified
            for rec in self.inv[inv_mark:]:
                rec['count'] = '0+'
            self.unknown_probes.update(self.probes_in_program(p))
            if late_parts is not None and self.case.get('setup_stdin'):
                self._mark_unknown_ts(self.case['setup_stdin'])
            return {'hard': True}

        for l in layers:
            if l.get('stdin'):
                r = self.eval_ts(l['stdin'])
                if r is None:
                    return hard()
                parts.append(r)
        parts.extend(extra_parts)
        if late_parts is not None:
            more = late_parts()
            if more is None:
                return hard()
            parts.extend(more)
        pid = base['head']['probe']
        self.record(pid, self.program_argv(p), parts, count)
        cfg = self.probes[pid]
        res = {'exit': cfg.get('exit', 0), 'stdout': cfg.get('stdout', ''), 'stderr': cfg.get('stderr', '')}
        chan = consume or 'stdout'
        optional_tr = consume is None or (exit_relevant and res['exit'] != 0)
        if optional_tr:
            self._optional += 1
        try:
            text = res[chan]
            raw = True
            for l in layers:
                text = self.apply_transformer(l.get('tr'), text, raw_program_output=raw)
                if any(prim[0] != 'id' for prim in l.get('tr') or []):
                    raw = False
                if text is None:
                    if optional_tr:
                        # the output is not used: whether the transformation is evaluated at all is not specified
                        return res
                    return hard()
            if consume is not None:
                res[chan] = text
        finally:
            if optional_tr:
                self._optional -= 1
        return res

    def _mark_unknown_ts(self, ts):
        if ts['k'] == 'pgm':
            self.unknown_probes.update(self.probes_in_program(ts['p']))
        elif ts['k'] == 'tsym':
            self._mark_unknown_ts(self.tsyms[ts['n']]['ts'])

    def _mark_unknown_tr(self, tr):
        for prim in tr or []:
            if prim[0] == 'run':
                self.unknown_probes.update(self.probes_in_program(prim[1]))

    def record(self, pid, argv_alts, parts, count='1'):
        if self._optional:
            count = '0+'
        self.inv.append({
            'probe': pid,
            'argv': argv_alts,
            'stdin': ''.join(x['text'] for x in parts),
            'parts': [[x['text'], bool(x['pgm'])] for x in parts],
            'cwd': self.cwd,
            'count': count,
        })

    # -- the test case ------------------------------------------------------------
    def simulate(self):
        """-> dict(verdict=set of identifiers | None, act=dict(exit, stdout, stderr) | None, inv=[...],
                   unknown_probes=set)"""
        case = self.case
        phases = case.get('phases', {})
        verdict = None
        act_outcome = None

        for ins in phases.get('setup', []):
            if self.exec_instr(ins, 'setup') != 'pass':
                verdict = 'HARD_ERROR'
                break
        if verdict is None:
            act_outcome = self.exec_act()
            if act_outcome is None:
                verdict = 'HARD_ERROR'
        if verdict is None:
            for ins in phases.get('before-assert', []):
                if self.exec_instr(ins, 'before-assert') != 'pass':
                    verdict = 'HARD_ERROR'
                    break
        if verdict is None:
            for claim in case.get('claims', []):
                if act_outcome[claim['what']] != claim['v']:
                    verdict = 'FAIL'
                    break
        if verdict is None:
            for ins in phases.get('assert', []):
                r = self.exec_instr(ins, 'assert')
                if r != 'pass':
                    verdict = 'FAIL' if r == 'fail' else 'HARD_ERROR'
                    break
        verdicts = {verdict or 'PASS'}
        for ins in phases.get('cleanup', []):
            if self.exec_instr(ins, 'cleanup') != 'pass':
                # an error in [cleanup] is an error of the test case; what is reported when an earlier phase
                # has failed already is not specified
                verdicts = {'HARD_ERROR'} if verdict is None else {verdict, 'HARD_ERROR'}
                break
        return {'verdict': None if self.fuzzy else verdicts, 'act': act_outcome, 'inv': self.inv,
                'unknown_probes': self.unknown_probes, 'out_files': self.out_files}

    def exec_instr(self, ins, phase):
        """-> 'pass' | 'fail' | 'hard'   ('fail' only in [assert])"""
        k = ins['k']
        bad = 'fail' if phase == 'assert' else 'hard'
        if k == 'cd':
            self.cwd = self.path_value(ins['rel'], ins['name'])
            return 'pass'
        if k == 'run':
            r = self.run_program(ins['p'], consume=None)
            if r.get('hard'):
                return 'hard'
            return bad if (r['exit'] != 0 and not ins.get('ignore')) else 'pass'
        if k == 'sys':
            self.record(ins['probe'], [self.args_value(ins['args'], ins.get('last'))], [])
            return bad if self.probes[ins['probe']].get('exit', 0) != 0 else 'pass'
        if k == 'shell':
            alts = [self.shell_words(ins['sh'], True)]
            plain = self.shell_words(ins['sh'], False)
            if plain != alts[0]:
                alts.append(plain)
            self.record(ins['probe'], alts, [])
            return bad if self.probes[ins['probe']].get('exit', 0) != 0 else 'pass'
        if k == 'filefrom':
            # file PATH = (-stdout-from|-stderr-from) [-ignore-exit-code] PROGRAM   (`help syntax TEXT-SOURCE`)
            r = self.run_program(ins['p'], consume=ins['chan'], count='1+', exit_relevant=not ins.get('ignore'))
            if r.get('hard') or (r['exit'] != 0 and not ins.get('ignore')):
                return 'hard'
            self.out_files[self.path_value(ins['rel'], ins['name'])] = r[ins['chan']]
            return 'pass'
        if k == 'from':
            what = ins['what']
            r = self.run_program(ins['p'], consume=None if what == 'exit' else what, exit_relevant=True)
            if r.get('hard'):
                return 'hard'
            if what != 'exit' and r['exit'] != 0:
                self.fuzzy = True  # the manual does not say what a non-zero exit means for stdout/stderr -from
            return 'pass' if r[what] == ins['claim'] else 'fail'
        raise ValueError(k)

    def setup_stdin_parts(self):
        ts = self.case.get('setup_stdin')
        if not ts:
            return []
        r = self.eval_ts(ts)
        return None if r is None else [r]

    def exec_act(self):
        """-> outcome dict or None (hard error)"""
        act = self.case.get('act')
        if not act or act['k'] == 'null':
            return {'exit': 0, 'stdout': '', 'stderr': ''}
        if act['k'] == 'program':
            r = self.run_program(act['p'], consume='stdout', late_parts=self.setup_stdin_parts)
            return None if r.get('hard') else r
        parts = self.setup_stdin_parts()
        if parts is None:
            return None
        pid = act['probe']
        if act['k'] == 'file':
            if act['variant'] == 'probe-is-interpreter':
                # `help actor file`: FILE - default relativity is the act-home directory
                rel = 'act-home' if act['rel'] == 'default' else act['rel']
                argv = (self.args_value(act['iargs']) + [self.path_value(rel, act['name'])]
                        + self.args_value(act['args'], act.get('last')))
            else:
                # interpreter = python, the source file starts the probe: FILE OUT ARGS...
                argv = self.args_value(act['args'], act.get('last'))
            self.record(pid, [argv], parts)
        elif act['k'] == 'source':
            if act['variant'] == 'probe-is-interpreter':
                argv = self.args_value(act['iargs']) + ['{SOURCE-FILE}']
            else:
                argv = list(act['pyargs'])
            self.record(pid, [argv], parts)
        else:
            raise ValueError(act['k'])
        cfg = self.probes[pid]
        return {'exit': cfg.get('exit', 0), 'stdout': cfg.get('stdout', ''), 'stderr': cfg.get('stderr', '')}


# ---------------------------------------------------------------------------
# concrete syntax of a STRING (shared with the renderer: the case denotes exactly this token)
# ---------------------------------------------------------------------------
NAKED_FORBIDDEN_CHARS = set(' \t\n\r\'"\\')
NAKED_FORBIDDEN_TOKENS = set(RESERVED_WORDS) | {'-existing-file', '-existing-dir', '-existing-path'}


def _quote_literal(text, pref):
    """-> list of (style, text) chunks that denote `text` literally; style in n(aked) / s(oft) / h(ard): the
    preferred style where the syntax allows it, otherwise the nearest legal quoting."""
    if text == '':
        return [('h' if pref == 'h' else 's', '')]
    if pref == 'n' and not (set(text) & NAKED_FORBIDDEN_CHARS):
        return [('n', text)]
    if pref != 'h' and '"' not in text and '\\' not in text:
        return [('s', text)]
    if "'" not in text:
        return [('h', text)]
    # both kinds of quotes (or a backslash and a hard quote): split at the hard quotes
    out = []
    cur = ''
    for ch in text:
        if ch == "'":
            if cur:
                out.append(('h', cur))
                cur = ''
            out.append(('s', "'"))
        else:
            cur += ch
    if cur:
        out.append(('h', cur))
    return out


def string_chunks(sspec, text_source_position=False):
    """STRING spec {'frs': [[style, pieces]]}, piece = ['t', text] | ['r', symbol name]
    -> the fragments of the token as written: [(style n|s|h, text, is_substituted_reference)]; every fragment is
    written with its own quotes, fragments are put side by side.  For a reference `text` is the symbol name; a
    reference inside hard quotes is the literal text `@[NAME]@` (is_substituted_reference False).
    text_source_position: the string is a TEXT-SOURCE - a naked symbol reference would be the SYMBOL-REFERENCE form
    (text-source or string symbols only) and a leading naked '-' an option: naked fragments are soft quoted there."""
    chunks = []
    for style, pieces in sspec['frs']:
        if text_source_position and style == 'n':
            style = 's'
        for kind, text in pieces:
            if kind == 't':
                if text == '' and len(pieces) > 1:
                    continue
                for st, tx in _quote_literal(text, style):
                    chunks.append((st, tx, False))
            elif style == 'h':
                chunks.append(('h', '@[%s]@' % text, False))
            else:
                chunks.append((style, text, True))
    if not chunks:
        return [('s', '', False)]
    src = [('@[%s]@' % tx) if r else tx for _, tx, r in chunks]
    # side-by-side fragments must not form something else than their concatenation
    for i in range(1, len(chunks)):
        st, tx, r = chunks[i]
        if st == 'n' and chunks[i - 1][0] == 'n' and not r and (
                (src[i - 1].endswith('@') and tx.startswith('[')) or (src[i - 1].endswith(']') and tx.startswith('@'))):
            chunks[i] = ('s', tx, r)  # would read as (part of) a symbol reference
    naked_prefix = ''
    for i, (st, tx, r) in enumerate(chunks):
        if st != 'n':
            break
        naked_prefix += src[i]
    if naked_prefix.startswith('<<') or naked_prefix.startswith(':>'):
        chunks[0] = ('s',) + tuple(chunks[0][1:])  # would read as here-document / text-until-end-of-line
    if all(st == 'n' for st, _, _ in chunks) and not any(r for _, _, r in chunks):
        whole = ''.join(tx for _, tx, _ in chunks)
        if whole in NAKED_FORBIDDEN_TOKENS:
            return [('s', whole, False)]  # a reserved word / an option is a string only when quoted
    return chunks


def bare_reference(sspec):
    """-> the symbol name if the token is exactly one unquoted SYMBOL-REFERENCE, else None"""
    chunks = string_chunks(sspec)
    if len(chunks) == 1 and chunks[0][0] == 'n' and chunks[0][2]:
        return chunks[0][1]
    return None


def strip_source(pieces):
    """`:> TEXT`: "whitespace at both ends is removed" - of the source text, before references are substituted"""
    ps = [list(p) for p in pieces]
    while ps and ps[0][0] == 't':
        ps[0][1] = ps[0][1].lstrip()
        if ps[0][1]:
            break
        ps.pop(0)
    while ps and ps[-1][0] == 't':
        ps[-1][1] = ps[-1][1].rstrip()
        if ps[-1][1]:
            break
        ps.pop()
    return ps


def mutated(mut, actual):
    """the value a claim states, relative to the true value"""
    if mut is None:
        return actual
    if isinstance(actual, int):
        return {'+1': (actual + 1) % 256, '-1': (actual - 1) % 256, '%128': actual % 128,
                '+128': (actual + 128) % 256, 'zero': 0}[mut]
    if len(actual) > 2000:
        return actual
    if mut == 'add-nl':
        return actual + '\n'
    if mut == 'drop-last':
        return actual[:-1]
    if mut == 'upper':
        return actual.upper()
    if mut == 'lead-space':
        return ' ' + actual
    if mut == 'drop-first':
        return actual[1:]
    if mut == 'add-b':
        return actual + 'b'
    raise ValueError(mut)


def resolve_claims(c):
    """fills in the stated values of the claims (claim['v'], instruction['claim']) from the outcomes the programs
    have by construction - a static property of the case, independent of the flow of execution"""
    dry = Model(c)
    act = dry.exec_act() or {'exit': 0, 'stdout': '', 'stderr': ''}
    for cl in c.get('claims', []):
        cl['v'] = mutated(cl.get('mut'), act[cl['what']])
    for ph in PHASES:
        for ins in c.get('phases', {}).get(ph, []):
            if ins['k'] == 'from':
                what = ins['what']
                r = Model(c).run_program(ins['p'], consume=None if what == 'exit' else what)
                actual = r[what] if not r.get('hard') else (0 if what == 'exit' else '')
                ins['claim'] = mutated(ins.get('mut'), actual)


def expectations(case):
    """-> (case with ids and resolved claims, result of Model.simulate() with path placeholders)"""
    c = with_ids(case)
    resolve_claims(c)
    return c, Model(c).simulate()


def expectations_at(c, home, sds):
    """expectations for a materialised case: real home and sandbox directories"""
    return Model(c, home, sds).simulate()


# ---------------------------------------------------------------------------
# the modelled defect KF-C10-1
# ---------------------------------------------------------------------------
def kf1_matches(parts, received):
    """KF-C10-1: the stdin of a process is the concatenation of several text sources, written one after the other
    into one (buffered) Python text file; a part that is the output of a program is written by that program
    straight through the file descriptor, while (the tail of) the text written before it still sits in the
    writer's buffer.  So the defect predicts: the output of >= 1 program parts appears EARLIER than it should -
    somewhere inside / before the text that precedes it - and nothing else changes: the order of all other text is
    kept, outputs of programs keep their mutual order, nothing is lost or duplicated.
    (Which prefix of the earlier text has been flushed already depends on buffer sizes: any position qualifies.)
    parts: [[text, is_program_output], ...]; received: the stdin the process got.
    -> True iff `received` differs from the correct text exactly in the way the defect predicts."""
    correct = ''.join(t for t, _ in parts)
    if received == correct or len(received) != len(correct):
        return False
    idx = [i for i, (t, pgm) in enumerate(parts) if pgm and t != '']
    n = len(idx)
    for mask in range(1, 1 << n):
        moved = [idx[j] for j in range(n) if mask & (1 << j)]
        rest = ''.join(parts[i][0] for i in range(len(parts)) if i not in moved)
        # offset (in `rest`) at which every moved part belongs
        belongs = [sum(len(parts[i][0]) for i in range(m) if i not in moved) for m in moved]
        texts = [parts[m][0] for m in moved]

        def place(k, lo, consumed_received, any_early):
            """parts k.. are still to be placed; `rest[:lo]` and the parts before k account for
            received[:consumed_received]"""
            if k == len(moved):
                return any_early and received[consumed_received:] == rest[lo:]
            t = texts[k]
            # candidate offsets o in [lo, belongs[k]]: rest[lo:o] must equal received[consumed:consumed + o - lo]
            o = lo
            while o <= belongs[k]:
                pos = consumed_received + (o - lo)
                if received.startswith(t, pos):
                    if place(k + 1, o, pos + len(t), any_early or o < belongs[k]):
                        return True
                if o < len(rest) and pos < len(received) and rest[o] == received[pos]:
                    o += 1
                else:
                    break
            return False

        if place(0, 0, 0, False):
            return True
    return False


def canonical(obj):
    return json.dumps(obj, sort_keys=True, ensure_ascii=False)
