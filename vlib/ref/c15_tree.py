"""C15 reference model, written from the built-in manual only (no import of the code under test).

Two parts:

1. ``populate``: interpreter of a FILES-SOURCE AST over a dict tree
   (`help syntax FILES-SOURCE`: entries applied in listed order; `file N`/`file N = T`/`dir N`/`dir N = S`
   need a path that does not exist; `file N += T` an existing regular file; `dir N += S` an existing directory;
   intermediate directories are created; a FILE-NAME is a relative Posix path without `..`).

2. ``Evaluator``: files-matcher / file-matcher evaluation over a tree with regular files, directories and
   symbolic links (`help syntax FILES-MATCHER`, `FILE-MATCHER`, `FILES-CONDITION`, `GLOB-PATTERN`,
   `help assert dir-contents`, `help assert exists`).

   The value of a matcher is a *set of admissible outcomes* out of {T, F, H} (H = HARD_ERROR): where the manual
   leaves something open (order in which the files of a set are visited when one of them gives HARD_ERROR,
   regex "matches" = search or full match, absolute path of a file reached through a symbolic link) every
   documented reading contributes its outcome.  `&&`/`||` are lazy, left to right, as documented.
"""
import re

T, F, H = 'T', 'F', 'H'
ANY = frozenset([T, F, H])
ONLY_T = frozenset([T])
ONLY_F = frozenset([F])
ONLY_H = frozenset([H])


def of_bool(b):
    return ONLY_T if b else ONLY_F


# ======================================================================================================
# 1. populate
# ======================================================================================================
class PopulateFailure(Exception):
    """The list cannot be applied: the program must report HARD_ERROR.
    loose = the state of the directory at the failure is not determined by the manual."""

    def __init__(self, why, loose=False):
        Exception.__init__(self, why)
        self.why = why
        self.loose = loose


class Rejected(Exception):
    """A FILE-NAME the manual forbids (absolute, `..`)."""


def new_dir():
    return {'t': 'd', 'c': {}}


def new_file(text):
    return {'t': 'f', 'text': text}


def name_parts(name):
    """Posix reading of a relative FILE-NAME: '.' components and empty components are no-ops."""
    if name.startswith('/') or name.startswith('{'):  # {HOME}, {ROOT}, ...: the harness' absolute directories
        raise Rejected('absolute')
    parts = [p for p in name.split('/') if p not in ('', '.')]
    if '..' in parts:
        raise Rejected('dotdot')
    return parts


def rejected_names(fs):
    """All names in a files-source AST that the manual forbids (found before anything is executed or not -
    the manual only says 'must not')."""
    out = []
    if fs['k'] == 'list':
        for e in fs['entries']:
            try:
                name_parts(e['name'])
            except Rejected:
                out.append(e['name'])
            if e['t'] == 'dir' and e.get('src') is not None:
                out.extend(rejected_names(e['src']))
    elif fs['k'] in ('par', 'sym'):
        out.extend(rejected_names(fs['x']))
    return out


def _lookup(dir_node, parts):
    """-> node or None; raises PopulateFailure if a middle component is a regular file."""
    cur = dir_node
    for i, p in enumerate(parts):
        if cur['t'] != 'd':
            return 'notdir'
        nxt = cur['c'].get(p)
        if nxt is None:
            return None
        cur = nxt
    return cur


def _mk_parents(dir_node, parts):
    cur = dir_node
    for p in parts:
        nxt = cur['c'].get(p)
        if nxt is None:
            nxt = new_dir()
            cur['c'][p] = nxt
        cur = nxt
    return cur


def _creatable(dir_node, parts):
    """Check that `parts` does not exist and that no existing prefix is a regular file."""
    cur = dir_node
    for i, p in enumerate(parts):
        if cur['t'] != 'd':
            raise PopulateFailure('a middle component of %s is a regular file' % '/'.join(parts))
        nxt = cur['c'].get(p)
        if nxt is None:
            return
        cur = nxt
    raise PopulateFailure('path exists: %s' % '/'.join(parts))


def populate(dir_node, fs, sources):
    """Apply files-source AST `fs` to `dir_node` in place.  `sources`: name -> dict tree (for dir-contents-of)."""
    k = fs['k']
    if k in ('par', 'sym'):
        return populate(dir_node, fs['x'], sources)
    if k == 'copy':
        src = sources.get(fs['src'])
        if src is None or src['t'] != 'd':
            raise PopulateFailure('source is not an existing directory')  # in fact a validation error
        clash = [n for n in src['c'] if n in dir_node['c']]
        if clash:
            # the manual does not say what a clash means for dir-contents-of
            raise PopulateFailure('dir-contents-of: name clash %s' % clash, loose=True)
        for n in sorted(src['c']):
            dir_node['c'][n] = _deep_copy(src['c'][n])
        return
    assert k == 'list', k
    for e in fs['entries']:
        parts = name_parts(e['name'])
        op = e.get('op')
        if e['t'] == 'file':
            text = e.get('text') or ''
            if op == '+=':
                node = _lookup(dir_node, parts) if parts else dir_node
                if node is None or node == 'notdir' or node['t'] != 'f':
                    raise PopulateFailure('file += : not an existing regular file: ' + e['name'])
                node['text'] += text
            else:
                if not parts:
                    raise PopulateFailure('path exists (the populated directory itself)')
                _creatable(dir_node, parts)
                parent = _mk_parents(dir_node, parts[:-1])
                parent['c'][parts[-1]] = new_file(text)
        else:
            if op == '+=':
                node = _lookup(dir_node, parts) if parts else dir_node
                if node is None or node == 'notdir' or node['t'] != 'd':
                    raise PopulateFailure('dir += : not an existing directory: ' + e['name'])
                if e.get('src') is not None:
                    populate(node, e['src'], sources)
            else:
                if not parts:
                    raise PopulateFailure('path exists (the populated directory itself)')
                _creatable(dir_node, parts)
                parent = _mk_parents(dir_node, parts[:-1])
                node = new_dir()
                parent['c'][parts[-1]] = node
                if e.get('src') is not None:
                    populate(node, e['src'], sources)


def _deep_copy(node):
    if node['t'] == 'f':
        return new_file(node['text'])
    return {'t': 'd', 'c': {n: _deep_copy(c) for n, c in node['c'].items()}}


def flatten(dir_node, prefix=''):
    """dict tree -> {rel path: ['d'] | ['f', text]} (the format of driver.tree_snapshot)."""
    out = {}
    for n in sorted(dir_node['c']):
        c = dir_node['c'][n]
        p = prefix + n
        if c['t'] == 'f':
            out[p] = ['f', c['text']]
        else:
            out[p] = ['d']
            out.update(flatten(c, p + '/'))
    return out


def tree_of_files(files):
    """{rel path: text | None(dir)} -> dict tree (used for dir-contents-of sources)."""
    root = new_dir()
    for p in sorted(files):
        parts = p.split('/')
        parent = _mk_parents(root, parts[:-1])
        if files[p] is None:
            parent['c'].setdefault(parts[-1], new_dir())
        else:
            parent['c'][parts[-1]] = new_file(files[p])
    return root


# ======================================================================================================
# 2. trees with symbolic links
# ======================================================================================================
class TooBig(Exception):
    """The walk exceeds the bound (symbolic link cycle without -max-depth): no expectation."""


class LinkTree:
    """nodes: list of {'p': 'a/b', 't': 'd'|'f'|'l', 'text'|'target'}; parents precede children."""

    MAX_LINKS = 40

    def __init__(self, nodes):
        self.nodes = {(): ('d',)}
        for n in nodes:
            path = tuple(n['p'].split('/'))
            if n['t'] == 'd':
                self.nodes[path] = ('d',)
            elif n['t'] == 'f':
                self.nodes[path] = ('f', n['text'])
            else:
                self.nodes[path] = ('l', n['target'])
        self._children = {}
        for path in self.nodes:
            if path:
                self._children.setdefault(path[:-1], []).append(path[-1])

    def children(self, real_dir):
        return sorted(self._children.get(real_dir, []))

    def lstat(self, access):
        """Kind of the file at `access` (tuple from the tree root; middle components may be links),
        last component not followed.  -> ('d',)|('f',text)|('l',target)|None , real path"""
        if not access:
            return ('d',), ()
        parent = self.resolve(access[:-1])
        if parent is None or parent[0][0] != 'd':
            return None, None
        real = parent[1] + (access[-1],)
        return self.nodes.get(real), real

    def resolve(self, access, _budget=None):
        """Follow every symbolic link.  -> (node, real path) | None (does not exist / dangling / cycle)"""
        budget = _budget if _budget is not None else [self.MAX_LINKS]
        cur = ()
        todo = list(access)
        while todo:
            comp = todo.pop(0)
            if comp in ('', '.'):
                continue
            if comp == '..':
                if not cur:
                    raise TooBig('link target leaves the tree')
                cur = cur[:-1]
                continue
            if self.nodes.get(cur, (None,))[0] != 'd':
                return None
            nxt = cur + (comp,)
            node = self.nodes.get(nxt)
            if node is None:
                return None
            if node[0] == 'l':
                budget[0] -= 1
                if budget[0] < 0:
                    raise TooBig('too many levels of symbolic links: the manual says nothing about ELOOP')
                if node[1].startswith('/'):
                    raise TooBig('absolute link target')
                todo = node[1].split('/') + todo
                # target is relative to the directory holding the link: cur stays
                continue
            cur = nxt
        return self.nodes[cur], cur

    def kind_followed(self, access):
        r = self.resolve(access)
        return None if r is None else r[0][0]


# ======================================================================================================
# 3. matcher evaluation
# ======================================================================================================
def o_not(s):
    return frozenset({T: F, F: T, H: H}[x] for x in s)


def o_and(parts):
    """lazy, left to right; parts = list of thunks"""
    res = set()
    for i, th in enumerate(parts):
        s = th()
        if F in s:
            res.add(F)
        if H in s:
            res.add(H)
        if T not in s:
            return frozenset(res)
    res.add(T)
    return frozenset(res)


def o_or(parts):
    return o_not(o_and([(lambda th=th: o_not(th())) for th in parts]))


def o_all_unordered(items):
    """conjunction over a set whose order of evaluation (and laziness) the manual leaves open"""
    items = list(items)
    res = set()
    if all(T in i for i in items):
        res.add(T)
    if any(F in i for i in items):
        res.add(F)
    if any(H in i for i in items):
        res.add(H)
    return frozenset(res)


def o_any_unordered(items):
    return o_not(o_all_unordered([o_not(i) for i in items]))


def glob_to_regex(pat):
    """The documented GLOB-PATTERN forms: ? * [CHARS] [C-C] [!CHARS]; everything else literal."""
    out = []
    i = 0
    while i < len(pat):
        c = pat[i]
        if c == '?':
            out.append('.')
        elif c == '*':
            out.append('.*')
        elif c == '[':
            j = pat.find(']', i + 2)  # a ']' directly after '[' or '[!' is a member
            if j == -1:
                out.append(re.escape(c))
            else:
                body = pat[i + 1:j]
                neg = body.startswith('!')
                if neg:
                    body = body[1:]
                body = body.replace('\\', '\\\\')
                if body.startswith('^'):
                    body = '\\' + body
                out.append('[' + ('^' if neg else '') + body.replace('[', '\\[') + ']')
                i = j
        else:
            out.append(re.escape(c))
        i += 1
    return re.compile(''.join(out), re.S)


def name_part(name, part):
    """`help syntax FILE-MATCHER`, table "File name parts"."""
    if part == 'name':
        return name
    first = name.find('.')
    if part == 'stem':
        return name if first == -1 else name[:first]
    if part == 'suffixes':
        return '' if first == -1 else name[first:]
    if part == 'suffix':
        last = name.rfind('.')
        return '' if last == -1 else name[last:]
    raise ValueError(part)


INT_OPS = {
    '==': lambda a, b: a == b, '!=': lambda a, b: a != b, '<': lambda a, b: a < b,
    '<=': lambda a, b: a <= b, '>': lambda a, b: a > b, '>=': lambda a, b: a >= b,
}


def num_lines(text):
    if text == '':
        return 0
    return text.count('\n') + (0 if text.endswith('\n') else 1)


class Model:
    """A set of files: the contents of the directory at `root` (access path), direct or recursive."""

    def __init__(self, root, rec, prunes=(), sels=()):
        self.root = root
        self.rec = rec  # None | {'min': int|None, 'max': int|None}
        self.prunes = tuple(prunes)
        self.sels = tuple(sels)


class Ambiguous(Exception):
    """A selection / pruning matcher gives HARD_ERROR or has no single documented value for some file:
    the manual does not determine the set of files."""


class Evaluator:
    def __init__(self, tree, abs_prefix, max_files=600):
        self.tree = tree
        self.abs_prefix = abs_prefix  # absolute path of the tree root
        self.max_files = max_files
        self.visited = 0

    # ---- sets of files ---------------------------------------------------------------------------
    def files(self, model):
        """-> list of access paths relative to model.root (tuples), as a set (order is meaningless)"""
        tree = self.tree
        out = []
        rec = model.rec
        mn = rec.get('min') if rec else None
        mx = rec.get('max') if rec else None
        queue = [((), 0)]
        while queue:
            rel, depth = queue.pop(0)
            r = tree.resolve(model.root + rel)
            assert r is not None and r[0][0] == 'd', (model.root, rel)
            for name in tree.children(r[1]):
                f = rel + (name,)
                self.visited += 1
                if self.visited > self.max_files:
                    raise TooBig('more than %d files' % self.max_files)
                if mn is None or depth >= mn:
                    out.append(f)
                if rec is None:
                    continue
                if mx is not None and depth >= mx:
                    continue
                if tree.kind_followed(model.root + f) == 'd':
                    pruned = False
                    for pm in model.prunes:
                        v = self.fm(pm, model.root + f)
                        if len(v) != 1 or H in v:
                            raise Ambiguous()
                        if T in v:
                            pruned = True
                            break
                    if not pruned:
                        queue.append((f, depth + 1))
        if model.sels:
            sel = []
            for f in out:
                keep = True
                for sm in model.sels:
                    v = self.fm(sm, model.root + f)
                    if len(v) != 1 or H in v:
                        raise Ambiguous()
                    if F in v:
                        keep = False
                        break
                if keep:
                    sel.append(f)
            out = sel
        return out

    # ---- files-matcher ---------------------------------------------------------------------------
    def fsm(self, m, model):
        try:
            return self._fsm(m, model)
        except Ambiguous:
            return ANY

    def _fsm(self, m, model):
        k = m['k']
        if k == 'const':
            return of_bool(m['v'])
        if k == 'par':
            return self._fsm(m['x'], model)
        if k == 'not':
            return o_not(self._fsm(m['x'], model))
        if k == 'and':
            return o_and([(lambda x=x: self.fsm(x, model)) for x in m['xs']])
        if k == 'or':
            return o_or([(lambda x=x: self.fsm(x, model)) for x in m['xs']])
        if k == 'sel':
            return self._fsm(m['m'], Model(model.root, model.rec, model.prunes, model.sels + (m['fm'],)))
        if k == 'prune':
            return self._fsm(m['m'], Model(model.root, model.rec, model.prunes + (m['fm'],), model.sels))
        if k == 'empty':
            return of_bool(len(self.files(model)) == 0)
        if k == 'numfiles':
            return of_bool(INT_OPS[m['op']](len(self.files(model)), m['n']))
        if k in ('every', 'any'):
            vals = [self.fm(m['fm'], model.root + f) for f in self.files(model)]
            return o_all_unordered(vals) if k == 'every' else o_any_unordered(vals)
        if k == 'matches':
            present = set(self.files(model))
            by_name = {}
            order = []
            for name, fm in m['fc']:
                key = tuple(name.split('/'))
                if key not in by_name:
                    by_name[key] = []
                    order.append(key)
                if fm is not None:
                    by_name[key].append(fm)
            items = []
            for key in order:
                if key not in present:
                    items.append(ONLY_F)
                else:
                    fms = by_name[key]
                    if fms:
                        items.append(o_and([(lambda x=x, key=key: self.fm(x, model.root + key)) for x in fms]))
                    else:
                        items.append(ONLY_T)
            if m.get('full'):
                items.append(of_bool(all(f in by_name for f in present)))
            return o_all_unordered(items)
        raise ValueError('unknown files-matcher ' + k)

    # ---- file-matcher ----------------------------------------------------------------------------
    def abs_paths(self, access):
        """Candidates for "the absolute path" of the file at access path `access`."""
        tree = self.tree
        cands = set()
        cands.add('/'.join((self.abs_prefix,) + tuple(access)))
        if access:
            parent = tree.resolve(access[:-1])
            if parent is not None:
                cands.add('/'.join((self.abs_prefix,) + parent[1] + (access[-1],)))
        full = tree.resolve(access)
        if full is not None:
            cands.add('/'.join((self.abs_prefix,) + full[1]))
        return cands

    def fm(self, m, access):
        """`access`: access path (tuple) from the tree root of an existing directory entry."""
        tree = self.tree
        k = m['k']
        if k == 'const':
            return of_bool(m['v'])
        if k == 'par':
            return self.fm(m['x'], access)
        if k == 'not':
            return o_not(self.fm(m['x'], access))
        if k == 'and':
            return o_and([(lambda x=x: self.fm(x, access)) for x in m['xs']])
        if k == 'or':
            return o_or([(lambda x=x: self.fm(x, access)) for x in m['xs']])
        if k == 'type':
            if m['v'] == 'symlink':
                node, _ = tree.lstat(access)
                return of_bool(node is not None and node[0] == 'l')
            kind = tree.kind_followed(access)
            return of_bool(kind == {'file': 'f', 'dir': 'd'}[m['v']])
        if k in ('name', 'stem', 'suffix', 'suffixes', 'path'):
            if k == 'path':
                subjects = self.abs_paths(access)
            else:
                name = access[-1] if access else self.abs_prefix.rsplit('/', 1)[1]
                subjects = {name_part(name, k)}
            res = set()
            for s in subjects:
                if 'glob' in m:
                    res.add(T if glob_to_regex(m['glob']).fullmatch(s) else F)
                else:
                    rx = re.compile(m['re'], re.I if m.get('ic') else 0)
                    res.add(T if rx.search(s) else F)
                    res.add(T if rx.fullmatch(s) else F)  # the manual does not say which
            return frozenset(res)
        if k == 'contents':
            r = tree.resolve(access)
            if r is None or r[0][0] != 'f':
                return ONLY_H
            return self.tm(m['tm'], r[0][1])
        if k == 'dircontents':
            r = tree.resolve(access)
            if r is None or r[0][0] != 'd':
                return ONLY_H
            return self.fsm(m['m'], Model(tuple(access), m.get('rec')))
        raise ValueError('unknown file-matcher ' + k)

    # ---- text-matcher (small subset) -------------------------------------------------------------
    def tm(self, m, text):
        k = m['k']
        if k == 'not':
            return o_not(self.tm(m['x'], text))
        if k == 'empty':
            return of_bool(text == '')
        if k == 'equals':
            return of_bool(text == m['s'])
        if k == 'numlines':
            return of_bool(INT_OPS[m['op']](num_lines(text), m['n']))
        raise ValueError('unknown text-matcher ' + k)


def uses(m, kinds):
    """Does matcher AST `m` (any level) use one of the node kinds?"""
    if isinstance(m, dict):
        if m.get('k') in kinds:
            return True
        return any(uses(v, kinds) for v in m.values())
    if isinstance(m, list):
        return any(uses(v, kinds) for v in m)
    return False


def collect_kinds(m, out):
    if isinstance(m, dict):
        if 'k' in m:
            out.add(m['k'])
        for v in m.values():
            collect_kinds(v, out)
    elif isinstance(m, list):
        for v in m:
            collect_kinds(v, out)
    return out
