"""C18 reference side: reading an error report of `exactly FILE` (the documented layout of `exactly help case spec`
/ the outcome table), checking the quoted location against the files, and judging INTEGER / REGEX / replacement /
range arguments with Python itself (the manual defines them as "Python syntax").

Independent of the code under test (only the standard library).
"""
import os
import re

# "Summary of exit codes and identifiers" (exactly help case spec), cf. props/c02_outcome.py
TABLE = {
    'FAIL': 32, 'FILE_ACCESS_ERROR': 65, 'HARD_ERROR': 128, 'INTERNAL_ERROR': 129, 'PASS': 0,
    'PRE_PROCESS_ERROR': 65, 'SKIPPED': 0, 'SYNTAX_ERROR': 65, 'VALIDATION_ERROR': 65, 'XFAIL': 33, 'XPASS': 33,
}
# what a mistake in the text of a case may end as (the property statement): never INTERNAL_ERROR
MISTAKE_IDENTS = ('SYNTAX_ERROR', 'VALIDATION_ERROR', 'FILE_ACCESS_ERROR')

_PHASE_RE = re.compile(r'^In \[([a-z-]+)\]$')
_LOC_RE = re.compile(r'^(?:(.+), )?line (\d+)$')
INDENT = '  '


def file_lines(text):
    """the lines of a case file as a reader with universal newlines sees them (Exactly reads text files the default
    way; a line is what `\\n` ends)"""
    t = text.replace('\r\n', '\n').replace('\r', '\n')
    lines = t.split('\n')
    if lines and lines[-1] == '':
        lines.pop()
    return lines


def parse_report(err):
    """-> {'phase', 'chain': [[file|None, line, [source lines]], ...], 'actor': str|None, 'actor_source': [...],
    'rest': [...]}.  chain[-1] is the location of the error; the ones before it are `including` lines."""
    lines = err.split('\n')
    i = 0
    out = {'phase': None, 'chain': [], 'actor': None, 'actor_source': [], 'rest': []}
    if lines and _PHASE_RE.match(lines[0]):
        out['phase'] = _PHASE_RE.match(lines[0]).group(1)
        i = 1
        while i < len(lines) and lines[i] == '':
            i += 1
    if i < len(lines) and lines[i].startswith('Actor "'):
        out['actor'] = lines[i]
        i += 1
        while i < len(lines) and lines[i] == '':
            i += 1
        while i < len(lines) and lines[i].startswith(INDENT):
            out['actor_source'].append(lines[i][len(INDENT):])
            i += 1
    else:
        while i < len(lines):
            m = _LOC_RE.match(lines[i])
            if not m:
                break
            i += 1
            src = []
            while i < len(lines) and lines[i].startswith(INDENT):
                src.append(lines[i][len(INDENT):])
                i += 1
            out['chain'].append([m.group(1), int(m.group(2)), src])
        if out['chain'] and not out['chain'][-1][2]:
            if i < len(lines) and lines[i] == '':
                i += 1
            src = []
            while i < len(lines) and lines[i].startswith(INDENT):
                src.append(lines[i][len(INDENT):])
                i += 1
            out['chain'][-1][2] = src
    out['rest'] = lines[i:]
    return out


def check_location(rep, files, main='t.case'):
    """problems (list of str) with the location a report quotes; files: name (relative to the case's directory) ->
    text.  Every (file, line) must exist and the quoted source must be the lines of that file starting there."""
    problems = []
    for k, (fname, n, src) in enumerate(rep['chain']):
        name = os.path.normpath(fname) if fname is not None else main
        if name not in files:
            problems.append('quoted file %r is not a file of the case' % fname)
            continue
        fl = file_lines(files[name])
        if not (1 <= n <= max(1, len(fl))):
            problems.append('%s has %d lines, the report says line %d' % (name, len(fl), n))
            continue
        if not src:
            problems.append('no source quoted for %s line %d' % (name, n))
            continue
        actual = fl[n - 1:n - 1 + len(src)]
        if len(actual) < len(src):
            actual = actual + ['<END OF FILE>'] * (len(src) - len(actual)) if fl else ['']
        for j, (a, b) in enumerate(zip(actual, src)):
            # the last quoted line may be cut where the parser stopped (the report quotes the source consumed up
            # to the error, right-stripped): a non-empty prefix of the line is a true quotation of it
            # the first quoted line starts at the instruction (the indentation of the line is not quoted)
            if j == 0:
                a, b = a.lstrip(), b.lstrip()
                if a != b and b and a.endswith(b) and a[:len(a) - len(b)].rstrip().endswith('`'):
                    a = b  # a description (`text`, maybe begun on an earlier line) in front of the instruction is not quoted
            same = a == b or (a.strip() == '' and b.strip() == '') or \
                   (j == len(src) - 1 and b.strip() != '' and a.startswith(b.rstrip()))
            if not same:
                problems.append('%s line %d is %r, the report quotes %r' % (name, n + j, a, b))
                break
    return problems


def check_actor_source(rep, files, main='t.case'):
    """act phase reports quote the lines of the act phase without a number: each must be a line of the file"""
    # the report is printed line by line: a character that Python takes as a line boundary (form feed, U+2028, ...)
    # inside an act phase line shows as a line break in the quotation
    fl = set(l.strip() for f in files.values() for l in file_lines(f))
    fl |= set(p.strip() for f in files.values() for p in f.splitlines())
    # `help act`: at the first non-space characters of an act phase line, backslash + `[` stands for `[` and two
    # backslashes stand for one
    fl |= set(l[1:] for l in list(fl) if l.startswith('\\[') or l.startswith('\\\\'))
    return ['act phase report quotes %r which is not a line of the case' % s
            for s in rep['actor_source'] if s.strip() not in fl and s.strip() != '']


# ---- tracebacks -------------------------------------------------------------------------------------------------------
_FRAME_RE = re.compile(r'^\s*File "([^"]+)", line (\d+), in (\S+)')


def traceback_summary(text):
    """-> None | {'type': exception type name, 'message', 'frames': [(path relative to exactly_lib | abs path, func)],
    'innermost_exactly': (path, func) | None}"""
    if 'Traceback (most recent call last)' not in text:
        return None
    frames = []
    for line in text.split('\n'):
        m = _FRAME_RE.match(line)
        if m:
            path = m.group(1)
            k = path.find('exactly_lib/')
            frames.append((path[k:] if k >= 0 else path, m.group(3)))
    typ, msg = None, ''
    for line in reversed(text.rstrip().split('\n')):
        m = re.match(r'^([A-Za-z_][\w.]*)(?::\s?(.*))?$', line)
        if m and not line.startswith(' '):
            typ, msg = m.group(1), m.group(2) or ''
            break
    inner = None
    for f in frames:
        if f[0].startswith('exactly_lib/'):
            inner = f
    return {'type': typ, 'message': msg, 'frames': frames, 'innermost_exactly': inner}


# ---- values -------------------------------------------------------------------------------------------------------------
def int_class(s):
    """'int' | 'nonint' | 'raises:<ExceptionType>' - the manual: "An expression using Python syntax. The expression
    must evaluate to an integer (a Python int)".  Only ever called with strings of the fixed vocabulary."""
    try:
        v = eval(s, {})
    except BaseException as ex:  # noqa
        t = type(ex)
        # IndentationError etc. are SyntaxErrors, UnicodeError is a ValueError, ...
        for base in (SyntaxError, ValueError, TypeError, NameError):
            if issubclass(t, base):
                return 'raises:' + base.__name__
        return 'raises:' + t.__name__
    return 'int' if isinstance(v, int) else 'nonint'


def regex_invalid(s, ignore_case=False):
    try:
        re.compile(s, re.IGNORECASE if ignore_case else 0)
        return False
    except re.error:
        return True
    except (RecursionError, OverflowError):
        return True


def template_invalid(template, regex='a'):
    """does Python refuse the replacement string for the pattern? (None: the pattern itself is invalid)"""
    try:
        pat = re.compile(regex)
    except re.error:
        return None
    try:
        pat.sub(template, 'a\n')
        return False
    except (re.error, IndexError):
        return True


def range_invalid(s):
    """LINE-NUMBER-RANGE: INTEGER | :INTEGER | INTEGER: | INTEGER:INTEGER ("INTEGER must not contain ':'")"""
    parts = s.split(':')
    if len(parts) > 2:
        return True
    if len(parts) == 2 and parts[0] == '' and parts[1] == '':
        return True
    for p in parts:
        if p == '' and len(parts) == 2:
            continue
        if int_class(p) != 'int':
            return True
    return False


# ---- document structure (for the defect model of KF-C18-5) ----------------------------------------------------------------
PHASE_ORDER = ['conf', 'setup', 'act', 'before-assert', 'assert', 'cleanup']
_HEADER_RE = re.compile(r'^\s*\[([a-z-]+)\]\s*$')
_HEREDOC_RE = re.compile(r'(?:^|\s)<<([0-9a-zA-Z_-]+)\s*$')


def phase_of_lines(text):
    """-> list (one entry per line of file_lines(text)): the phase the line belongs to ('act' before the first
    header - the default phase of a case), or None for a phase header line.  The lines of a here-document belong to
    the instruction that starts it, whatever they look like."""
    out = []
    phase = 'act'
    marker = None
    for line in file_lines(text):
        if marker is not None:
            out.append(phase)
            if line == marker:
                marker = None
            continue
        m = _HEADER_RE.match(line)
        if m and m.group(1) in PHASE_ORDER:
            phase = m.group(1)
            out.append(None)
            continue
        out.append(phase)
        h = _HEREDOC_RE.search(line)
        if h and phase != 'act':
            marker = h.group(1)
    return out
