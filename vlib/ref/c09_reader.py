"""C09 - an independent reader of the documented string syntax.

Written from the built-in manual (`help syntax STRING`, `RICH-STRING`, `LIST`, `PROGRAM-ARGUMENT`,
`TEXT-SOURCE`, `SYMBOL-REFERENCE`, `SYMBOL-NAME`, `help concept symbol`), not from the implementation; it does
not import exactly_lib and does not use `shlex`.

Two parts:

* `next_token(src, pos, ws)` - the tokenizer: a token is a maximal run of adjacent fragments (naked characters,
  "soft quoted", 'hard quoted'), tokens are separated by whitespace, there is no escape character, an opening
  quote without a closing one is an error.
* `Reader` - reads a RICH-STRING / LIST / PROGRAM-ARGUMENT list / TEXT-SOURCE at a position of a source text and
  gives the denoted string(s); the hosts (`def string`, `file`, `def list`, `%`, `run ( % ... )`, ...) are read by
  `read_host`.

Readings that the manual leaves open (every one of them is accepted by the check, but one reading is applied to
the whole case):

* `ws_extra`  the manual says "whitespace" without saying which characters these are.  Reading A: blank, tab, CR,
              LF.  Readings B(U): these plus a set U of further Unicode white-space characters (NO-BREAK SPACE,
              FORM FEED, LINE SEPARATOR, ...).  Under B(U) the characters of U separate tokens, are blank at the
              end of a line and are removed around TEXT-UNTIL-END-OF-LINE; under A they are ordinary characters.
              (A line always ends at LF only.)
* `eol_uni`   "Whitespace at both ends is removed" (`:>`): the white space of the reading, or every Unicode
              white-space character.
* `xref`, `strict`  see the check's ASSUMPTIONS.
"""
import re

ASCII_WS = ' \t\r\n'
WHITESPACE = ASCII_WS
# every further character that is white space for `str.isspace` / `str.strip` (Unicode White_Space plus the
# information separators FS GS RS US, which Python counts too)
UNICODE_WS = ''.join(chr(c) for c in
                     [0x0b, 0x0c, 0x1c, 0x1d, 0x1e, 0x1f, 0x85, 0xa0, 0x1680] + list(range(0x2000, 0x200b)) +
                     [0x2028, 0x2029, 0x202f, 0x205f, 0x3000])
ALL_WS = ASCII_WS + UNICODE_WS
NAKED, SOFT, HARD = 'n', 's', 'h'
QUOTE_OF = {'"': SOFT, "'": HARD}
RESERVED = ('(', ')', '[', ']', '{', '}', '=', '|', ':', '!', '&&', '||')
REF_RE = re.compile(r'@\[(\w+)\]@')  # SYMBOL-NAME: "a combination of alphanumeric characters and underscores"
HEREDOC_RE = re.compile(r'<<([0-9a-zA-Z_-]+)')
TEXT_UNTIL_EOL = ':>'
CONTINUATION = '\\'
TRANSFORMED_BY = '-transformed-by'
UNSUPPORTED_OPTIONS = ('-existing-file', '-existing-dir', '-existing-path')
UNSUPPORTED_TEXT_SOURCE_OPTIONS = ('-contents-of', '-stdout-from', '-stderr-from')


class Tok:
    __slots__ = ('kind', 'start', 'end', 'frags', 'vsrc')

    def __init__(self, kind, start, end=None, frags=None):
        self.kind = kind  # 'tok' | 'null' | 'err'
        self.start = start
        self.end = end
        self.frags = frags or []
        self.vsrc = None  # the source text of the token

    @property
    def string(self):
        return ''.join(t for _, t in self.frags)

    @property
    def all_naked(self):
        return all(k == NAKED for k, _ in self.frags)

    def as_list(self):
        return [self.kind, self.start, self.end, [list(f) for f in self.frags]]


def next_token(src: str, pos: int, ws: str = ASCII_WS) -> Tok:
    """The first token that starts at or after `pos`."""
    n = len(src)
    i = pos
    while i < n and src[i] in ws:
        i += 1
    if i >= n:
        return Tok('null', n, n)
    start = i
    frags = []
    while i < n:
        c = src[i]
        if c in ws:
            break
        if c in QUOTE_OF:
            j = src.find(c, i + 1)
            if j < 0:
                return Tok('err', start, n, frags)
            frags.append((QUOTE_OF[c], src[i + 1:j]))
            i = j + 1
        else:
            j = i
            while j < n and src[j] not in ws and src[j] not in QUOTE_OF:
                j += 1
            frags.append((NAKED, src[i:j]))
            i = j
    return Tok('tok', start, i, frags)


def tokenize(src: str, ws: str = ASCII_WS):
    """All tokens of `src` (the last entry is the 'null' or 'err' token)."""
    out = []
    pos = 0
    while True:
        t = next_token(src, pos, ws)
        out.append(t)
        if t.kind != 'tok':
            return out
        pos = t.end


def line_end(src: str, pos: int) -> int:
    j = src.find('\n', pos)
    return len(src) if j < 0 else j


def split_refs(text: str):
    """-> list of ('lit', str) / ('ref', name)"""
    out = []
    last = 0
    for m in REF_RE.finditer(text):
        if m.start() > last:
            out.append(('lit', text[last:m.start()]))
        out.append(('ref', m.group(1)))
        last = m.end()
    if last < len(text):
        out.append(('lit', text[last:]))
    return out


class SyntaxErr(Exception):
    pass


class ValidationErr(Exception):
    pass


class Unsupported(Exception):
    """The source uses something this reader does not model (the generators avoid it)."""


class Reader:
    def __init__(self, src, pos, symbols, ws_extra='', eol_uni=False, xref=False, strict=False):
        self.src = src
        self.pos = pos
        self.symbols = symbols  # name -> ('string', str) | ('list', [str]) | ('path', str)
        self.ws = ASCII_WS + ws_extra  # what separates tokens, and what is blank at the end of a line
        self.line_ws = self.ws
        self.eol_ws = ALL_WS if eol_uni else self.ws  # what is removed around TEXT-UNTIL-END-OF-LINE
        self.xref = xref
        self.strict = strict
        self._head = None
        self._head_pos = None
        self.invalid = False  # a reference that cannot be resolved was met (reported after the syntax is read)

    # ---- cursor ----------------------------------------------------------
    def head(self) -> Tok:
        if self._head is None or self._head_pos != self.pos:
            t = next_token(self.src, self.pos, self.ws)
            if t.kind == 'tok':
                t.vsrc = self.src[t.start:t.end]
            self._head = t
            self._head_pos = self.pos
        return self._head

    def rest_of_line(self) -> str:
        return self.src[self.pos:line_end(self.src, self.pos)]

    def at_eol(self) -> bool:
        return self.rest_of_line().strip(self.line_ws) == ''

    def at_end(self) -> bool:
        return self.pos >= len(self.src)

    def consume(self) -> Tok:
        t = self.head()
        self.pos = t.end
        return t

    def to_line_end(self):
        self.pos = line_end(self.src, self.pos)

    def to_next_line(self):
        self.pos = min(len(self.src), line_end(self.src, self.pos) + 1)

    # ---- token classification ---------------------------------------------
    @staticmethod
    def is_plain(t: Tok) -> bool:
        """Is the token an unquoted word (so that it can be a reserved word, a marker, a plain reference)?"""
        return t.all_naked

    def is_plain_word(self, t: Tok, word: str) -> bool:
        return t.kind == 'tok' and t.all_naked and t.string == word

    def is_option(self, t: Tok, option: str) -> bool:
        return t.kind == 'tok' and t.all_naked and t.vsrc == option

    def require_token(self) -> Tok:
        t = self.head()
        if t.kind == 'null':
            raise SyntaxErr('missing argument')
        if t.kind == 'err':
            raise SyntaxErr('no closing quotation')
        return t

    # ---- values -------------------------------------------------------------
    def render_symbol(self, name: str) -> str:
        if name not in self.symbols:
            self.invalid = True
            return ''
        typ, val = self.symbols[name]
        if typ == 'list':
            return ' '.join(val)
        return val

    def subst(self, text: str) -> str:
        return ''.join(v if k == 'lit' else self.render_symbol(v) for k, v in split_refs(text))

    def token_value(self, t: Tok) -> str:
        parts = []
        for k, text in t.frags:
            if k == HARD:
                parts.append([HARD, text])
            elif self.xref and parts and parts[-1][0] != HARD:
                parts[-1][1] += text  # reading "references are looked for in the concatenated string"
            else:
                parts.append([k, text])
        return ''.join(text if k == HARD else self.subst(text) for k, text in parts)

    def sole_reference(self, t: Tok):
        if t.kind == 'tok' and t.all_naked:
            m = REF_RE.fullmatch(t.string)
            if m:
                return m.group(1)
        return None

    def check_reserved(self, t: Tok):
        if t.string in RESERVED:
            if t.all_naked:
                raise SyntaxErr('reserved word')
            if self.strict and any(k == NAKED for k, _ in t.frags):
                # "to use any of them as a string, it must be quoted": partly quoted is open to both readings
                raise SyntaxErr('reserved word, partly quoted')

    # ---- grammar ----------------------------------------------------------------
    def string_(self) -> str:
        t = self.require_token()
        self.check_reserved(t)
        v = self.token_value(t)
        self.consume()
        return v

    @staticmethod
    def is_heredoc_start(t: Tok) -> bool:
        return t.kind == 'tok' and t.all_naked and t.vsrc.startswith('<<')

    def here_doc(self) -> str:
        t = self.head()
        m = HEREDOC_RE.fullmatch(t.string)
        if not m:
            raise SyntaxErr('not a here document')
        marker = m.group(1)
        self.consume()
        if not self.at_eol():
            raise SyntaxErr('superfluous after here document start')
        self.to_next_line()
        lines = []
        while not self.at_end():
            line = self.rest_of_line()
            if line == marker:
                self.to_line_end()
                return self.subst(''.join(l + '\n' for l in lines))
            lines.append(line)
            self.to_next_line()
        raise SyntaxErr('end marker not found')

    def text_until_eol(self) -> str:
        self.consume()
        text = self.rest_of_line().strip(self.eol_ws)
        self.to_line_end()
        return self.subst(text)

    def rich_string(self) -> str:
        t = self.require_token()
        if self.is_heredoc_start(t):
            return self.here_doc()
        if self.is_plain_word(t, TEXT_UNTIL_EOL):
            return self.text_until_eol()
        return self.string_()

    def element(self, rich: bool):
        """-> list of strings (a list reference gives any number of elements)"""
        t = self.require_token()
        if rich:
            if self.is_heredoc_start(t):
                return [self.here_doc()]
            if self.is_plain_word(t, TEXT_UNTIL_EOL):
                return [self.text_until_eol()]
            if any(self.is_option(t, o) for o in UNSUPPORTED_OPTIONS):
                raise Unsupported(t.string)
        name = self.sole_reference(t)
        if name is not None:
            self.consume()
            if name not in self.symbols:
                self.invalid = True
                return []
            typ, val = self.symbols[name]
            return list(val) if typ == 'list' else [val]
        return [self.string_()]

    def list_(self, rich: bool):
        elements = []
        while not self.at_eol():
            if self.rest_of_line().strip(self.line_ws) == CONTINUATION:
                self.to_next_line()
                continue
            t = self.head()
            if self.is_plain_word(t, ')'):
                break
            elements.extend(self.element(rich))
        if self.at_eol():
            self.to_line_end()
        return elements

    def text_source(self) -> str:
        """TEXT-SOURCE limited to: [(] (SYMBOL-REFERENCE | RICH-STRING) [-transformed-by char-case -to-upper] [)]"""
        paren = False
        t = self.require_token()
        if self.is_plain_word(t, '('):
            self.consume()
            paren = True
            t = self.require_token()
        if any(self.is_option(t, o) for o in UNSUPPORTED_TEXT_SOURCE_OPTIONS):
            raise Unsupported(t.string)
        name = self.sole_reference(t)
        if name is not None and not self.is_heredoc_start(t):
            typ = self.symbols.get(name, ('string', ''))[0]
            if typ != 'string' and self.strict:
                # TEXT-SOURCE: "SYMBOL-REFERENCE: a reference to a symbol defined as either text-source or string";
                # STRING: "a naked SYMBOL-REFERENCE (in most places)" - readings: strict / not strict
                self.invalid = True
            self.consume()
            v = self.render_symbol(name)
        else:
            v = self.rich_string()
        t = self.head()
        if self.is_option(t, TRANSFORMED_BY):
            self.consume()
            for w in ('char-case', '-to-upper'):
                t = self.head()
                if not self.is_plain_word(t, w):
                    raise Unsupported('transformer')
                self.consume()
            v = v.upper()
        if paren:
            t = self.head()
            if not self.is_plain_word(t, ')'):
                raise SyntaxErr('missing )')
            self.consume()
        return v

    def require_eol(self):
        if not self.at_eol():
            raise SyntaxErr('superfluous arguments')


STRING_HOSTS = ('defstr', 'file', 'deftsrc', 'fileapp', 'env', 'stdin', 'pstdin', 'equals')
LIST_HOSTS = ('deflist', 'args', 'act', 'runargs', 'symargs', 'argspar')


def read_host(host: str, src: str, pos: int, symbols: dict, **modes):
    """Reads the argument part of the host instruction that starts at `pos`.

    -> (outcome, end position) ; outcome = ['str', s] | ['list', [s...]] | ['syntax'] | ['validation'] |
    ['unsupported']
    """
    r = Reader(src, pos, symbols, **modes)
    oc, end = _read_host(r, host)
    if r.invalid and oc[0] in ('str', 'list'):
        # syntax is checked for the whole instruction first, then the references
        oc = ['validation']
    return oc, end


def _read_host(r: Reader, host: str):
    try:
        if host == 'defstr':
            v = r.rich_string()
            r.require_eol()
            return ['str', v], r.pos
        if host == 'fname':
            pos0 = r.pos
            # PATH without RELATIVITY: FILE-NAME is a STRING (a token that looks like an option is not modelled)
            t = r.require_token()
            if t.vsrc.lstrip(ALL_WS).startswith('-'):
                raise Unsupported('option-like file name')  # PATH: [RELATIVITY-OPTION] FILE-NAME
            for m in REF_RE.finditer(r.src[pos0:]):
                # (anywhere behind: which token is the file name depends on the reading, and a token may span lines)
                if r.symbols.get(m.group(1), ('string', ''))[0] != 'string':
                    raise Unsupported('list / path symbol in a file name')
            v = r.string_()
            r.require_eol()
            return ['str', v], r.pos
        if host in ('file', 'deftsrc', 'fileapp', 'env', 'stdin', 'pstdin', 'equals'):
            v = r.text_source()
            r.require_eol()
            return ['str', v], r.pos
        if host == 'deflist':
            v = r.list_(False)
            r.require_eol()
            return ['list', v], r.pos
        if host in ('args', 'act', 'runargs', 'symargs'):
            v = r.list_(True)
            r.require_eol()
            return ['list', v], r.pos
        if host == 'argspar':
            v = r.list_(True)
            t = r.head()
            if not r.is_plain_word(t, ')'):
                raise SyntaxErr('missing )')
            r.consume()
            r.require_eol()
            return ['list', v], r.pos
        raise ValueError(host)
    except SyntaxErr:
        return ['syntax'], r.pos
    except ValidationErr:
        return ['validation'], r.pos
    except Unsupported:
        return ['unsupported'], r.pos
