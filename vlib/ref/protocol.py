"""Invariants of the phased execution protocol (property C01) over a recorded trace.

Pure Python, no import of exactly_lib.  Input: the fault plan and the observation produced by
vlib/protocol_harness.run_plan.  Output: list of (bucket, message) violations (empty = all invariants hold).

The invariants are the ones the property states; they deliberately do not fix the relative order of the
validation steps of different phases beyond "symbols, then pre-sandbox validation, before any main step".
"""

STEP_NAME = {'main': '9:main', 'sym': '1:validate-symbols', 'pre': '2:validate-pre-sds',
             'post': '3:validate-post-setup', 'parse': '0:act-parse', 'exe-input': '4:act-validate-exe-input',
             'prepare': '5:act-prepare', 'execute': '6:act-execute'}
LINE_BASE = {'conf': 100, 'setup': 200, 'act': 300, 'before-assert': 400, 'assert': 500, 'cleanup': 600}
KIND_STATUS = {'VE': 'VALIDATION_ERROR', 'HE': 'HARD_ERROR', 'HEX': 'HARD_ERROR', 'EXC': 'INTERNAL_ERROR',
               'KEYERR': 'INTERNAL_ERROR', 'FAIL': 'FAIL', 'SYNTAX': 'SYNTAX_ERROR'}
PRE_SANDBOX_STEPS = {'parse', 'sym', 'pre'}
INSTR_PHASES = ['setup', 'before-assert', 'assert', 'cleanup']


def _is_main(rec):
    return (rec[0] in ('setup', 'before-assert', 'assert') and rec[1] == 'main') or \
           (rec[0] == 'act' and rec[1] == 'execute')


def expected_previous_phase(first_failure, act_only):
    """Which phase "ran last" before cleanup, from where forward progress stopped."""
    if first_failure is None:
        return 'ACT' if act_only else 'ASSERT'
    ph, step = first_failure[0], first_failure[1]
    if ph == 'act' and step == 'execute':
        return 'ACT'
    if ph == 'before-assert' and step == 'main':
        return 'BEFORE_ASSERT'
    if ph == 'assert' and step == 'main':
        return 'ASSERT'
    if ph == 'cleanup':
        return 'ACT' if act_only else 'ASSERT'
    return 'SETUP'


def check(plan, obs):
    v = []
    n = plan['n']
    status = plan['status']
    act_only = bool(plan.get('act_only'))
    faults = {(f[0], f[1], f[2]): f[3] for f in plan['faults']}
    trace = obs['trace']

    def add(bucket, msg):
        v.append((bucket, msg))

    if obs.get('exception'):
        add('exception-escaped-executor', obs['exception'])
        return v

    keys = [(r[0], r[1], r[2]) for r in trace]
    # no step of an instruction runs twice
    seen = set()
    for k in keys:
        if k in seen:
            add('step-executed-twice', 'step %s recorded twice' % (k,))
        seen.add(k)
    failing_positions = [i for i, k in enumerate(keys) if k in faults]
    first_fail_pos = failing_positions[0] if failing_positions else None
    first_fail = keys[first_fail_pos] if failing_positions else None

    # ---- conf phase and SKIP -------------------------------------------------
    conf_recs = [k for k in keys if k[0] == 'conf']
    non_conf = [k for k in keys if k[0] != 'conf']
    if conf_recs != keys[:len(conf_recs)]:
        add('conf-not-first', 'conf records are not a prefix of the trace')
    conf_fail = [k for k in conf_recs if k in faults]
    exp_conf = []
    for i in range(n['conf']):
        exp_conf.append(('conf', 'main', i))
        if ('conf', 'main', i) in faults:
            break
    if conf_recs != exp_conf:
        add('conf-sequence', 'conf records %s, expected %s' % (conf_recs, exp_conf))
    if conf_fail:
        if non_conf:
            add('executed-after-conf-failure', 'records after a failing conf instruction: %s' % non_conf[:4])
        _check_result_names(v, plan, obs, [conf_fail[0]], faults, status)
        if obs.get('has_sds'):
            add('sandbox-after-conf-failure', 'a sandbox exists although [conf] failed')
        return v
    if status == 'SKIP':
        if non_conf:
            add('executed-although-skip', 'records under status SKIP: %s' % non_conf[:4])
        if obs.get('status') != 'SKIPPED':
            add('skip-verdict', 'status SKIP gave %s' % obs.get('status'))
        if obs.get('has_sds'):
            add('sandbox-although-skip', 'sandbox under SKIP')
        return v

    # ---- 1. validation before any post-sandbox step ----------------------------
    post_sandbox_positions = [i for i, k in enumerate(keys) if k[0] != 'conf' and k[1] not in PRE_SANDBOX_STEPS]
    if post_sandbox_positions:
        first_post = post_sandbox_positions[0]
        before = set(keys[:first_post])
        required = [('act', 'parse', 0), ('act', 'sym', 0), ('act', 'pre', 0)]
        for ph in INSTR_PHASES:
            for i in range(n[ph]):
                required.append((ph, 'sym', i))
                required.append((ph, 'pre', i))
        missing = [k for k in required if k not in before]
        if missing:
            add('main-before-validation', 'step %s ran before validation steps %s'
                % (keys[first_post], missing[:4]))
        late = [k for k in keys[first_post:] if k[1] in PRE_SANDBOX_STEPS]
        if late:
            add('validation-after-sandbox', 'pre-sandbox validation steps after a post-sandbox step: %s' % late[:4])
    sym_pos = [i for i, k in enumerate(keys) if k[1] == 'sym']
    pre_pos = [i for i, k in enumerate(keys) if k[1] == 'pre']
    if sym_pos and pre_pos and max(sym_pos) > min(pre_pos):
        add('symbols-after-pre-sds', 'a symbol validation step ran after a pre-sds validation step')
    parse_pos = [i for i, k in enumerate(keys) if k[1] == 'parse']
    if parse_pos and (sym_pos + pre_pos) and parse_pos[0] > min(sym_pos + pre_pos) and \
            keys[min(sym_pos + pre_pos)][0] == 'act':
        add('act-validated-before-parse', 'act validated before parsed')
    # within a phase and step: file order
    for ph in INSTR_PHASES + ['act']:
        for step in ('sym', 'pre', 'post', 'main'):
            idxs = [k[2] for k in keys if k[0] == ph and k[1] == step]
            if idxs != list(range(len(idxs))):
                add('instructions-out-of-order', '%s/%s executed for indices %s' % (ph, step, idxs))

    # ---- 2. main steps: fixed order, prefix ------------------------------------------
    full = [('setup', 'main', i) for i in range(n['setup'])] + [('act', 'execute', 0)]
    if not act_only:
        full += [('before-assert', 'main', i) for i in range(n['before-assert'])]
        full += [('assert', 'main', i) for i in range(n['assert'])]
    mains = [k for k in keys if _is_main(list(k))]
    if mains != full[:len(mains)]:
        add('main-order', 'main records %s are not a prefix of %s' % (mains, full))
    # post-setup validation, exe-input, prepare: after every setup main, before act execute
    mids = [i for i, k in enumerate(keys) if k[1] in ('post', 'exe-input', 'prepare')]
    if mids:
        setup_main_pos = [i for i, k in enumerate(keys) if k == ('setup', 'main', n['setup'] - 1)] if n['setup'] else []
        last_setup = setup_main_pos[0] if setup_main_pos else -1
        if n['setup'] and not setup_main_pos:
            add('post-setup-before-setup-finished', 'post-setup step although setup main did not finish')
        if min(mids) < last_setup:
            add('post-setup-before-setup-finished', 'post-setup step before the last setup main')
        exe_pos = [i for i, k in enumerate(keys) if k == ('act', 'execute', 0)]
        if exe_pos and max(mids) > exe_pos[0]:
            add('post-setup-after-act', 'post-setup validation / prepare after act execute')
        if any(k[0] == 'cleanup' and k[1] == 'post' for k in keys):
            pass  # harmless: the cleanup phase has no post-setup validation in the protocol; not demanded

    # ---- 3. halt at first failure -----------------------------------------------------
    if first_fail_pos is not None:
        after = keys[first_fail_pos + 1:]
        if first_fail[1] in PRE_SANDBOX_STEPS:
            if after:
                add('executed-after-validation-failure', 'after failing %s: %s' % (first_fail, after[:4]))
        else:
            bad = [k for k in after if not (k[0] == 'cleanup' and k[1] == 'main')]
            if bad:
                add('forward-progress-after-failure', 'after failing %s: %s' % (first_fail, bad[:4]))
    else:
        # no failure: everything must have run
        if mains != full:
            add('incomplete-without-failure', 'no step failed but main records are %s' % mains)
        exp_mid = []
        for ph in (('setup',) if act_only else ('setup', 'before-assert', 'assert')):
            exp_mid += [(ph, 'post', i) for i in range(n[ph])]
        exp_mid += [('act', 'post', 0), ('act', 'prepare', 0)]
        miss = [k for k in exp_mid if k not in seen]
        if miss:
            add('post-setup-validation-skipped', 'missing %s' % miss[:4])

    # ---- 4. sandbox and cleanup -----------------------------------------------------------
    sandbox_expected = first_fail is None or first_fail[1] not in PRE_SANDBOX_STEPS
    if bool(obs.get('has_sds')) != sandbox_expected:
        add('sandbox-existence', 'has_sds=%s, expected %s' % (obs.get('has_sds'), sandbox_expected))
    cl = [r for r in trace if r[0] == 'cleanup' and r[1] == 'main']
    if not sandbox_expected:
        if cl:
            add('cleanup-without-sandbox', 'cleanup main ran although no sandbox was created')
    else:
        exp_cl = []
        for i in range(n['cleanup']):
            exp_cl.append(i)
            if ('cleanup', 'main', i) in faults:
                break
        got = [r[2] for r in cl]
        if got != exp_cl:
            add('cleanup-not-exactly-once', 'cleanup main indices %s, expected %s (first failure: %s)'
                % (got, exp_cl, first_fail))
        if cl:
            first_cl = keys.index(('cleanup', 'main', cl[0][2]))
            non_cl_after = [k for k in keys[first_cl:] if not (k[0] == 'cleanup' and k[1] == 'main')]
            if non_cl_after:
                add('cleanup-not-last', 'records after cleanup started: %s' % non_cl_after[:4])
            non_cleanup_failure = first_fail if (first_fail and first_fail[0] != 'cleanup') else None
            exp_prev = expected_previous_phase(non_cleanup_failure, act_only)
            prevs = sorted({r[3]['prev'] for r in cl})
            if prevs != [exp_prev]:
                add('previous-phase', 'cleanup was told %s, expected %s (first failure %s)'
                    % (prevs, exp_prev, non_cleanup_failure))
            if not all(r[3].get('sds_exists') for r in cl):
                add('sandbox-gone-before-cleanup', 'sandbox directory missing during cleanup')

    # ---- 5. result ------------------------------------------------------------------------------
    executed_failures = [keys[i] for i in failing_positions]
    _check_result_names(v, plan, obs, executed_failures, faults, status)
    return v


def _check_result_names(v, plan, obs, executed_failures, faults, status):
    def add(bucket, msg):
        v.append((bucket, msg))

    got_status = obs.get('status')
    failure = obs.get('failure')
    if not executed_failures:
        exp = {'PASS': 'PASS', 'FAIL': 'XPASS', 'SKIP': 'SKIPPED'}[status]
        if plan.get('act_only') and status == 'FAIL':
            exp = 'XPASS'
        if got_status != exp:
            add('verdict-without-failure', 'no step failed; verdict %s, expected %s' % (got_status, exp))
        if failure is not None:
            add('failure-info-without-failure', 'failure info %s although nothing failed' % failure)
        return
    if got_status in ('PASS', 'XPASS', 'SKIPPED'):
        add('failure-masked', 'steps %s failed but the verdict is %s' % (executed_failures, got_status))
        return
    # the earliest failing step, or a failing cleanup step, may be named
    candidates = [executed_failures[0]] + [k for k in executed_failures[1:] if k[0] == 'cleanup']
    ok = False
    for k in candidates:
        kind = faults[k]
        exp_status = KIND_STATUS[kind]
        if exp_status == 'FAIL' and status == 'FAIL':
            exp_status = 'XFAIL'
        exp_fail = {'phase': k[0], 'step': STEP_NAME[k[1]],
                    'line': None if k[0] == 'act' else LINE_BASE[k[0]] + k[2] + (1 if k[0] == 'conf' else 0)}
        if failure is None:
            continue
        f = dict(failure)
        if k[0] == 'act':
            f['line'] = None
        if got_status == exp_status and f == exp_fail:
            ok = True
            break
    if not ok:
        add('result-names-wrong-step', 'verdict %s / failure %s; failing steps in order: %s (kinds %s)'
            % (got_status, failure, executed_failures, [faults[k] for k in executed_failures]))
