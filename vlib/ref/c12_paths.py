"""C12 reference model: what a PATH denotes, where it is accepted, and what the instructions using it do.

Independent of exactly_lib.  Written from the built-in manual:
  `help syntax PATH`                 RELATIVITY, FILE-NAME, "If FILE-NAME is an absolute path, then RELATIVITY must not
                                     be given", "-rel-cd ... evaluated when it is REFERENCED", leading path symbol
  `help concept "sandbox directory structure"`, `... "home directory structure"`, `... "current directory"`
  `help <phase> file|dir|copy|cd|def`, `help assert exists|contents|dir-contents`,
  `help syntax TEXT-SOURCE|PROGRAM|PROGRAM-ARGUMENT|FILES-SOURCE`, `help actor command line`
                                     the "Accepted relativities (default is ...)" tables, transcribed in SITES below
                                     (props/c12_paths.py sub-check manual_agrees compares them with the help text)

Absolute directories are written with place holders so that the model is independent of the work dir:
  {HOME}           the home *area* of the workspace (case dir, redirected home dirs, included files)
  {ROOT}/absarea   a directory outside the sandbox and outside the home area
  {SB}             the sandbox root (known after the run, printed by --keep)
"""

PHASES = ['setup', 'before-assert', 'assert', 'cleanup']
POST_ACT = ('before-assert', 'assert', 'cleanup')
KINDS = ['home', 'act-home', 'act', 'tmp', 'result', 'cd']
OPTION = {'home': '-rel-home', 'act-home': '-rel-act-home', 'act': '-rel-act', 'tmp': '-rel-tmp',
          'result': '-rel-result', 'cd': '-rel-cd', 'here': '-rel-here'}
MANUAL_NAME = {'home': 'home directory', 'act-home': 'act-home directory', 'act': 'act directory',
               'tmp': 'tmp directory', 'result': 'result directory', 'cd': 'current directory'}
BUILTINS = {'EXACTLY_HOME': 'home', 'EXACTLY_ACT_HOME': 'act-home', 'EXACTLY_ACT': 'act', 'EXACTLY_TMP': 'tmp',
            'EXACTLY_RESULT': 'result'}

_READ = ['home', 'act-home', 'act', 'tmp', 'cd']
_DEST = ['act', 'tmp', 'cd']

# site -> default relativity, accepted options, options accepted in addition after [act],
#         'maybe*' = the manual's generic page and the instruction's behaviour cannot be compared (undocumented):
#         both acceptance (with correct resolution) and rejection are accepted by the oracle
SITES = {
    'file': dict(default='cd', acc=_DEST, post=[], maybe_post=[], abs_ok=False, dest=True),
    'dir': dict(default='cd', acc=_DEST, post=[], maybe_post=[], abs_ok=False, dest=True),
    'copy_dst': dict(default='cd', acc=_DEST, post=[], maybe_post=[], abs_ok=False, dest=True),
    'copy_src': dict(default='home', acc=_READ, post=['result'], maybe_post=[], abs_ok=True, dest=False),
    'cd': dict(default='cd', acc=_DEST, post=['result'], maybe_post=[], abs_ok=True, dest=False),
    'exists': dict(default='cd', acc=_READ, post=[], maybe_post=[], abs_ok=True, dest=False),
    'contents': dict(default='cd', acc=_READ, post=[], maybe_post=[], abs_ok=True, dest=False),
    'dir-contents': dict(default='cd', acc=['act-home', 'act', 'tmp', 'cd'], post=[], maybe_post=[], abs_ok=True,
                         dest=False),
    # TEXT-SOURCE -contents-of: the generic syntax page lists no -rel-result; the phase specific pages of the
    # instructions that take a TEXT-SOURCE do not repeat the table -> result after [act] is 'maybe'
    'contents_of': dict(default='home', acc=_READ, post=[], maybe_post=['result'], abs_ok=True, dest=False),
    # FILES-SOURCE dir-contents-of PATH: the manual gives no relativity table at all
    'dir_contents_of': dict(default=None, acc=[], post=[], maybe_post=[], maybe=KINDS, abs_ok=True, dest=False),
    # `stdin = -contents-of PATH` ([setup]) and `-stdin -contents-of PATH` of a PROGRAM: TEXT-SOURCE as above
    'stdin': dict(default='home', acc=_READ, post=[], maybe_post=[], abs_ok=True, dest=False),
    'pgm_stdin': dict(default='home', acc=_READ, post=[], maybe_post=['result'], abs_ok=True, dest=False),
    'existing': dict(default='home', acc=_READ, post=[], maybe_post=[], abs_ok=True, dest=False),
    'exe': dict(default='home', acc=_READ, post=[], maybe_post=[], abs_ok=True, dest=False),
    'act_exe': dict(default='act-home', acc=_READ, post=[], maybe_post=[], abs_ok=True, dest=False),
    # actor "file interpreter": `[conf] actor = file ACT-INTERPRETER`, `[act] FILE ...`
    'act_file': dict(default='act-home', acc=_READ, post=[], maybe_post=[], abs_ok=True, dest=False),
    'act_interp': dict(default='home', acc=['home', 'act-home'], post=[], maybe_post=[], abs_ok=True, dest=False),
    'def': dict(default='cd', acc=KINDS, post=[], maybe_post=[], abs_ok=True, dest=False),
}
ASSERT_ONLY = ('exists', 'contents', 'dir-contents')
X_SITE = {'ts': 'contents_of', 'pg': 'exe', 'fs': 'dir_contents_of'}  # typed symbols that hold a PATH
X_TYPE = {'ts': 'text-source', 'pg': 'program', 'fs': 'files-source'}
# Reading of the property for an absolute FILE-NAME *without* RELATIVITY given to a destination argument (directly or
# as the value of a string symbol): True = it must be rejected like a path symbol with an absolute value (acceptance
# is the defect KF-C12-2); False = it is valid usage and names that absolute path.
ABS_DEST_REJECTED = True
DEST_SITES = ('file', 'dir', 'copy_dst')

# where `help` shows each table: site -> list of (help argv, name of the argument the table belongs to)
MANUAL_PAGES = {
    'file': [(['help', p, 'file'], 'PATH') for p in PHASES],
    'dir': [(['help', p, 'dir'], 'PATH') for p in PHASES],
    'copy_dst': [(['help', p, 'copy'], 'DESTINATION') for p in PHASES],
    'copy_src': [(['help', p, 'copy'], 'SOURCE') for p in PHASES],
    'cd': [(['help', p, 'cd'], 'PATH') for p in PHASES],
    'def': [(['help', p, 'def'], 'PATH') for p in PHASES],
    'exists': [(['help', 'assert', 'exists'], 'PATH')],
    'contents': [(['help', 'assert', 'contents'], 'PATH')],
    'dir-contents': [(['help', 'assert', 'dir-contents'], 'PATH')],
    'contents_of': [(['help', 'syntax', 'TEXT-SOURCE'], 'SOURCE-FILE-PATH')],
    'stdin': [(['help', 'syntax', 'TEXT-SOURCE'], 'SOURCE-FILE-PATH')],
    'pgm_stdin': [(['help', 'syntax', 'TEXT-SOURCE'], 'SOURCE-FILE-PATH')],
    'existing': [(['help', 'syntax', 'PROGRAM-ARGUMENT'], 'PATH-OF-EXISTING')],
    'exe': [(['help', 'syntax', 'PROGRAM'], 'PATH')],
    'act_exe': [(['help', 'actor', 'command', 'line'], None)],
    'act_file': [(['help', 'actor', 'file', 'interpreter'], None)],
    'act_interp': [(['help', 'syntax', 'ACT-INTERPRETER'], None)],
}


def accepted(site, phase):
    """-> dict kind -> True | 'maybe' | 'unlisted'   (kind 'abs' = an absolute path / a symbol whose value is absolute)
    True      the help page of the argument lists the relativity: it must be accepted and resolve correctly
    'maybe'   the manual has no table for the cell: acceptance with correct resolution or rejection
    'unlisted' READING argument, relativity not listed on its help page: the property restricts only arguments that
              designate a file or directory to create or modify, so rejection before execution and acceptance with
              the correct resolution are both fine (the regular generator never uses these cells)
    missing   destination argument (or def): must be rejected"""
    conf = SITES[site]
    acc = {k: True for k in conf['acc']}
    for k in conf.get('maybe', []):
        acc[k] = 'maybe'
    if phase in POST_ACT:
        for k in conf['post']:
            acc[k] = True
        for k in conf['maybe_post']:
            acc[k] = 'maybe'
    if conf['abs_ok']:
        acc['abs'] = True
    if not conf['dest'] and site != 'def':
        for k in KINDS + ['here']:
            acc.setdefault(k, 'unlisted')
    return acc


def unaccepted(acc, kinds):
    """the kinds of `kinds` that the argument does not list as accepted (must / may be rejected)"""
    return [k for k in kinds if acc.get(k) in (None, 'unlisted')]


# ---- layout of the work space ------------------------------------------------------------------------------
CASE_DIR = 'cs'
HOME_DIRS = ['cs', 'cs/hd', 'hd2']  # conf['home'] = 0 (not set), 1 (`home = hd`), 2 (`home = ../hd2`)
ACT_HOME_DIRS = ['cs', 'cs/ahd', 'hd2']  # conf['act_home'] likewise: `act-home = ahd`, `act-home = ../hd2`
HOME_CONF_TEXT = [None, 'hd', '../hd2']
ACT_HOME_CONF_TEXT = [None, 'ahd', '../hd2']
INC_DIR = 'cs/inc'
DEEP_DIR = 'cs/inc/deep'
HERE_DIRS = [CASE_DIR, INC_DIR, DEEP_DIR]  # def op 'inc' = 0: in the case file, 1: in inc/dN.xly, 2: in inc/deep/dN.xly
H_BASES = ['cs', 'cs/hd', 'cs/ahd', 'hd2', 'cs/inc', 'cs/inc/deep']
X_BASES = ['']
SB_BASES = ['act', 'tmp', 'act/w1', 'act/w1/w3', 'tmp/w2', 'result']
CD_BASES = ['act', 'tmp', 'act/w1', 'act/w1/w3', 'tmp/w2']  # directories that hold the whole fixture tree T
AREA_PREFIX = {'H': '{HOME}', 'X': '{ROOT}/absarea', 'SB': '{SB}'}
# only in bases that are never a current directory: sources for `copy SRC` without DESTINATION
EXTRA_BASES = {('H', b) for b in H_BASES} | {('X', ''), ('SB', 'result')}


def _j(a, b):
    if not a:
        return b
    if not b:
        return a
    return a + '/' + b


def loc_label(area, rel):
    return {'H': 'H', 'X': 'X', 'SB': 'S'}[area] + ':' + rel


def fixture():
    """-> dict (area, rel) -> ['d'] | ['f', content]; identical in the model and on disk.
    Every base holds the same tree T; the content of every file names its own location."""
    tree = {}
    for area, bases in (('H', H_BASES), ('X', X_BASES), ('SB', SB_BASES)):
        for b in bases:
            if b:
                parts = b.split('/')
                for i in range(1, len(parts) + 1):
                    tree.setdefault((area, '/'.join(parts[:i])), ['d'])

            def f(rel, content=None):
                p = _j(b, rel)
                tree[(area, p)] = ['f', loc_label(area, p) if content is None else content]

            def d(rel):
                p = _j(b, rel)
                tree[(area, p)] = ['d']
                tree[(area, _j(p, tag_name(area, p)))] = ['f', '']

            tree[(area, _j(b, tag_name(area, b)))] = ['f', '']
            f('f1')
            d('d1')
            f('d1/f2')
            d('d1/d2')
            f('d1/d2/f3')
            f('d1/a b')
            for x in EXES:  # executable at every level of T
                f(x, "#!/bin/sh\nprintf %s '" + loc_label(area, _j(b, x)) + "'\n")
            if (area, b) in EXTRA_BASES:
                f('g1')
                d('gd')
                f('gd/g2')
    tree[('SB', 'tmp/o')] = ['d']
    return tree


EXES = ('x1', 'd1/x2', 'd1/d2/x3')


def is_exe(rel):
    return rel.rsplit('/', 1)[-1] in ('x1', 'x2', 'x3')


def tag_name(area, rel):
    return 'tg.' + {'H': 'H', 'X': 'X', 'SB': 'S'}[area] + '.' + rel.replace('/', '.').replace(' ', '_')


def exe_output(content):
    """stdout of a fixture script, given its content"""
    return content.split("'")[1]


# ---- path values -------------------------------------------------------------------------------------------
class PV:
    """kind in KINDS and abs None: root of kind / suffix.   kind 'abs': the absolute path `abs`.
    kind in KINDS and abs set: defect model only - declared relativity `kind`, but resolves to `abs`."""
    __slots__ = ('kind', 'suffix', 'abs', 'depth', 'cwd0', 'irr')

    def __init__(self, kind, suffix='', abs=None, depth=0, cwd0=None, irr=None):
        self.kind, self.suffix, self.abs, self.depth, self.cwd0 = kind, suffix, abs, depth, cwd0
        self.irr = irr  # made by an invalid usage (absolute FILE-NAME + RELATIVITY)

    def rel_kind(self):
        return self.kind

    def __repr__(self):
        return 'PV(%s,%r,%r)' % (self.kind, self.suffix, self.abs)


def is_abs(name):
    return name.startswith(('/', '{HOME}', '{ROOT}', '{SB}'))


def lexnorm(path):
    """Lexical normal form used to compare rendered paths: '.' and empty components dropped, '..' kept."""
    parts = [p for p in path.split('/') if p not in ('', '.')]
    return ('/' if path.startswith('/') else '') + '/'.join(parts)


def locate(abs_str):
    """absolute string with place holder prefix -> (area, rel) with '..' resolved (directories are real, no
    symbolic links in the fixture); None if the path leaves its area."""
    for area, pre in (('SB', '{SB}'), ('H', '{HOME}'), ('X', '{ROOT}/absarea')):
        if abs_str == pre or abs_str.startswith(pre + '/'):
            out = []
            for c in abs_str[len(pre):].split('/'):
                if c in ('', '.'):
                    continue
                if c == '..':
                    if not out:
                        return None
                    out.pop()
                else:
                    out.append(c)
            return area, '/'.join(out)
    return None


def abs_of(area, rel):
    return _j(AREA_PREFIX[area], rel)


class Reject(Exception):
    """The case must be rejected before execution.  how: 'syntax' | 'validation' | 'either' |
    'missing' (literal reading of an invalid usage: the named file does not exist below the root - an error at
    validation or execution time is the outcome)"""

    def __init__(self, how, why, kind=None):
        Exception.__init__(self, how, why)
        self.how, self.why, self.kind, self.site = how, why, kind, None


class Broken(Exception):
    """The case is outside the modelled domain (generator mistake)."""


class EvalInfo:
    __slots__ = ('maybe', 'irregular', 'unlisted')

    def __init__(self):
        self.maybe = False  # acceptance undocumented: rejection is acceptable too
        self.irregular = None  # 'abs+rel' | 'abs-dest'
        self.unlisted = None  # (site, kind): reading argument given a relativity its help page does not list


class State:
    """mode: 'literal' = the property read literally for invalid usage (root joined with the absolute FILE-NAME,
    i.e. below the root); 'bug' = the defect models KF-C12-1 (absolute FILE-NAME swallows the relativity) and
    KF-C12-2 (absolute FILE-NAME without RELATIVITY accepted as destination).
    `real` substitutes the place holders (needed only by mode 'literal')."""

    def __init__(self, conf, mode='literal', real=lambda s: s):
        self.mode, self.real = mode, real
        self.home = _j('{HOME}', HOME_DIRS[conf['home']])
        self.acthome = _j('{HOME}', ACT_HOME_DIRS[conf['act_home']])
        self.cwd = '{SB}/act'
        self.paths = {n: PV(k) for n, k in BUILTINS.items()}
        self.strs = {}
        self.str_pathref = set()  # string symbols whose value contains a reference to a path symbol
        self.xsyms = {}  # text-source / program / files-source symbols that hold a PATH: name -> (type, expr, phase, cwd)
        self.tree = fixture()
        self.maybe = False
        self._site = None
        self.unlisted = []
        self.irregular = []
        self.used = set()  # defect models that made a difference (mode 'bug')
        self.renders = {}  # id -> list of expected absolute strings
        self.cwds = {}
        self.act_stdout = None
        self.stdin = None  # (PV, content when the `stdin` instruction was executed)
        self.info = {}  # op index -> data the renderer needs (expected contents ...)
        self.uses = []  # one record per evaluated PATH (labels)

    # -- roots ---------------------------------------------------------------------------------------------
    def root(self, kind):
        if kind == 'home':
            return self.home
        if kind == 'act-home':
            return self.acthome
        if kind == 'cd':
            return self.cwd
        return '{SB}/' + kind

    def resolve(self, pv):
        """-> absolute string (place holders), not normalised"""
        if pv.abs is not None:
            return pv.abs
        return _j(self.root(pv.kind), pv.suffix)

    def locate(self, pv):
        path = self.resolve(pv)
        loc = locate(path)
        if loc is None:
            raise Broken('path leaves the modelled areas: %r' % (pv,))
        # `X/..` denotes the parent of X only if X is an existing directory (no symbolic links in the fixture):
        # anything else is a matter of the file system, not of path resolution - outside the domain
        if '..' in path:
            for area, pre in (('SB', '{SB}'), ('H', '{HOME}'), ('X', '{ROOT}/absarea')):
                if path == pre or path.startswith(pre + '/'):
                    out = []
                    for c in path[len(pre):].split('/'):
                        if c in ('', '.'):
                            continue
                        if c == '..':
                            if self.kind_at((area, '/'.join(out))) != 'd':
                                raise Broken("'..' after something that is not an existing directory: %s" % path)
                            out.pop()
                        else:
                            out.append(c)
                    break
        return loc

    # -- FILE-NAME -------------------------------------------------------------------------------------------
    def name_value(self, frags):
        out = ''
        for t, v in frags:
            if t == 'l':
                out += v
            else:
                if v not in self.strs:
                    raise Broken('undefined string symbol ' + v)
                out += self.strs[v]
        return out

    def _check_kind(self, pv, acc, info, sym):
        a = acc.get(pv.kind)
        if a is None:
            raise Reject('validation', 'symbol %s has relativity %s' % (sym, pv.kind), pv.kind)
        if a == 'unlisted':
            info.unlisted = (self._site, pv.kind)
        if a in ('maybe', 'unlisted'):
            info.maybe = True

    def _join(self, pv, name, info):
        """pv joined with a further FILE-NAME `name` (not starting with '/')"""
        if not name:
            return PV(pv.kind, pv.suffix, pv.abs, pv.depth + 1, pv.cwd0, pv.irr)
        if pv.abs is not None:
            return PV(pv.kind, pv.suffix, pv.abs + '/' + name, pv.depth + 1, pv.cwd0, pv.irr)
        return PV(pv.kind, _j(pv.suffix, name), None, pv.depth + 1, pv.cwd0, pv.irr)

    def eval(self, expr, site, phase, info=None):
        """-> PV ; raises Reject.  info collects 'maybe' / irregular-usage flags."""
        info = info or EvalInfo()
        try:
            pv = self._eval(expr, site, phase, info)
        except Reject as r:
            r.site = site
            raise
        if info.irregular:
            pv.irr = info.irregular
        elif pv.irr:
            info.irregular = pv.irr
        if pv.kind == 'cd' and pv.cwd0 is None:
            pv.cwd0 = self.cwd
        form = 'lead' if expr.get('lead') is not None else ('default' if expr.get('rel') is None else (
            'sym' if expr['rel'].startswith('sym:') else 'option'))
        self.uses.append({'site': site, 'phase': phase, 'kind': pv.kind, 'depth': pv.depth, 'form': form,
                          'refs': any(t == 's' for t, _ in expr['name']),
                          'cd_moved': pv.kind == 'cd' and pv.cwd0 != self.cwd})
        return pv

    def _eval(self, expr, site, phase, info):
        conf = SITES[site]
        acc = accepted(site, phase)
        self._site = site
        rel, lead, frags = expr.get('rel'), expr.get('lead'), expr['name']
        name = self.name_value(frags)
        const = all(t == 'l' for t, _ in frags)
        if any(t == 's' and v in self.str_pathref for t, v in frags):
            # the FILE-NAME is an absolute path that was made from a path symbol by string concatenation.
            # Destination: "a path symbol whose value is ... - however many symbol definitions it is routed through -
            # is rejected before execution".  Reading argument: the manual does not say whether a string that
            # refers to a path symbol may be (part of) a FILE-NAME -> resolution as written or rejection.
            if conf['dest'] or rel is not None or lead is not None:
                raise Reject('either', 'FILE-NAME made from a path symbol via a string symbol', 'strpath')
            info.maybe = True
        if lead is not None:
            if lead not in self.paths:
                raise Broken('undefined path symbol ' + lead)
            if rel is not None:
                # "If FILE-NAME begins with a reference to a path symbol, then it is an absolute path" +
                # "If FILE-NAME is an absolute path, then RELATIVITY must not be given"
                if rel in OPTION and acc.get(rel) is None and not (rel == 'here' and site == 'def'):
                    raise Reject('syntax', 'option %s not accepted' % rel)
                raise Reject('either', 'RELATIVITY given although FILE-NAME begins with a path symbol')
            if name and not name.startswith('/'):
                raise Broken('lead symbol must be followed by /')
            pv = self.paths[lead]
            self._check_kind(pv, acc, info, lead)
            return self._join(pv, name.lstrip('/'), info)
        if rel is None:
            if is_abs(name):
                if conf['abs_ok'] or not ABS_DEST_REJECTED:
                    return PV('abs', '', name)
                info.irregular = 'abs-dest'
                if self.mode == 'bug':
                    self.used.add('KF-C12-2')
                    return PV('abs', '', name)
                raise Reject('either', 'absolute FILE-NAME as destination')
            if conf['default'] is None:
                raise Broken('default relativity of %s is undocumented' % site)
            return PV(conf['default'], name)
        if rel.startswith('sym:'):
            sym = rel[4:]
            if sym not in self.paths:
                raise Broken('undefined path symbol ' + sym)
            base = self.paths[sym]
            if is_abs(name):
                info.irregular = 'abs+rel'
                if self.mode == 'bug':
                    self.used.add('KF-C12-1')
                    if const:
                        return PV('abs', '', name)
                    self._check_kind(base, acc, info, sym)
                    return PV(base.kind, base.suffix, name, base.depth + 1, base.cwd0, 'abs+rel')
                self._check_kind(base, acc, info, sym)
                return self._join(base, self.real(name).lstrip('/'), info)
            self._check_kind(base, acc, info, sym)
            return self._join(base, name, info)
        if rel == 'here':
            if site != 'def':
                if acc.get('here') != 'unlisted':
                    raise Reject('syntax', '-rel-here outside def', 'here')
                info.maybe = True
                info.unlisted = (site, 'here')
            here = _j('{HOME}', HERE_DIRS[int(expr.get('_inc') or 0)])
            if is_abs(name):
                info.irregular = 'abs+rel'
                if self.mode == 'bug':
                    self.used.add('KF-C12-1')
                    return PV('abs', '', name)
                return PV('abs', '', _j(here, self.real(name).lstrip('/')))
            return PV('abs', '', _j(here, name))
        if rel not in KINDS:
            raise Broken('unknown relativity %r' % (rel,))
        a = acc.get(rel)
        if a is None:
            raise Reject('syntax', 'option %s not accepted' % rel, rel)
        if a == 'unlisted':
            info.unlisted = (site, rel)
        if a in ('maybe', 'unlisted'):
            info.maybe = True
        if is_abs(name):
            info.irregular = 'abs+rel'
            if self.mode == 'bug':
                self.used.add('KF-C12-1')
                if const:
                    return PV('abs', '', name)
                return PV(rel, '', name)
            return PV(rel, self.real(name).lstrip('/'))
        return PV(rel, name)

    # -- tree helpers ------------------------------------------------------------------------------------------
    def kind_at(self, loc):
        if loc[1] == '':
            return 'd'
        e = self.tree.get(loc)
        return e[0] if e else None

    def children(self, loc):
        pre = loc[1] + '/' if loc[1] else ''
        return [k for k in self.tree if k[0] == loc[0] and k[1].startswith(pre) and k[1] != loc[1]]

    def _mkdirs(self, loc):
        area, rel = loc
        parts = rel.split('/') if rel else []
        for i in range(1, len(parts) + 1):
            k = (area, '/'.join(parts[:i]))
            e = self.tree.get(k)
            if e is None:
                self.tree[k] = ['d']
            elif e[0] != 'd':
                raise Broken('intermediate %r is a file' % (k,))

    def _parent(self, loc):
        return loc[0], loc[1].rsplit('/', 1)[0] if '/' in loc[1] else ''

    def copy_tree(self, src, dst):
        k = self.kind_at(src)
        if k is None:
            raise Broken('copy source %r does not exist' % (src,))
        if self.kind_at(dst) is not None:
            raise Broken('copy destination %r exists' % (dst,))
        if dst[0] == src[0] and (dst[1] == src[1] or dst[1].startswith(src[1] + '/') or src[1] == ''):
            raise Broken('copy of %r into itself' % (src,))
        if k == 'd' and src[0] == 'H' and src[1] in ('', CASE_DIR, INC_DIR, DEEP_DIR):
            raise Broken('%r holds the files of the test case itself' % (src,))
        self._mkdirs(self._parent(dst))
        if k == 'f':
            self.tree[dst] = list(self.tree[src])
        else:
            self.tree[dst] = ['d']
            for c in self.children(src):
                self.tree[(dst[0], _j(dst[1], c[1][len(src[1]) + 1 if src[1] else 0:]))] = list(self.tree[c])

    # -- operations ----------------------------------------------------------------------------------------------
    def apply(self, i, op):
        k, ph = op['k'], op.get('ph')
        info = EvalInfo()
        n_used = len(self.used)
        try:
            self._apply(i, op, k, ph, info)
        except Broken as b:
            if (info.irregular and self.mode == 'literal') or (self.mode == 'bug' and len(self.used) > n_used) \
                    or info.unlisted:
                # the literal reading of an invalid usage (or what a defect model accepts, or a reading argument
                # that accepts a relativity it does not list) names a file that does not exist / cannot be made
                raise Reject('missing', str(b))
            raise
        finally:
            if info.maybe:
                self.maybe = True
            if info.unlisted:
                self.unlisted.append(info.unlisted)
            if info.irregular:
                self.irregular.append(info.irregular)

    def _apply(self, i, op, k, ph, info):
        if k == 'defstr':
            if op.get('pref'):
                # def string S = "@[P]@<val>": the string holds the rendered (absolute) value of the path symbol P
                pv = self.paths.get(op['pref'])
                if pv is None or pv.kind == 'cd':
                    raise Broken('string over path symbol: %r' % (op['pref'],))
                self.strs[op['name']] = self.resolve(pv) + op['val']
                self.str_pathref.add(op['name'])
            elif op.get('sref'):
                # def string S2 = "@[S1]@<val>"
                if op['sref'] not in self.strs:
                    raise Broken('undefined string symbol ' + op['sref'])
                self.strs[op['name']] = self.strs[op['sref']] + op['val']
                if op['sref'] in self.str_pathref:
                    self.str_pathref.add(op['name'])
            else:
                self.strs[op['name']] = op['val']
        elif k == 'def':
            e = dict(op['expr'])
            e['_inc'] = int(op.get('inc') or 0)
            self.paths[op['name']] = self.eval(e, 'def', ph, info)
        elif k == 'cd':
            pv = self.eval(op['expr'], 'cd', ph, info)
            loc = self.locate(pv)
            if self.kind_at(loc) != 'd':
                raise Broken('cd target %r is not a directory' % (loc,))
            self.cwd = abs_of(*loc)
            self.cwds[i] = self.cwd
        elif k == 'render':
            for s in op['syms']:
                if s not in self.paths:
                    raise Broken('undefined path symbol ' + s)
            self.renders[i] = [self.resolve(self.paths[s]) for s in op['syms']]
            for s in op['syms']:
                pv = self.paths[s]
                if pv.irr:
                    info.irregular = pv.irr
                self.uses.append({'site': 'render', 'phase': ph, 'kind': pv.kind, 'depth': pv.depth, 'form': 'ref',
                                  'refs': False, 'cd_moved': pv.kind == 'cd' and pv.cwd0 != self.cwd})
            if op['how'] == 'file':
                self.tree[('SB', 'tmp/o/%d' % i)] = ['r', list(self.renders[i])]
        elif k == 'file':
            pv = self.eval(op['expr'], 'file', ph, info)
            loc = self.locate(pv)
            form = op['form']
            if form == 'append':
                if self.kind_at(loc) != 'f':
                    raise Broken('append target %r is not a file' % (loc,))
                self.tree[loc] = ['f', self.tree[loc][1] + 'N%d' % i]
            else:
                if self.kind_at(loc) is not None:
                    raise Broken('file target %r exists' % (loc,))
                if self.kind_at(self._parent(loc)) != 'd':
                    raise Broken('parent of %r does not exist' % (loc,))
                self.tree[loc] = ['f', '' if form == 'empty' else 'N%d' % i]
        elif k == 'dir':
            pv = self.eval(op['expr'], 'dir', ph, info)
            loc = self.locate(pv)
            form = op['form']
            if form == 'add':
                if self.kind_at(loc) != 'd':
                    raise Broken('dir += target %r is not a directory' % (loc,))
            else:
                if self.kind_at(loc) is not None:
                    raise Broken('dir target %r exists' % (loc,))
                self._mkdirs(loc)
            if form in ('add', 'with'):
                c = (loc[0], _j(loc[1], 'n%d' % i))
                if self.kind_at(c) is not None:
                    raise Broken('%r exists' % (c,))
                self.tree[c] = ['f', 'N%d' % i]
        elif k == 'copy':
            src = self.locate(self.eval(op['src'], 'copy_src', ph, info))
            if self.kind_at(src) is None:
                raise Broken('copy source %r missing' % (src,))
            base = src[1].rsplit('/', 1)[-1]
            if op.get('dst') is None:
                dst = locate(_j(self.cwd, base))
            else:
                d = self.locate(self.eval(op['dst'], 'copy_dst', ph, info))
                dst = (d[0], _j(d[1], base)) if self.kind_at(d) == 'd' else d
                if self.kind_at(d) == 'f':
                    raise Broken('copy destination %r is a file' % (d,))
            if not base:
                raise Broken('copy source without base name')
            self.copy_tree(src, dst)
        elif k == 'defx':
            # def text-source|program|files-source X = ... PATH ...: "a symbol definition is evaluated each time it is
            # referenced" (help concept "current directory") - the PATH is parsed (accepted or not) where it is written
            site = X_SITE[op['type']]
            self.eval(op['expr'], site, ph, info)
            self.uses.pop()
            self.xsyms[op['name']] = (op['type'], op['expr'], ph, self.cwd)
        elif k == 'usex':
            if op['name'] not in self.xsyms:
                raise Broken('undefined symbol ' + op['name'])
            typ, expr, def_ph, def_cwd = self.xsyms[op['name']]
            site = X_SITE[typ]
            pv = self.eval(expr, site, def_ph, info)
            u = self.uses[-1]
            u['site'], u['phase'] = site, ph
            u['typed_symbol'] = True
            u['cd_moved'] = pv.kind == 'cd' and (def_cwd != self.cwd or (pv.cwd0 is not None and pv.cwd0 != self.cwd))
            loc = self.locate(pv)
            kind = self.kind_at(loc)
            out = ('SB', 'tmp/o/%d' % i)
            if kind is None:
                raise Broken('%s names missing %r' % (op['name'], loc))
            if typ == 'ts':
                self._need(kind, 'f', loc)
                self.tree[out] = ['f', self.tree[loc][1]]
            elif typ == 'pg':
                self._need(kind, 'f', loc)
                self.tree[out] = ['f', exe_output(self.tree[loc][1])]
            else:
                self._need(kind, 'd', loc)
                self.copy_tree(loc, out)
        elif k == 'read':
            site = op['site']
            pv = self.eval(op['expr'], site, ph, info)
            loc = self.locate(pv)
            kind = self.kind_at(loc)
            out = ('SB', 'tmp/o/%d' % i)
            if kind is None:
                raise Broken('%s of missing %r' % (site, loc))
            if site in ('contents_of', 'pgm_stdin'):
                self._need(kind, 'f', loc)
                self.tree[out] = ['f', self.tree[loc][1]]
            elif site == 'stdin':
                if ph != 'setup' or self.stdin is not None:
                    raise Broken('stdin: only once, only in [setup]')
                self._need(kind, 'f', loc)
                self.stdin = (pv, self.tree[loc][1])
            elif site == 'dir_contents_of':
                self._need(kind, 'd', loc)
                self.copy_tree(loc, out)
            elif site == 'existing':
                et = op.get('etype', 'p')
                if et != 'p':
                    self._need(kind, et, loc)
                self.tree[out] = ['r', [self.resolve(pv)]]
            elif site == 'exe':
                self._need(kind, 'f', loc)
                self.tree[out] = ['f', exe_output(self.tree[loc][1])]
            elif site in ('exists', 'contents'):
                if site == 'contents':
                    self._need(kind, 'f', loc)
                self.info[i] = (kind, self.tree[loc][1] if kind == 'f' else tag_of(self, loc))
            elif site == 'dir-contents':
                self._need(kind, 'd', loc)
                self.info[i] = ('d', tag_of(self, loc))
            else:
                raise Broken('unknown read site ' + site)
        else:
            raise Broken('unknown op ' + k)

    @staticmethod
    def _need(kind, want, loc):
        if kind != want:
            raise Broken('%r has type %s, wanted %s' % (loc, kind, want))

    def apply_act(self, act):
        k = act['k']
        if k == 'plain':
            self.act_stdout = None
            return
        if k == 'cat':
            # [act] copies its stdin to stdout.  The manual does not say whether the file named by `stdin` is read
            # when the instruction is executed or when [act] is: the domain is restricted to cases where both agree
            if self.stdin is None:
                self.act_stdout = ['f', '']
                return
            pv, text = self.stdin
            loc = self.locate(pv)
            if self.kind_at(loc) != 'f' or self.tree[loc][1] != text:
                raise Broken('the file given to stdin changed before [act]')
            self.act_stdout = ['f', text]
            return
        info = EvalInfo()
        n_used = len(self.used)
        try:
            if k in ('exe', 'file', 'interp'):
                # exe: [act] = PATH (actor command line); file: actor = file % sh, [act] = PATH of a shell script;
                # interp: actor = file PATH (a fixture script: prints its own location, ignores its argument)
                site = {'exe': 'act_exe', 'file': 'act_file', 'interp': 'act_interp'}[k]
                pv = self.eval(act['expr'], site, 'act', info)
                loc = self.locate(pv)
                self._need(self.kind_at(loc), 'f', loc)
                if not is_exe(loc[1]):
                    raise Broken('%r is not a script' % (loc,))
                self.act_stdout = ['f', exe_output(self.tree[loc][1])]
            elif k == 'arg':
                pv = self.eval(act['expr'], 'existing', 'act', info)
                loc = self.locate(pv)
                if self.kind_at(loc) is None:
                    raise Broken('act argument %r missing' % (loc,))
                self.act_stdout = ['r', [self.resolve(pv)]]
            else:
                raise Broken('unknown act ' + k)
        except Broken as b:
            if (info.irregular and self.mode == 'literal') or (self.mode == 'bug' and len(self.used) > n_used) \
                    or info.unlisted:
                raise Reject('missing', str(b))
            raise
        finally:
            if info.maybe:
                self.maybe = True
            if info.unlisted:
                self.unlisted.append(info.unlisted)
            if info.irregular:
                self.irregular.append(info.irregular)


def tag_of(st, loc):
    """what identifies the directory loc: ('tag', name of a file that exists directly in it and in no other
    directory) or ('n', number of direct children) for a directory made by the case itself"""
    t = tag_name(loc[0], loc[1])
    if (loc[0], _j(loc[1], t)) in st.tree:
        return 'tag', t
    pre = loc[1] + '/' if loc[1] else ''
    n = 0
    for k in st.tree:
        if k[0] == loc[0] and k[1].startswith(pre) and k[1] != loc[1] and '/' not in k[1][len(pre):]:
            n += 1
    return 'n', n


class Expected:
    __slots__ = ('reject', 'maybe', 'irregular', 'state', 'why', 'cell', 'unlisted')


def simulate(case, mode='literal', real=lambda s: s):
    """-> Expected.  reject: None | 'syntax' | 'validation' | 'either'."""
    st = State(case['conf'], mode, real)
    exp = Expected()
    exp.reject, exp.why, exp.cell = None, None, None
    ops = case['ops']
    last = -1
    act_done = False
    try:
        for i, op in enumerate(ops):
            pi = PHASES.index(op['ph'])
            if pi < last:
                raise Broken('ops are not ordered by phase')
            last = pi
            if pi >= 1 and not act_done:
                st.apply_act(case['act'])
                act_done = True
            st.apply(i, op)
        if not act_done:
            st.apply_act(case['act'])
    except Reject as r:
        exp.reject, exp.why = r.how, r.why
        exp.cell = (r.site, r.kind)
    exp.maybe = st.maybe
    exp.unlisted = list(st.unlisted)
    exp.irregular = list(st.irregular)
    exp.state = st
    return exp
