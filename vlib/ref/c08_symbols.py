"""C08 - reference interpreter of *symbol programs*.

Independent of the code under test (imports nothing from exactly_lib).  It is a transcription of
`exactly help concept symbol`, `help setup def`, `help syntax STRING|LIST|PATH|TEXT-SOURCE|PROGRAM|
PROGRAM-ARGUMENT|<each logic type>` and `help builtin`.

A program (the *case*) is a JSON value:

  case  = {'order': [5 phase names, file order], 'act': None | PROGRAM, 'items': {phase: [ITEM...]}}
  case['order'] may name an item phase more than once: the phase is then written in that many pieces,
  case['cuts'][phase] = the item indexes where a new piece begins (file order of the pieces = order of the items).
  ITEM  = {'k': 'def', 't': TYPE, 'n': NAME, 'v': VALUE}
        | {'k': 'file', 's': TEXT-SOURCE}            file uK.txt = TEXT-SOURCE
        | {'k': 'run', 'p': PROGRAM, 'bare': bool}   run PROGRAM  |  % ...  |  $ ...  (the instructions `%` and `$`)
        | {'k': 'dir', 's': FILES-SOURCE}            dir uK = FILES-SOURCE
        | {'k': 'env', 's': TEXT-SOURCE}             env C08_uK = TEXT-SOURCE
        | {'k': 'env', 's': TEXT-SOURCE, 'name': STR}   env "C08_STR" = TEXT-SOURCE   (NAME is a STRING)
        | {'k': 'stdin', 's': TEXT-SOURCE}           stdin = TEXT-SOURCE      (setup only)
        | {'k': 'timeout', 'i': STR}                 timeout = INTEGER
        | {'k': 'assert', 't': LOGIC-TYPE, 'e': EXPR}   (assert phase only; wrapped so that it always passes)
        | {'k': 'fileat', 'p': PATH, 's': TEXT-SOURCE}   file PATH/uK.txt = TEXT-SOURCE   (PATH argument of an instruction)
        | {'k': 'dirat', 'p': PATH}                      dir PATH/uK
        | {'k': 'nexists', 'p': PATH}                    exists ! PATH/uK              (assert phase only)
        | {'k': 'stop'}                                  $ false      (fails when executed: FAIL in [assert], else
                                                         HARD_ERROR; what follows is not executed - but [cleanup] is)
        | {'k': 'from', 'ch': 'exit-code'|'stdout', 'p': PROGRAM}   exit-code -from PROGRAM >= 0 | stdout -from PROGRAM
                                                         ! equals "<never>"            (assert phase only)

  STR   = {'q': 'n'|'s'|'h'|'t'|'d', 'f': [text | {'ref': NAME} ...]}   naked / soft quoted / hard quoted token /
          `:> TEXT-UNTIL-END-OF-LINE` / here-document (RICH-STRING positions only; literal '\n' pieces separate lines)
  LIST  = [STR...]
  PATH  = {'rel': None | OPTION-NAME | {'ref': NAME}, 'name': STR}
  EXPR  = {'ref': NAME, 'form': 'plain'|'special'} | {'lit': VARIANT} | {'op': 'not'|'paren', 'a': EXPR}
        | {'op': 'and'|'or'|'seq', 'a': EXPR, 'b': EXPR} | {'c': COMPOSITE, ...}     (per type, see _expr_refs)
  TEXT-SOURCE = {'c': 'str', 's': STR, 't': TT-EXPR|None} | {'ref': NAME, 't': TT-EXPR|None}
          | {'c': 'pgm', 'p': PROGRAM, 't': None}                      -stdout-from PROGRAM
          | {'c': 'contents-of', 'p': PATH, 't': TT-EXPR|None}         -contents-of PATH  (default relativity: home)
  PROGRAM = {'c': 'probe', 'o': PROBE-NAME, 'a': LIST, 'in': TEXT-SOURCE|None, 't': TT-EXPR|None}
          | {'c': 'symref', 'ref': NAME, 'a': LIST, 'in': ..., 't': ...}
          | {'c': 'shell', 'o': OUT-NAME, 's': STR, 'a': [], 'in': ..., 't': ...}   $ printf '%s|' "STR" >> OUT
  text-matcher / text-transformer / file-matcher have the composite {'c': 'run', 'p': PROGRAM} (last on its line).

What the manual says, as used here:

* one global name space; a name may be defined once, builtin names included (`help concept symbol`,
  `help setup def` NOTES, `help builtin`);
* a symbol is available to the instructions that follow the definition, in the phase of the definition and in the
  following phases - "following" is execution order: setup, act, before-assert, assert, cleanup (`help case spec`);
* a SYMBOL-REFERENCE is `@[NAME]@` wherever it appears in a string that is not hard quoted (decided on the *text* of
  the token here, so that adjacent literal pieces that happen to spell a reference count as one);
* type demanded by the context (ACCEPT below), transitively for the contexts that demand "strings only";
* values: string = concatenation; list element that is a naked reference to a list = its elements; list inside a
  string = elements separated by one space; path = absolute path.
"""
import re
from pathlib import PurePosixPath

DATA_TYPES = ['string', 'list', 'path']
LOGIC_TYPES = ['integer-matcher', 'line-matcher', 'file-matcher', 'files-matcher', 'files-condition',
               'files-source', 'text-source', 'text-matcher', 'text-transformer', 'program']
ALL_TYPES = DATA_TYPES + LOGIC_TYPES
EXEC_ORDER = ['setup', 'act', 'before-assert', 'assert', 'cleanup']
ITEM_PHASES = ['setup', 'before-assert', 'assert', 'cleanup']

# `help builtin`
BUILTIN_TYPES = {
    'NEW_LINE': 'string', 'OS_LINE_SEP': 'string', 'OS_PATH_SEP': 'string', 'TAB': 'string',
    'EXACTLY_ACT': 'path', 'EXACTLY_ACT_HOME': 'path', 'EXACTLY_HOME': 'path', 'EXACTLY_RESULT': 'path',
    'EXACTLY_TMP': 'path',
}
REL_OPTIONS = ['home', 'act-home', 'act', 'tmp', 'result', 'cd', 'here']  # -rel-<name>

_STRINGY = frozenset(DATA_TYPES)
# context kind -> directly accepted types.  'T:<type>' contexts accept exactly <type>.
ACCEPT = {
    'str': _STRINGY,  # reference inside a STRING (def string, list element text, program argument text, REGEX, ...)
    'elem': _STRINGY,  # a whole LIST element / PROGRAM-ARGUMENT that is a reference
    'ts': frozenset(['text-source', 'string']),  # a whole TEXT-SOURCE that is a reference
    'rel': frozenset(['path']),  # -rel NAME
    # contexts for which the program demands "strings only, transitively" while the manual's syntax pages
    # just say STRING: the reading (strict/lax) is calibrated, see props/c08_symbols.py
    'pathpfx': frozenset(['path', 'string']),  # FILE-NAME of a PATH that begins with a reference
    'pathcomp': frozenset(['string']),  # any other reference inside the FILE-NAME of a PATH
    'int': frozenset(['string']),  # INTEGER
    'fname': frozenset(['string']),  # FILE-NAME inside a FILES-SOURCE / FILES-CONDITION literal
    'envname': frozenset(['string']),  # NAME of `env NAME = VALUE` ("NAME: STRING")
}
STRICT_CONTEXTS = ['pathpfx', 'pathcomp', 'int', 'fname', 'envname']
DEFAULT_READING = {c: 'strict' for c in STRICT_CONTEXTS}


class _Unknown:
    def __repr__(self):
        return 'UNKNOWN'


UNKNOWN = _Unknown()

_REF_RE = re.compile(r'@\[([A-Za-z0-9_]+)\]@')


# --------------------------------------------------------------------------------------------------
# syntax level: fragments and references of every construct (textual order)
# --------------------------------------------------------------------------------------------------
def str_text(s) -> str:
    """The characters of the token (without quotes)."""
    return ''.join(fr if isinstance(fr, str) else '@[%s]@' % fr['ref'] for fr in s['f'])


def str_source_text(s) -> str:
    """The text that becomes the string: `:>` - "Whitespace at both ends is removed"; here-document - "Each LINE must
    end with new-line"."""
    text = str_text(s)
    if s['q'] == 't':
        return text.strip()
    if s['q'] == 'd':
        return text + '\n'
    return text


def str_frags(s):
    """-> list of ('l', text) | ('r', name): what the manual calls the SYMBOL-REFERENCEs appearing in the string."""
    text = str_source_text(s)
    if s['q'] == 'h':
        return [('l', text)] if text else []
    out = []
    pos = 0
    for m in _REF_RE.finditer(text):
        if m.start() > pos:
            out.append(('l', text[pos:m.start()]))
        out.append(('r', m.group(1)))
        pos = m.end()
    if pos < len(text):
        out.append(('l', text[pos:]))
    return out


def is_bare_ref(s):
    fr = str_frags(s)
    return s['q'] == 'n' and len(fr) == 1 and fr[0][0] == 'r'


def _str_refs(s, ctx='str'):
    return [(v, ctx) for k, v in str_frags(s) if k == 'r']


def _list_refs(lst):
    out = []
    for el in lst:
        out.extend(_str_refs(el, 'elem' if is_bare_ref(el) else 'str'))
    return out


def path_shape(p):
    """-> (kind, frags) kind: 'rel-sym' | 'rel-opt' | 'pfx' (begins with a reference that may be a path) | 'plain'
    plus 'odd' shapes for which manual and program may legitimately differ when the first reference is a path."""
    frags = str_frags(p['name'])
    rel = p['rel']
    if isinstance(rel, dict):
        return 'rel-sym', frags
    if rel is not None:
        return 'rel-opt', frags
    if frags and frags[0][0] == 'r':
        if len(frags) == 1 or (frags[1][0] == 'l' and frags[1][1].startswith('/')):
            return 'pfx', frags
        return 'odd-pfx', frags
    return 'plain', frags


def _path_refs(p):
    kind, frags = path_shape(p)
    out = []
    if kind == 'rel-sym':
        out.append((p['rel']['ref'], 'rel'))
    for i, (k, v) in enumerate(frags):
        if k == 'r':
            out.append((v, 'pathpfx' if (kind == 'pfx' and i == 0) else 'pathcomp'))
    return out


def _ts_refs(ts):
    out = []
    if ts.get('c') == 'pgm':
        return _program_refs(ts['p'])
    if ts.get('c') == 'contents-of':
        out.extend(_path_refs(ts['p']))
    elif 'ref' in ts:
        out.append((ts['ref'], 'ts'))
    else:
        s = ts['s']
        # a naked token that is exactly one reference is the SYMBOL-REFERENCE form of TEXT-SOURCE
        out.extend(_str_refs(s, 'ts' if is_bare_ref(s) else 'str'))
    if ts.get('t') is not None:
        out.extend(_expr_refs('text-transformer', ts['t']))
    return out


def _program_refs(p):
    out = []
    if p['c'] == 'symref':
        out.append((p['ref'], 'T:program'))
    elif p['c'] == 'shell':
        out.extend(_str_refs(p['s'], 'str'))
    out.extend(_list_refs(p['a']))
    if p.get('in') is not None:
        out.extend(_ts_refs(p['in']))
    if p.get('t') is not None:
        out.extend(_expr_refs('text-transformer', p['t']))
    return out


def _fs_refs(e):
    """files-source expression"""
    if 'c' not in e and 'ref' in e:
        return [(e['ref'], 'T:files-source')]
    if e.get('op') == 'paren':
        return _fs_refs(e['a'])
    assert e['c'] == 'set', e
    out = []
    for ent in e['e']:
        out.extend(_str_refs(ent['n'], 'fname'))
        if ent.get('s') is not None:
            out.extend(_ts_refs(ent['s']) if ent['k'] == 'file' else _fs_refs(ent['s']))
    return out


def _expr_refs(t, e):
    """References of an expression of logic type t."""
    if t == 'text-source':
        return _ts_refs(e)
    if t == 'program':
        return _program_refs(e)
    if t == 'files-source':
        return _fs_refs(e)
    if 'c' not in e and 'ref' in e:
        return [(e['ref'], 'T:' + t)]
    if 'lit' in e:
        return []
    if 'op' in e:
        out = _expr_refs(t, e['a'])
        if e['op'] in ('and', 'or', 'seq'):
            out = out + _expr_refs(t, e['b'])
        return out
    c = e['c']
    if c == 'run' and t in ('text-matcher', 'text-transformer', 'file-matcher'):
        return _program_refs(e['p'])
    if t == 'integer-matcher' and c == 'cmp':
        return _str_refs(e['i'], 'int')
    if t == 'line-matcher':
        if c == 'contents':
            return _expr_refs('text-matcher', e['m'])
        if c == 'line-num':
            return _expr_refs('integer-matcher', e['m'])
    if t == 'text-matcher':
        if c == 'equals':
            return _ts_refs(e['s'])
        if c == 'matches':
            return _str_refs(e['r'], 'str')
        if c == 'num-lines':
            return _expr_refs('integer-matcher', e['m'])
        if c == 'every-line':
            return _expr_refs('line-matcher', e['m'])
        if c == 'transformed':
            return _expr_refs('text-transformer', e['t']) + _expr_refs('text-matcher', e['m'])
    if t == 'text-transformer':
        if c == 'filter':
            return _expr_refs('line-matcher', e['m'])
        if c == 'replace':
            return _str_refs(e['r'], 'str') + _str_refs(e['s'], 'str')
    if t == 'file-matcher':
        if c == 'contents':
            return _expr_refs('text-matcher', e['m'])
        if c == 'dir-contents':
            return _expr_refs('files-matcher', e['m'])
        if c == 'name':
            return _str_refs(e['g'], 'str')
    if t == 'files-matcher':
        if c == 'num-files':
            return _expr_refs('integer-matcher', e['m'])
        if c == 'every-file':
            return _expr_refs('file-matcher', e['m'])
        if c == 'matches':
            return _expr_refs('files-condition', e['fc'])
        if c == 'selection':
            return _expr_refs('file-matcher', e['s']) + _expr_refs('files-matcher', e['m'])
    if t == 'files-condition' and c == 'set':
        out = []
        for name, fm in e['e']:
            out.extend(_str_refs(name, 'fname'))
            if fm is not None:
                out.extend(_expr_refs('file-matcher', fm))
        return out
    raise ValueError('unknown expression %r of type %s' % (e, t))


def with_leaf(p, leaf):
    """The PATH argument of a `fileat` / `dirat` / `nexists` item: the item's own file name is the last component
    (literal text appended to the FILE-NAME).  The references of the path are those of p."""
    name = p['name']
    return {'rel': p['rel'], 'name': {'q': name['q'], 'f': list(name['f']) + ['/' + leaf]}}


# `help setup file`, `help setup dir`, `help assert exists`: "Accepted relativities"; what a path symbol with another
# relativity means there is not said
ACCEPTED_ROOTS = {'fileat': frozenset(['act', 'tmp', 'cd']), 'dirat': frozenset(['act', 'tmp', 'cd']),
                  'nexists': frozenset(['home', 'act-home', 'act', 'tmp', 'cd'])}


def value_refs(t, v):
    if t == 'string':
        return _str_refs(v, 'str')
    if t == 'list':
        return _list_refs(v)
    if t == 'path':
        return _path_refs(v)
    return _expr_refs(t, v)


def item_refs(item):
    k = item['k']
    if k == 'def':
        return value_refs(item['t'], item['v'])
    if k == 'env' and item.get('name') is not None:
        return _str_refs(item['name'], 'envname') + _ts_refs(item['s'])
    if k in ('file', 'env', 'stdin'):
        return _ts_refs(item['s'])
    if k == 'timeout':
        return _str_refs(item['i'], 'int')
    if k in ('run', 'from'):
        return _program_refs(item['p'])
    if k == 'dir':
        return _fs_refs(item['s'])
    if k == 'assert':
        return _expr_refs(item['t'], item['e'])
    if k == 'fileat':
        return _path_refs(item['p']) + _ts_refs(item['s'])
    if k in ('dirat', 'nexists'):
        return _path_refs(item['p'])
    if k == 'stop':
        return []
    raise ValueError('unknown item kind %r' % (k,))


def normalise(case):
    """Keeps every case harmless whatever the generators' faults did to it: nothing is ever appended to a shell
    command line (arguments of a reference to a program that is - or may be - a shell command are dropped).
    Idempotent; the result is what is rendered, interpreted and run."""
    import copy
    case = copy.deepcopy(case)
    prog_defs = [it for ph in ITEM_PHASES for it in case['items'].get(ph, [])
                 if it.get('k') == 'def' and it.get('t') == 'program']
    shellish = set()
    changed = True
    while changed:
        changed = False
        for it in prog_defs:
            v = it['v']
            if it['n'] not in shellish and (v.get('c') == 'shell' or (v.get('c') == 'symref' and v.get('ref') in shellish)):
                shellish.add(it['n'])
                changed = True

    def walk(x):
        if isinstance(x, dict):
            if x.get('c') == 'shell' or (x.get('c') == 'symref' and x.get('ref') in shellish):
                x['a'] = []
            for k in sorted(x):
                walk(x[k])
        elif isinstance(x, list):
            for y in x:
                walk(y)

    walk(case['items'])
    walk(case.get('act'))
    return case


def usages(case):
    """-> [(phase, index-in-phase | None for act, item | None)] in *execution* order."""
    out = []
    for ph in EXEC_ORDER:
        if ph == 'act':
            if case.get('act') is not None:
                out.append(('act', None, None))
        else:
            for i, it in enumerate(case['items'].get(ph, [])):
                out.append((ph, i, it))
    return out


# --------------------------------------------------------------------------------------------------
# validation: one growing table, execution order
# --------------------------------------------------------------------------------------------------
class Entry:
    __slots__ = ('type', 'refs', 'phase', 'builtin', 'value', 'reach', 'root')

    def __init__(self, type_, refs, phase, builtin=False):
        self.type = type_
        self.refs = refs  # names referenced by the definition (directly)
        self.phase = phase
        self.builtin = builtin
        self.value = None
        self.reach = frozenset()  # names of the probes / shell outputs that using the value can run
        self.root = None  # path symbols: the RELATIVITY the path was defined with (transitively) | 'abs'


def _accepts(ctx, reading):
    if ctx.startswith('T:'):
        return frozenset([ctx[2:]]), False
    if ctx in STRICT_CONTEXTS:
        if reading.get(ctx, 'strict') == 'lax':
            return _STRINGY, False
        return ACCEPT[ctx], True
    return ACCEPT[ctx], False


def _first_non_string(name, table, seen=None):
    """Transitive closure of what a *string* symbol is built from: name of the first non-string symbol, or None."""
    seen = seen if seen is not None else set()
    for r in table[name].refs:
        if r in seen:
            continue
        seen.add(r)
        if table[r].type != 'string':
            return r
        x = _first_non_string(r, table, seen)
        if x is not None:
            return x
    return None


def depth_of(name, table) -> int:
    e = table.get(name)
    if e is None or not e.refs:
        return 0
    return 1 + max(depth_of(r, table) for r in e.refs)


class Validation:
    def __init__(self):
        self.error = None  # dict describing the first error in execution order, or None
        self.table = {}
        self.cells = []  # (ctx, found type, ok) for every reference checked until the first error (inclusive)
        self.features = set()


def validate(case, reading=None) -> Validation:
    reading = reading or DEFAULT_READING
    res = Validation()
    table = {n: Entry(t, [], None, builtin=True) for n, t in BUILTIN_TYPES.items()}
    res.table = table
    all_def_names = [it['n'] for ph in ITEM_PHASES for it in case['items'].get(ph, []) if it['k'] == 'def']

    def check_refs(refs, phase, idx):
        for name, ctx in refs:
            if name not in table:
                res.cells.append((ctx, 'undefined', False))
                return {'kind': 'undefined-defined-later' if name in all_def_names else 'undefined-never',
                        'name': name, 'ctx': ctx, 'phase': phase, 'index': idx}
            ent = table[name]
            accepted, transitive = _accepts(ctx, reading)
            if ent.type not in accepted:
                res.cells.append((ctx, ent.type, False))
                return {'kind': 'type', 'name': name, 'ctx': ctx, 'found': ent.type, 'phase': phase, 'index': idx}
            if transitive and ent.type == 'string':
                bad = _first_non_string(name, table)
                if bad is not None:
                    res.cells.append((ctx, 'string<-' + table[bad].type, False))
                    return {'kind': 'type-indirect', 'name': name, 'via': bad, 'ctx': ctx, 'found': table[bad].type,
                            'phase': phase, 'index': idx}
            res.cells.append((ctx, ent.type, True))
            d = depth_of(name, table)
            res.features.add('chain:%s' % (d + 1 if d < 2 else '3+'))
            if ent.builtin:
                res.features.add('ref-to-builtin')
            elif ent.phase != phase:
                res.features.add('ref-cross-phase')
            else:
                res.features.add('ref-same-phase')
        return None

    for phase, idx, item in usages(case):
        if phase == 'act':
            err = check_refs(_program_refs(case['act']), 'act', None)
            if err:
                res.error = err
                return res
            continue
        if item['k'] == 'def':
            name = item['n']
            if name in table:
                res.error = {'kind': 'duplicate-builtin' if table[name].builtin else 'duplicate', 'name': name,
                             'phase': phase, 'index': idx}
                return res
            refs = value_refs(item['t'], item['v'])
            err = check_refs(refs, phase, idx)
            if err:
                res.error = err
                return res
            table[name] = Entry(item['t'], [r for r, _ in refs], phase)
        else:
            err = check_refs(item_refs(item), phase, idx)
            if err:
                res.error = err
                return res
    return res


# --------------------------------------------------------------------------------------------------
# evaluation of an accepted program
# --------------------------------------------------------------------------------------------------
# what the harness makes the probes print on stdout (the value of `-stdout-from` a probe)
PROBE_STDOUT = {'p1': 'One 1\n', 'p2': 'two\nLines 2\n', 'p3': '', 'act': 'Act out\n', 'q1': 'q1 Out\n', 'q2': ''}
ENV_PREFIX = 'C08_'


class Outcome:
    def __init__(self):
        self.files = {}  # 'uK.txt' (in the act dir) -> text | UNKNOWN
        self.dirs = {}  # 'uK' -> {rel path: ['d'] | ['f', text|UNKNOWN]} | UNKNOWN
        self.events = {}  # probe name -> [{'argv': [...], 'stdin': text|UNKNOWN, 'env': {C08_x: text|UNKNOWN}}]
        self.shell = {}  # shell output name -> text | UNKNOWN  (what the `$ printf` lines have appended)
        self.unknown_probes = set()  # probes / shell outputs whose number of invocations the manual does not fix
        self.soft = []  # value dependent validation that is not about symbols (INTEGER not an int, invalid REGEX, ...)
        self.table = {}  # name -> Entry (with .value for the data types) after the last instruction
        self.abs_files = {}  # absolute path -> text | UNKNOWN   (`file PATH = ...` with a PATH argument)
        self.cleanup_cut = None  # see evaluate()
        self.stop = None  # {'phase', 'index', 'ident'}: the instruction that fails when it is executed (`stop` item)
        self.skipped_defs = []  # names whose definition is not executed because of that (they are defined all the same)
        self.sources = {}  # path relative to the home directory -> text: the files read by -contents-of
        self.unknown_env = False  # a variable whose name is not predicted was set
        self.abs_dirs = []  # absolute paths of the directories made by `dir PATH`


def use_name(phase, idx) -> str:
    return 'u%s%d' % (phase[0], idx)


def _py_int(text):
    """INTEGER: 'An expression using Python syntax.  The expression must evaluate to an integer'.
    The generators' alphabet has no parentheses, so nothing can be called."""
    if '(' in text or len(text) > 200:
        return None
    try:
        v = eval(text, {'__builtins__': {}}, {})  # noqa: S307 - alphabet without calls, see above
    except BaseException:
        return None
    if isinstance(v, bool) or not isinstance(v, int):
        return None
    return v


def _join(base: str, suffix: str) -> str:
    if not suffix:
        return str(PurePosixPath(base))
    return str(PurePosixPath(base) / suffix)


_PURE_OPS = ('upper', 'lower', 'strip')


def replace_lines(regex, replacement, text):
    """`replace REGEX STRING`: "Replaces every string matching REGEX (on a single line) with STRING. [...] Every line
    ends with "\\n", except the last line, which may or may not end with "\\n"" (the "\\n" belongs to the line unless
    -preserve-new-lines is given).  REGEX / STRING: Python syntax (`help syntax REGEX`).  -> text | UNKNOWN"""
    if regex is UNKNOWN or replacement is UNKNOWN or text is UNKNOWN:
        return UNKNOWN
    try:
        pat = re.compile(regex)
        if text == '' and pat.search('') is not None:
            return UNKNOWN  # does a text without characters have a line on which the empty string matches?  not said
        lines = re.findall(r'[^\n]*\n|[^\n]+', text)
        return ''.join(pat.sub(replacement, line) for line in lines)
    except (re.error, IndexError):
        return UNKNOWN  # invalid REGEX / STRING: validated by value (see soft_scan)


def source_file_text(rel: str) -> str:
    return 'Data of %s\nsecond line\n' % rel


RESERVED_HOME_FILES = ('t.case', 'exactly.suite', 'd1', 'inc1.xly', 'inc2.xly')


class _Evaluator:
    def __init__(self, table, roots, out: Outcome):
        self.table = table
        self.roots = roots
        self.out = out
        self.env = {}  # C08_* environment variables set so far

    # ---- data ----
    def sym_as_str(self, name):
        e = self.table[name]
        v = e.value
        if v is UNKNOWN:
            return UNKNOWN
        if e.type == 'list':
            return ' '.join(v)
        return v

    def str_(self, s):
        parts = []
        for k, v in str_frags(s):
            if k == 'l':
                parts.append(v)
            else:
                x = self.sym_as_str(v)
                if x is UNKNOWN:
                    return UNKNOWN
                parts.append(x)
        return ''.join(parts)

    def list_(self, lst):
        out = []
        for el in lst:
            if is_bare_ref(el):
                name = str_frags(el)[0][1]
                e = self.table[name]
                if e.value is UNKNOWN:
                    return UNKNOWN
                if e.type == 'list':
                    out.extend(e.value)
                else:
                    out.append(e.value)
            else:
                v = self.str_(el)
                if v is UNKNOWN:
                    return UNKNOWN
                out.append(v)
        return out

    def path_(self, p, default='cd'):
        """default: the default relativity of the argument (`def path`, `file`, `dir`, `exists`: current directory;
        SOURCE-FILE-PATH of -contents-of: home directory)"""
        kind, frags = path_shape(p)

        def concat(frs):
            parts = []
            for k, v in frs:
                x = v if k == 'l' else self.sym_as_str(v)
                if x is UNKNOWN:
                    return UNKNOWN
                parts.append(x)
            return ''.join(parts)

        if kind == 'rel-sym':
            base = self.table[p['rel']['ref']].value
            suffix = concat(frags)
            if base is UNKNOWN or suffix is UNKNOWN:
                return UNKNOWN
            return _join(base, suffix)
        if kind == 'rel-opt':
            suffix = concat(frags)
            if suffix is UNKNOWN:
                return UNKNOWN
            if suffix.startswith('/'):
                # "If FILE-NAME is an absolute path, then RELATIVITY must not be given" - what happens is not said
                self.out.soft.append('absolute-name-with-relativity')
                return UNKNOWN
            return _join(self.roots[p['rel']], suffix)
        if kind == 'pfx' and self.table[frags[0][1]].type == 'path':
            base = self.table[frags[0][1]].value
            suffix = concat(frags[1:])
            if base is UNKNOWN or suffix is UNKNOWN:
                return UNKNOWN
            return _join(base, suffix.lstrip('/'))
        if kind == 'odd-pfx' and self.table[frags[0][1]].type == 'path':
            return UNKNOWN  # only reachable under the lax reading
        name = concat(frags)
        if name is UNKNOWN:
            return UNKNOWN
        if name.startswith('/'):
            return str(PurePosixPath(name))
        return _join(self.roots[default], name)

    def root_(self, p, default='cd'):
        """The relativity of a path: option name | 'abs' | None (unknown)"""
        kind, frags = path_shape(p)
        if kind == 'rel-sym':
            return self.table[p['rel']['ref']].root
        if kind == 'rel-opt':
            return p['rel']
        if kind in ('pfx', 'odd-pfx') and self.table[frags[0][1]].type == 'path':
            return self.table[frags[0][1]].root
        name = self.str_(p['name'])
        if name is UNKNOWN:
            return None
        return 'abs' if name.startswith('/') else default

    # ---- logic types with a modelled value ----
    # Values that can run programs are kept as expressions and evaluated where they are *used* (a symbol is a named
    # constant: its references were resolved against symbols that cannot change any more), so that the probe
    # invocations are recorded when and as often as the using instruction executes.
    def reach(self, node) -> frozenset:
        """Names of the probes / shell outputs that can be run by using the expression `node` (through symbols too)."""
        acc = set()

        def walk(x):
            if isinstance(x, dict):
                if x.get('c') in ('probe', 'shell') and 'o' in x:
                    acc.add(x['o'])
                if 'ref' in x and x['ref'] in self.table:
                    acc.update(self.table[x['ref']].reach)
                for k in sorted(x):
                    walk(x[k])
            elif isinstance(x, list):
                for y in x:
                    walk(y)

        walk(node)
        return frozenset(acc)

    def tt_(self, e):
        """-> list of ops: 'upper' | 'lower' | ('run', PROGRAM-VALUE) | ('opaque', reachable probes)"""
        if 'c' not in e and 'ref' in e:
            return list(self.table[e['ref']].value)
        if 'lit' in e:
            return {'identity': [], 'upper': ['upper'], 'lower': ['lower'], 'strip': ['strip']}[e['lit']]
        if 'op' in e:
            if e['op'] == 'paren':
                return self.tt_(e['a'])
            if e['op'] == 'seq':
                return self.tt_(e['a']) + self.tt_(e['b'])
        if e.get('c') == 'run':
            return [('run', self.program_(e['p']))]
        if e.get('c') == 'replace':
            # "Replaces every string matching REGEX (on a single line) with STRING": the REGEX and the STRING are
            # strings - references in them are substituted like everywhere else
            return [('replace', self.str_(e['r']), self.str_(e['s']))]
        return [('opaque', self.reach(e))]  # filter: the semantics of matchers are outside the property

    def apply_tt(self, ops, text):
        for op in ops:
            if op == 'upper':
                text = text if text is UNKNOWN else text.upper()
            elif op == 'lower':
                text = text if text is UNKNOWN else text.lower()
            elif op == 'strip':
                # "Removes all whitespace at the beginning and end of the text"
                text = text if text is UNKNOWN else text.strip()
            elif op[0] == 'replace':
                text = replace_lines(op[1], op[2], text)
            elif op[0] == 'run':
                # "run PROGRAM": the text is given as stdin (appended to the stdin the program defines); the
                # result is the program's output
                text = self.run_program(op[1], extra_stdin=text, consume=True)
            else:
                self.out.unknown_probes.update(op[1])
                text = UNKNOWN
        return text

    def source_(self, p):
        """-contents-of PATH: "The contents of an existing regular file": the harness makes the files that are inside
        the home directory (their contents: source_file_text); for any other file the outcome is not predicted"""
        where = self.path_(p, default='home')
        home = self.roots['home']
        if (where is UNKNOWN or self.root_(p, default='home') not in ('home', 'act-home')
                or not where.startswith(home + '/')):
            if 'source-file' not in self.out.soft:
                self.out.soft.append('source-file')
            return UNKNOWN
        rel = where[len(home) + 1:]
        self.out.sources[rel] = source_file_text(rel)
        return self.out.sources[rel]

    def ts_(self, ts):
        """Evaluates (= executes what it takes to produce) a text source -> text | UNKNOWN"""
        if ts.get('c') == 'pgm':
            base = self.run_program(self.program_(ts['p']), consume=True)
        elif ts.get('c') == 'contents-of':
            base = self.source_(ts['p'])
        else:
            name = None
            if 'ref' in ts:
                name = ts['ref']
            elif is_bare_ref(ts['s']):
                name = str_frags(ts['s'])[0][1]  # the SYMBOL-REFERENCE form: text-source or string
            if name is not None:
                e = self.table[name]
                base = self.ts_(e.value) if e.type == 'text-source' else e.value
            else:
                base = self.str_(ts['s'])
        if ts.get('t') is not None:
            return self.apply_tt(self.tt_(ts['t']), base)
        return base

    def program_(self, p):
        """-> PROGRAM-VALUE {'kind': 'probe'|'shell', 'o', 'args': [..]|UNKNOWN, 'text', 'stdin': [TEXT-SOURCE..],
        'tt': ops}: "Arguments, stdin and transformations are appended to [those] of the referenced program"."""
        args = self.list_(p['a'])
        stdin = [] if p.get('in') is None else [p['in']]
        tt = [] if p.get('t') is None else self.tt_(p['t'])
        if p['c'] == 'probe':
            base = {'kind': 'probe', 'o': p['o'], 'args': [], 'text': None, 'stdin': [], 'tt': []}
        elif p['c'] == 'shell':
            base = {'kind': 'shell', 'o': p['o'], 'args': [], 'text': self.str_(p['s']), 'stdin': [], 'tt': []}
        else:
            base = self.table[p['ref']].value
        all_args = UNKNOWN if (base['args'] is UNKNOWN or args is UNKNOWN) else base['args'] + args
        return {'kind': base['kind'], 'o': base['o'], 'args': all_args, 'text': base['text'],
                'stdin': base['stdin'] + stdin, 'tt': base['tt'] + tt}

    def run_program(self, pv, extra_stdin=None, consume=False):
        """Executes a program value; -> its (transformed) stdout | UNKNOWN"""
        stdin = ''
        for ts in pv['stdin']:
            part = self.ts_(ts)
            stdin = UNKNOWN if (stdin is UNKNOWN or part is UNKNOWN) else stdin + part
        if extra_stdin is not None:
            stdin = UNKNOWN if (stdin is UNKNOWN or extra_stdin is UNKNOWN) else stdin + extra_stdin
        name = pv['o']
        if pv['kind'] == 'probe':
            if pv['args'] is UNKNOWN:
                self.out.unknown_probes.add(name)
            else:
                self.out.events.setdefault(name, []).append({'argv': pv['args'], 'stdin': stdin, 'env': dict(self.env)})
            output = PROBE_STDOUT.get(name, '')
        else:
            # arguments given to a shell command are appended to the command line - how is not modelled
            prev = self.out.shell.get(name, '')
            if pv['args'] or pv['text'] is UNKNOWN or prev is UNKNOWN:
                self.out.shell[name] = UNKNOWN
            else:
                self.out.shell[name] = prev + pv['text'] + '|'
            output = ''
        if consume:
            return self.apply_tt(pv['tt'], output)
        for op in pv['tt']:
            # is the output of a program that nobody reads transformed?  not fixed by the manual
            if op not in _PURE_OPS and op[0] != 'replace':
                self.out.unknown_probes.update(self.reach_of_op(op))
        return output

    def reach_of_op(self, op) -> frozenset:
        if op[0] == 'opaque':
            return op[1]
        pv = op[1]
        acc = {pv['o']}
        for ts in pv['stdin']:
            acc.update(self.reach(ts))
        for o in pv['tt']:
            if o not in _PURE_OPS and o[0] != 'replace':
                acc.update(self.reach_of_op(o))
        return frozenset(acc)

    def fs_(self, e):
        """Evaluates a files source -> {rel path: ['d'] | ['f', text]} | UNKNOWN"""
        if 'c' not in e and 'ref' in e:
            return self.fs_(self.table[e['ref']].value)
        if e.get('op') == 'paren':
            return self.fs_(e['a'])
        tree = {}
        unknown = False
        for ent in e['e']:
            name = self.str_(ent['n'])
            if name is UNKNOWN:
                unknown = True
                name = '?'
            name = str(PurePosixPath(name))
            parts = name.split('/')
            for i in range(1, len(parts)):
                tree['/'.join(parts[:i])] = ['d']
            if ent['k'] == 'file':
                tree[name] = ['f', '' if ent.get('s') is None else self.ts_(ent['s'])]
            else:
                tree[name] = ['d']
                if ent.get('s') is not None:
                    sub = self.fs_(ent['s'])
                    if sub is UNKNOWN:
                        unknown = True
                    else:
                        for k, v in sub.items():
                            tree[name + '/' + k] = v
        return UNKNOWN if unknown else tree

    # ---- value-dependent validation that is not about symbols ----
    def soft_scan(self, t, e):
        """INTEGER, REGEX and FILE-NAME arguments are validated by value; record the ones that are not valid."""
        if e is None or t in ('string', 'list', 'path'):
            return
        if t == 'text-source':
            if e.get('c') == 'pgm':
                self.soft_scan('program', e['p'])
            if e.get('c') == 'contents-of':
                self.source_(e['p'])  # the file has to exist also when the text is never used
            if e.get('t') is not None:
                self.soft_scan('text-transformer', e['t'])
            return
        if t == 'program':
            self.soft_scan('text-source', e.get('in'))
            self.soft_scan('text-transformer', e.get('t'))
            return
        if t == 'files-source':
            if 'c' in e:
                for ent in e['e']:
                    self.soft_file_name(ent['n'])
                    self.soft_scan('text-source' if ent['k'] == 'file' else 'files-source', ent.get('s'))
            elif 'op' in e:
                self.soft_scan(t, e['a'])
            return
        if 'c' not in e:
            if 'op' in e:
                self.soft_scan(t, e['a'])
                if 'b' in e:
                    self.soft_scan(t, e['b'])
            return
        c = e['c']
        if c == 'run':
            self.soft_scan('program', e['p'])
        elif c == 'cmp':
            self.soft_int(e['i'])
        elif c in ('matches', 'replace') and t in ('text-matcher', 'text-transformer'):
            v = self.str_(e['r'])
            ok = v is not UNKNOWN
            if ok:
                try:
                    re.compile(v)
                except re.error:
                    ok = False
            if not ok:
                # a REGEX that contains a path of the test case directory structure is compiled when the directories
                # are known (the sandbox: only at execution; the program treats the home directory alike)
                sds = str(PurePosixPath(self.roots['act']).parent)
                self.out.soft.append('regex-invalid-sandbox-path'
                                     if (v is not UNKNOWN and (sds in v or self.roots['home'] in v))
                                     else 'regex-invalid')
        sub = {('line-matcher', 'contents'): [('text-matcher', 'm')], ('line-matcher', 'line-num'): [('integer-matcher', 'm')],
               ('text-matcher', 'equals'): [('text-source', 's')], ('text-matcher', 'num-lines'): [('integer-matcher', 'm')],
               ('text-matcher', 'every-line'): [('line-matcher', 'm')],
               ('text-matcher', 'transformed'): [('text-transformer', 't'), ('text-matcher', 'm')],
               ('text-transformer', 'filter'): [('line-matcher', 'm')],
               ('file-matcher', 'contents'): [('text-matcher', 'm')], ('file-matcher', 'dir-contents'): [('files-matcher', 'm')],
               ('files-matcher', 'num-files'): [('integer-matcher', 'm')], ('files-matcher', 'every-file'): [('file-matcher', 'm')],
               ('files-matcher', 'selection'): [('file-matcher', 's'), ('files-matcher', 'm')],
               }.get((t, c), [])
        for st, key in sub:
            self.soft_scan(st, e[key])
        if t == 'files-condition' and c == 'set':
            for name, fm in e['e']:
                self.soft_file_name(name)
                self.soft_scan('file-matcher', fm)

    def soft_int(self, s):
        v = self.str_(s)
        if v is UNKNOWN or _py_int(v) is None:
            self.out.soft.append('integer-not-an-int')

    def soft_file_name(self, s):
        """FILE-NAME of a FILE-SPEC / FILE-CONDITION: 'A relative path, using Posix syntax.  Must not contain ".."'.
        The program also rejects names with ':' or ';' and the empty name (by value; not about symbols)."""
        v = self.str_(s)
        if (v is UNKNOWN or v == '' or v.startswith('/') or ':' in v or ';' in v
                or '..' in PurePosixPath(v).parts):
            self.out.soft.append('file-name-value')


_ITEM_TYPE = {'file': 'text-source', 'env': 'text-source', 'stdin': 'text-source', 'dir': 'files-source',
              'run': 'program'}


def _item_expr(item):
    k = item['k']
    if k == 'assert':
        return item['t'], item['e']
    if k in ('run', 'from'):
        return 'program', item['p']
    return _ITEM_TYPE[k], item['s']


def evaluate(case, roots, reading=None, cleanup_cut=None, here_dirs=None) -> Outcome:
    """Values observed when an accepted program is executed.  roots: home act-home act tmp result cd here -> dir.
    cleanup_cut (defect model KF-C08-2 only): [cleanup] is given up at the item with this index.
    here_dirs: {(phase, index): directory relative to roots['here']} of the items that are written in a file of another
    directory than the test case ("-rel-here: the location of the current source file")."""
    reading = reading or DEFAULT_READING
    out = Outcome()
    table = {n: Entry(t, [], None, builtin=True) for n, t in BUILTIN_TYPES.items()}
    table['NEW_LINE'].value = '\n'
    table['TAB'].value = '\t'
    table['OS_LINE_SEP'].value = '\n'  # POSIX
    table['OS_PATH_SEP'].value = UNKNOWN  # the manual's wording fits both ':' and '/'
    table['EXACTLY_ACT'].value = roots['act']
    table['EXACTLY_ACT_HOME'].value = roots['act-home']
    table['EXACTLY_HOME'].value = roots['home']
    table['EXACTLY_RESULT'].value = roots['result']
    table['EXACTLY_TMP'].value = roots['tmp']
    for n_, r_ in (('EXACTLY_ACT', 'act'), ('EXACTLY_ACT_HOME', 'act-home'), ('EXACTLY_HOME', 'home'),
                   ('EXACTLY_RESULT', 'result'), ('EXACTLY_TMP', 'tmp')):
        table[n_].root = r_
    out.table = table
    out.cleanup_cut = cleanup_cut
    ev = _Evaluator(table, dict(roots), out)
    act_stdin = []  # texts given by `stdin = TEXT-SOURCE` in setup

    state = {'stopped': None}

    def step(phase, idx, item, skipped):
        if phase == 'act':
            ev.soft_scan('program', case['act'])
            extra = None
            if len(act_stdin) == 1:
                extra = act_stdin[0]
            elif act_stdin:
                extra = UNKNOWN  # more than one `stdin` instruction: which one counts is not said
            ev.run_program(ev.program_(case['act']), extra_stdin=extra)
            return
        k = item['k']
        if k == 'stop':
            if not skipped:
                state['stopped'] = phase
                out.stop = {'phase': phase, 'index': idx, 'ident': 'FAIL' if phase == 'assert' else 'HARD_ERROR'}
            return
        if k == 'timeout':
            ev.soft_int(item['i'])
            return
        if k in ('fileat', 'dirat', 'nexists'):
            full = with_leaf(item['p'], use_name(phase, idx) + ('.txt' if k == 'fileat' else ''))
            if ev.root_(full) not in ACCEPTED_ROOTS[k]:
                out.soft.append('path-relativity')
            where = ev.path_(full)
            if k == 'fileat':
                ev.soft_scan('text-source', item['s'])
                text = ev.ts_(item['s'])
                if where is not UNKNOWN:
                    out.abs_files[where] = text
            elif k == 'dirat' and where is not UNKNOWN:
                out.abs_dirs.append(where)
            return
        if k != 'def':
            ev.soft_scan(*_item_expr(item))
        if k == 'def':
            t, v = item['t'], item['v']
            ent = Entry(t, [r for r, _ in value_refs(t, v)], phase)
            if t not in DATA_TYPES:
                ent.reach = ev.reach(v)
            if t == 'string':
                ent.value = ev.str_(v)
            elif t == 'list':
                ent.value = ev.list_(v)
            elif t == 'path':
                ent.value = ev.path_(v)
                ent.root = ev.root_(v)
            elif t in ('text-source', 'files-source'):
                ent.value = v  # evaluated where it is used
            elif t == 'text-transformer':
                ent.value = ev.tt_(v)
            elif t == 'program':
                ent.value = ev.program_(v)
            else:
                ent.value = None
            ev.soft_scan(t, v)
            table[item['n']] = ent
            if skipped:
                out.skipped_defs.append(item['n'])
        elif k == 'file':
            out.files[use_name(phase, idx) + '.txt'] = ev.ts_(item['s'])
        elif k == 'dir':
            out.dirs[use_name(phase, idx)] = ev.fs_(item['s'])
        elif k == 'run':
            ev.run_program(ev.program_(item['p']))
        elif k == 'from':
            # the exit code / the output of the program is what the matcher is applied to: the program runs once
            ev.run_program(ev.program_(item['p']), consume=item['ch'] == 'stdout')
        elif k == 'env':
            # "If TEXT-SOURCE involves a PROGRAM, it will be executed in an environment with the environment variables
            # of the specified phase" - without PHASE-SPEC there are two of them: how often it runs is C11's matter
            out.unknown_probes.update(ev.reach(item['s']))
            var = use_name(phase, idx) if item.get('name') is None else ev.str_(item['name'])
            text = ev.ts_(item['s'])
            if var is UNKNOWN:
                out.unknown_env = True  # some C08_ variable with an unknown name
            else:
                ev.env[ENV_PREFIX + var] = text
        elif k == 'stdin':
            # when the text is produced (at the instruction, or when the action to check starts) is not said
            out.unknown_probes.update(ev.reach(item['s']))
            saved = (out.events, out.shell)
            out.events, out.shell = {}, {}
            try:
                text = ev.ts_(item['s'])
                act_stdin.append(UNKNOWN if ev.reach(item['s']) else text)
            finally:
                out.events, out.shell = saved
        # 'assert' items are wrapped in `constant true || ...`: "Operands are evaluated lazily" - nothing runs

    # A symbol is a named constant: "Once defined, a symbol is available to all instructions following the definition" -
    # also when the instructions between a failing instruction and [cleanup] are not executed.  Skipped instructions
    # are interpreted all the same (values of the symbols, value-validated arguments) but leave no observation.
    for phase, idx, item in usages(case):
        ev.roots['here'] = _join(roots['here'], (here_dirs or {}).get((phase, idx), ''))
        stopped = state['stopped']
        skipped = (stopped is not None and (phase != 'cleanup' or stopped == 'cleanup')
                   or (cleanup_cut is not None and phase == 'cleanup' and idx >= cleanup_cut))
        if not skipped:
            step(phase, idx, item, False)
            continue
        saved = (out.events, out.shell, out.files, out.dirs, out.abs_files, out.abs_dirs, out.unknown_probes,
                 out.unknown_env, dict(ev.env), list(act_stdin))
        out.events, out.shell, out.files, out.dirs, out.abs_files, out.abs_dirs = {}, {}, {}, {}, {}, []
        out.unknown_probes = set()
        try:
            step(phase, idx, item, True)
        finally:
            (out.events, out.shell, out.files, out.dirs, out.abs_files, out.abs_dirs, out.unknown_probes,
             out.unknown_env, env_, stdin_) = saved
            ev.env.clear()
            ev.env.update(env_)
            act_stdin[:] = stdin_
    for rel in out.sources:
        parts = rel.split('/')
        if (any(o != rel and o.startswith(rel + '/') for o in out.sources) or parts[0] in RESERVED_HOME_FILES
                or rel != str(PurePosixPath(rel))):
            out.soft.append('source-file')  # cannot be made a regular file by the harness
    return out


# --------------------------------------------------------------------------------------------------
# `exactly symbol FILE [NAME [--ref]]`: "Reports all user defined symbols in the case ... Each symbol is reported on a
# separate line, together with its type and the number of references to it"
# --------------------------------------------------------------------------------------------------
def definitions(case):
    """-> [(type, name, phase)] of every definition, in execution order"""
    return [(it['t'], it['n'], ph) for ph, _idx, it in usages(case) if it is not None and it['k'] == 'def']


def reference_counts(case) -> dict:
    """name -> number of references to it (every occurrence in every instruction and in the act phase)"""
    cnt = {}
    for ph, _idx, it in usages(case):
        refs = _program_refs(case['act']) if ph == 'act' else item_refs(it)
        for name, _ctx in refs:
            cnt[name] = cnt.get(name, 0) + 1
    return cnt


def path_free(name, table, seen=None) -> bool:
    """The value of the (data) symbol is built without any path (whose presentation depends on directories)."""
    seen = seen if seen is not None else set()
    if name in seen:
        return True
    seen.add(name)
    e = table[name]
    if e.type == 'path':
        return False
    return all(path_free(r, table, seen) for r in e.refs if r in table)


def cleanup_needs(case, table) -> set:
    """Names of the symbols that the instructions of [cleanup] (definitions excluded) resolve when they are executed:
    the referenced ones and, through them, the ones they are built from."""
    todo = [name for it in case['items'].get('cleanup', []) if it['k'] != 'def' for name, _ctx in item_refs(it)]
    seen = set()
    while todo:
        n = todo.pop()
        if n in seen or n not in table:
            continue
        seen.add(n)
        todo.extend(table[n].refs)
    return seen


def first_cleanup_item_needing(case, table, names):
    """Index of the first instruction of [cleanup] (definitions excluded) that resolves one of `names`, or None."""
    for i, it in enumerate(case['items'].get('cleanup', [])):
        if it['k'] == 'def':
            continue
        todo = [name for name, _ctx in item_refs(it)]
        seen = set()
        while todo:
            n = todo.pop()
            if n in seen or n not in table:
                continue
            if n in names:
                return i
            seen.add(n)
            todo.extend(table[n].refs)
    return None
