"""C17 reference model: what a test case does when the contents of a suite file are added to it.

Written from the manual, independent of the code under test:
* `help suite spec` ("Common test case contents": the contents is included in every test case in the suite ... only
  in test cases listed directly in the suite - not in sub suites);
* `help suite conf|setup|act|before-assert|assert` ("The section contents is included before the contents of the ...
  phase of each test case") and `help suite cleanup` ("... included after the contents of the "cleanup" phase");
* `help suite conf preprocessor` (only for the test cases in the current suite - not in sub suites);
* `exactly --help` (`--suite FILE`: "Runs the test case as if it were part of the given suite.  This overrides the
  default suite file "exactly.suite"");
* `help case spec` (outcome table, validation before execution, hard error halts, [cleanup] is always executed),
  `help cleanup`, `help setup def` (a symbol must not have been defined earlier; available in all following
  instructions and phases), `help setup env`, `help actor command line|source interpreter|null`,
  `help conf home|act-home` (relative to the location of the file that contains the instruction).

A "contents" value (of a suite file or of a case file) is a dict
  {'who': tag, 'conf': {'status','actor','home','act_home'}, 'act_style': 'cmd'|'sh',
   'phases': {phase: [item, ...]}, 'pp': bool (suite only), 'dir': directory of the file relative to {HOME}}
An item is a list:
  ['m']            marker
  ['b']            marker, then the instruction fails (assert: FAIL, other phases: HARD_ERROR)
  ['v']            an instruction that references an undefined symbol            (not in act)
  ['d', NAME]      def string NAME = <who>.<phase>.<k>                           (not in act)
  ['u', NAME]      marker that shows the value of symbol NAME
  ['h']            marker that shows the home and act-home directories
  ['p']            marker with the token the suite's preprocessor replaces
  ['e', VAR]       env VAR = <who>.<phase>.<k>                                   (not in act)
  ['E', VAR]       marker that shows the value of environment variable VAR
A marker is one line `<sandbox tmp dir>|<who>|<phase>.<k><suffix>` appended to {MARKERS}.
"""

PHASES = ['setup', 'act', 'before-assert', 'assert', 'cleanup']
PP_TOKEN = '@PP@'
PP_REPLACEMENT = 'pp-ran'
ENV_UNSET = 'UNSET'


def value_of(who, phase, k):
    return '%s.%s.%d' % (who, phase, k)


def merged_phase(suite, case, phase):
    """-> [(contents, index in its own list, item)] in the documented order"""
    s = [(suite, k, it) for k, it in enumerate(suite['phases'].get(phase, []))] if suite else []
    c = [(case, k, it) for k, it in enumerate(case['phases'].get(phase, []))]
    return c + s if phase == 'cleanup' else s + c


def effective_conf(suite, case):
    conf = {'status': 'PASS', 'actor': 'command', 'home': None, 'act_home': None}
    for src in ([suite] if suite else []) + [case]:
        d = src['dir']
        for key in ('status', 'actor'):
            if src['conf'].get(key) is not None:
                conf[key] = src['conf'][key]
        for key in ('home', 'act_home'):
            if src['conf'].get(key) is not None:
                conf[key] = (d + '/' if d else '') + src['conf'][key]
    return conf


class Expectation:
    def __init__(self, idents, lines, executes):
        self.idents = idents  # set of accepted exit identifiers
        self.lines = lines  # [(who, text)]
        self.executes = executes  # a sandbox is used

    def as_json(self):
        return {'identifier': sorted(self.idents), 'markers': ['%s|%s' % l for l in self.lines]}


def expect(suite, case):
    """Expectations for `case` with the contents of `suite` (None = no suite applies): a list of alternatives (more
    than one where the manual leaves it open), or None when the combination is outside what the model describes
    (act contents written for another actor; a symbol used in [cleanup] whose definition was jumped over)."""
    conf = effective_conf(suite, case)
    explicit_actor = any(src['conf'].get('actor') is not None for src in ([suite] if suite else []) + [case])
    act = merged_phase(suite, case, 'act')
    actor = conf['actor']
    if actor == 'null':
        return _wrap(_execution(suite, case, conf, []))
    if actor == 'source':
        if any(src['act_style'] != 'sh' for src, _, _ in act):
            return None
        return _wrap(_execution(suite, case, conf, act))
    if any(src['act_style'] != 'cmd' for src, _, _ in act):
        return None
    normal = _execution(suite, case, conf, act)
    if normal is None:
        return None
    if len(act) == 1 or (len(act) == 0 and not explicit_actor):
        # `help concept actor`: "If the contents of [act] is empty ... then the "null" actor is used."
        return [normal]
    # `help actor command line`: "A single PROGRAM element".  Whether SKIP / a validation error elsewhere is
    # reported instead of the syntax error is not C17's business: all accepted.
    ids = {'SYNTAX_ERROR'}
    if not normal.executes:
        ids |= normal.idents
    alts = [Expectation(ids, [], False)]
    if len(act) == 0:
        # `actor = command` given explicitly and [act] empty: the sentence about the null actor (concept "actor") is
        # not restricted to the default actor - both readings accepted
        alts.append(normal)
    return alts


def _wrap(e):
    return None if e is None else [e]


def _execution(suite, case, conf, act_run):
    case_dir = case['dir']
    home = conf['home'] if conf['home'] is not None else case_dir
    act_home = conf['act_home'] if conf['act_home'] is not None else case_dir
    pp = bool(suite and suite.get('pp'))
    if conf['status'] == 'SKIP':
        return Expectation({'SKIPPED'}, [], False)

    # symbol validation, in the order of the phases
    defined = {}
    for phase in PHASES:
        items = act_run if phase == 'act' else merged_phase(suite, case, phase)
        for src, k, it in items:
            if it[0] == 'v':
                return Expectation({'VALIDATION_ERROR'}, [], False)
            if it[0] == 'd':
                if it[1] in defined:
                    return Expectation({'VALIDATION_ERROR'}, [], False)
                defined[it[1]] = value_of(src['who'], phase, k)
            if it[0] == 'u' and it[1] not in defined:
                return Expectation({'VALIDATION_ERROR'}, [], False)

    env_act = {}
    env_non = {}
    lines = []
    executed_defs = set()

    def text_of(src, phase, k, it):
        t = '%s.%d' % (phase, k)
        kind = it[0]
        if kind == 'u':
            t += ' sym=' + defined[it[1]]
        elif kind == 'h':
            t += ' home=<HOME>%s act-home=<HOME>%s' % ('/' + home if home else '', '/' + act_home if act_home else '')
        elif kind == 'p':
            t += ' ' + (PP_REPLACEMENT if (pp and src is case) else PP_TOKEN)
        elif kind == 'E':
            t += ' env=' + (env_act if phase == 'act' else env_non).get(it[1], ENV_UNSET)
        return t

    hard = False
    failed = False
    for phase in PHASES:
        if phase != 'cleanup' and (hard or failed):
            continue
        items = act_run if phase == 'act' else merged_phase(suite, case, phase)
        for src, k, it in items:
            kind = it[0]
            if kind == 'd':
                executed_defs.add(it[1])
                continue
            if kind == 'e':
                v = value_of(src['who'], phase, k)
                env_non[it[1]] = v
                if phase == 'setup':
                    env_act[it[1]] = v
                continue
            if kind == 'u' and it[1] not in executed_defs:
                return None  # the definition was jumped over: the manual does not say what the reference gives
            lines.append((src['who'], text_of(src, phase, k, it)))
            if kind == 'b':
                if phase == 'assert':
                    failed = True
                else:
                    hard = True
                break
    if hard:
        ids = {'HARD_ERROR'}
    elif conf['status'] == 'FAIL':
        ids = {'XFAIL' if failed else 'XPASS'}
    else:
        ids = {'FAIL' if failed else 'PASS'}
    return Expectation(ids, lines, True)
