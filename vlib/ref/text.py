"""Reference evaluator for Exactly's TEXT-MATCHER / TEXT-TRANSFORMER / LINE-MATCHER / INTEGER-MATCHER.

Written from the built-in manual (`help syntax TEXT-MATCHER`, `TEXT-TRANSFORMER`, `LINE-MATCHER`,
`INTEGER-MATCHER`, `REGEX`, `TEXT-SOURCE`), *not* from the implementation.  Never imports exactly_lib.
Used by C05 (and reusable by C06, C13, C14).

Texts are Python ``str``.  A text is a sequence of *lines*: every line ends with "\\n" except possibly the
last one ("Every line ends with "\\n", except the last line, which may or may not end with "\\n"", manual of
``replace``).  The empty text has no lines.  A *line model* of a LINE-MATCHER is (1-based line number, line
contents without the ending "\\n").

Expressions are JSON values (lists; first element is the tag).

TEXT-MATCHER  (TM)
    ['is-empty']
    ['equals', SRC]
    ['matches', full: bool, RX]
    ['num-lines', IM]
    ['every', LM]            every line : LM
    ['any', LM]              any line : LM
    ['on', TR, TM]           -transformed-by TR TM
    ['const', bool] | ['not', TM] | ['and', TM, TM, ...] | ['or', TM, TM, ...]
LINE-MATCHER  (LM)
    ['contents', TM] | ['line-num', IM] | ['const', bool] | ['not', LM] | ['and', ...] | ['or', ...]
INTEGER-MATCHER (IM)
    ['cmp', op, INT]   op in == != < <= > >=       | ['const', bool] | ['not', IM] | ['and', ...] | ['or', ...]
    INT is {'v': int, 'src': str}  (src = the Python expression text that is rendered; v = its value) or an int
TEXT-TRANSFORMER (TR)
    ['replace', {'pnl': bool, 'at': LM | None, 'rx': RX, 'repl': str}]
    ['strip', None | 'space' | 'nl']          strip / strip -trailing-space / strip -trailing-new-lines
    ['char-case', 'lower' | 'upper']
    ['filter', LM]
    ['filter-nums', [RANGE, ...]]           RANGE = [lo | None, hi | None] or [n]  (n, lo, hi: non-zero-checked ints)
    ['grep', full: bool, RX]
    ['identity']
    ['seq', TR, TR, ...]                      TR | TR | ...
RX    {'pat': str, 'ic': bool}               REGEX: [-ignore-case] pattern in Python syntax
SRC   {'text': str, 'form': 'str' | 'here' | 'file', 'tr': TR | None}      TEXT-SOURCE with optional transformation

Python's ``re`` is used on purpose (REGEX is *defined* as Python syntax).  What is *not* taken from ``re``: the
meaning of -full (expressed with an anchored search), the replacement template of ``replace`` (expanded here
from the manual's description over ``finditer`` matches), the division into lines, every transformer.
"""
import re
from typing import List, Optional, Tuple


class RefError(Exception):
    """The expression is outside what the reference can evaluate (malformed AST)."""


# ---- lines ------------------------------------------------------------------------------------------------
def split_lines(text: str) -> List[str]:
    """Lines with their endings: split after each "\\n" (and only there)."""
    if text == '':
        return []
    parts = text.split('\n')
    lines = [p + '\n' for p in parts[:-1]]
    if parts[-1] != '':
        lines.append(parts[-1])
    return lines


def line_models(text: str) -> List[Tuple[int, str, str]]:
    """[(1-based number, contents without "\\n", full line)]"""
    ret = []
    for i, full in enumerate(split_lines(text)):
        ret.append((i + 1, full[:-1] if full.endswith('\n') else full, full))
    return ret


def num_lines(text: str) -> int:
    return len(split_lines(text))


# ---- regex ------------------------------------------------------------------------------------------------
_RX_CACHE = {}
_GLOBAL_FLAGS = re.compile(r'\(\?[aimsx]+\)')


def compile_rx(rx: dict, full: bool = False):
    key = (rx['pat'], bool(rx.get('ic')), full)
    c = _RX_CACHE.get(key)
    if c is None:
        flags = re.IGNORECASE if rx.get('ic') else 0
        pat = rx['pat']
        if full:
            # "REGEX must match the full text": some match of REGEX starts at the beginning and ends at the end
            # (global inline flags such as (?m) must stay at the very start of a Python pattern)
            m = _GLOBAL_FLAGS.match(pat)
            prefix = m.group(0) if m else ''
            pat = prefix + r'\A(?:' + pat[len(prefix):] + r')\Z'
        c = re.compile(pat, flags)
        if len(_RX_CACHE) > 4000:
            _RX_CACHE.clear()
        _RX_CACHE[key] = c
    return c


def rx_matches(rx: dict, full: bool, text: str) -> bool:
    return compile_rx(rx, full).search(text) is not None


# ---- integer matcher --------------------------------------------------------------------------------------
_OPS = {
    '==': lambda a, b: a == b, '!=': lambda a, b: a != b, '<': lambda a, b: a < b,
    '<=': lambda a, b: a <= b, '>': lambda a, b: a > b, '>=': lambda a, b: a >= b,
}


def int_value(x) -> int:
    return x['v'] if isinstance(x, dict) else int(x)


def eval_im(im, n: int) -> bool:
    tag = im[0]
    if tag == 'cmp':
        return _OPS[im[1]](n, int_value(im[2]))
    return _eval_logic(im, lambda x: eval_im(x, n))


def _eval_logic(node, ev) -> bool:
    tag = node[0]
    if tag == 'const':
        return bool(node[1])
    if tag == 'not':
        return not ev(node[1])
    if tag == 'and':  # lazily, left to right (no observable difference for pure operands)
        for x in node[1:]:
            if not ev(x):
                return False
        return True
    if tag == 'or':
        for x in node[1:]:
            if ev(x):
                return True
        return False
    raise RefError('unknown node %r' % (tag,))


# ---- line matcher -----------------------------------------------------------------------------------------
def eval_lm(lm, num: int, contents: str, hooks=None) -> bool:
    tag = lm[0]
    if tag == 'contents':
        return eval_tm(lm[1], contents, hooks)
    if tag == 'line-num':
        return eval_im(lm[1], num)
    return _eval_logic(lm, lambda x: eval_lm(x, num, contents, hooks))


# ---- text source ------------------------------------------------------------------------------------------
def source_text(src: dict, hooks=None) -> str:
    t = src['text']
    if src.get('tr') is not None:
        t = transform(src['tr'], t, hooks)
    return t


# ---- text matcher -----------------------------------------------------------------------------------------
def eval_tm(tm, text: str, hooks=None) -> bool:
    tag = tm[0]
    if tag == 'is-empty':
        return text == ''
    if tag == 'equals':
        return text == source_text(tm[1], hooks)
    if tag == 'matches':
        return rx_matches(tm[2], bool(tm[1]), text)
    if tag == 'num-lines':
        return eval_im(tm[1], num_lines(text))
    if tag == 'every':
        return all(eval_lm(tm[1], n, c, hooks) for n, c, _ in line_models(text))
    if tag == 'any':
        return any(eval_lm(tm[1], n, c, hooks) for n, c, _ in line_models(text))
    if tag == 'on':
        return eval_tm(tm[2], transform(tm[1], text, hooks), hooks)
    return _eval_logic(tm, lambda x: eval_tm(x, text, hooks))


# ---- replacement template ---------------------------------------------------------------------------------
_SIMPLE_ESCAPES = {'n': '\n', 't': '\t', 'r': '\r', 'a': '\a', 'b': '\b', 'f': '\f', 'v': '\v', '\\': '\\'}


def parse_template(repl: str) -> List:
    """Manual: "Backslash escapes in STRING are processed.  That is, \\n is converted to a single newline
    character, \\r is converted to a carriage return, and so forth.  Unknown escapes such as \\& are left alone.
    Back-references, such as \\6, are replaced with the substring matched by group 6".

    -> list of str (literal) | int (group number).  Only the forms the C05 generator emits are supported:
    \\n \\t \\r \\\\ \\<digit(s)> \\g<N> and escapes of non-alphanumeric ASCII characters (left alone)."""
    out = []
    lit = []
    i = 0
    while i < len(repl):
        ch = repl[i]
        if ch != '\\':
            lit.append(ch)
            i += 1
            continue
        if i + 1 >= len(repl):
            raise RefError('template ends with a backslash')
        nx = repl[i + 1]
        if nx in _SIMPLE_ESCAPES:
            lit.append(_SIMPLE_ESCAPES[nx])
            i += 2
        elif nx in '123456789':
            j = i + 2
            if j < len(repl) and repl[j] in '0123456789':
                j += 1
            if lit:
                out.append(''.join(lit))
                lit = []
            out.append(int(repl[i + 1:j]))
            i = j
        elif nx == 'g':
            m = re.match(r'<(\d+)>', repl[i + 2:])
            if not m:
                raise RefError('unsupported \\g form')
            if lit:
                out.append(''.join(lit))
                lit = []
            out.append(int(m.group(1)))
            i = i + 2 + m.end()
        elif nx.isascii() and not nx.isalnum():
            lit.append('\\' + nx)  # unknown escape: left alone
            i += 2
        else:
            raise RefError('unsupported escape \\%s' % nx)
    if lit:
        out.append(''.join(lit))
    return out


def substitute(rx: dict, template: List, s: str) -> str:
    """Replace every (non-overlapping, leftmost first) string of ``s`` matching the regex."""
    out = []
    pos = 0
    for m in compile_rx(rx).finditer(s):
        out.append(s[pos:m.start()])
        for part in template:
            if isinstance(part, int):
                out.append(m.group(part) or '')
            else:
                out.append(part)
        pos = m.end()
    out.append(s[pos:])
    return ''.join(out)


# ---- line number ranges ------------------------------------------------------------------------------------
def range_selects(rng, num: int, total: int) -> bool:
    """LINE-NUMBER-RANGE: [n] single, [None, hi] ":hi", [lo, None] "lo:", [lo, hi] "lo:hi";
    negative numbers are relative to the end (-1 = last line number)."""

    def absolute(n):
        return total + 1 + n if n < 0 else n

    if len(rng) == 1:
        return num == absolute(rng[0])
    lo, hi = rng
    if lo is not None and num < absolute(lo):
        return False
    if hi is not None and num > absolute(hi):
        return False
    return True


# ---- transformers ------------------------------------------------------------------------------------------
def transform(tr, text: str, hooks=None) -> str:
    """The documented output of the transformer.

    ``hooks`` is for *defect models* only (never for an oracle): an object whose method
    ``filter_looks_at(lm, num) -> bool`` may make ``filter LM`` ignore (= discard) lines, which is how a flawed
    "lines that need not be read" optimisation shows."""
    tag = tr[0]
    if tag == 'identity':
        return text
    if tag == 'seq':
        for t in tr[1:]:
            text = transform(t, text, hooks)
        return text
    if tag == 'char-case':
        return text.lower() if tr[1] == 'lower' else text.upper()
    if tag == 'strip':
        if tr[1] is None:
            return text.strip()
        if tr[1] == 'space':
            return text.rstrip()
        if tr[1] == 'nl':
            return text.rstrip('\n')
        raise RefError('strip variant %r' % (tr[1],))
    if tag == 'filter':
        return ''.join(full for n, c, full in line_models(text)
                       if (hooks is None or hooks.filter_looks_at(tr[1], n)) and eval_lm(tr[1], n, c, hooks))
    if tag == 'filter-nums':
        models = line_models(text)
        total = len(models)
        return ''.join(full for n, c, full in models if any(range_selects(r, n, total) for r in tr[1]))
    if tag == 'grep':
        return ''.join(full for n, c, full in line_models(text) if rx_matches(tr[2], bool(tr[1]), c))
    if tag == 'replace':
        a = tr[1]
        template = parse_template(a['repl'])
        out = []
        for n, c, full in line_models(text):
            if a.get('at') is not None and not eval_lm(a['at'], n, c, hooks):
                out.append(full)
            elif a.get('pnl') and full.endswith('\n'):
                out.append(substitute(a['rx'], template, c) + '\n')
            else:
                out.append(substitute(a['rx'], template, full))
        return ''.join(out)
    raise RefError('unknown transformer %r' % (tag,))


# ---- structure helpers (labels, non-triviality) -------------------------------------------------------------
def walk(node):
    """All list nodes of an expression, depth first (including nodes inside SRC / replace arguments)."""
    if isinstance(node, list):
        if node and isinstance(node[0], str):
            yield node
        for x in node[1:] if node and isinstance(node[0], str) else node:
            for y in walk(x):
                yield y
    elif isinstance(node, dict):
        for k in ('tr', 'at'):
            if node.get(k) is not None:
                for y in walk(node[k]):
                    yield y


def tags(node) -> List[str]:
    return [n[0] for n in walk(node)]


def size(node) -> int:
    return sum(1 for _ in walk(node))
