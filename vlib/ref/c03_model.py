"""C03 reference knowledge (independent of the code under test).

* which exit identifiers a class of defect may be reported with (from `exactly help case spec`, "Processing steps":
  step 2 syntax -> SYNTAX_ERROR, inclusion -> FILE_ACCESS_ERROR; step 3 symbols / external resources ->
  VALIDATION_ERROR, syntax of [act] -> SYNTAX_ERROR),
* what `exactly symbol` must print for a valid case (`exactly help symbol`): one line per user defined symbol with
  its type and the number of references to it.
"""
import re

IDENTS = {'SYNTAX': ('SYNTAX_ERROR',), 'VALIDATION': ('VALIDATION_ERROR',),
          'EITHER': ('SYNTAX_ERROR', 'VALIDATION_ERROR'), 'FILE_ACCESS': ('FILE_ACCESS_ERROR',)}
NOT_EXECUTED_IDENTS = ('SYNTAX_ERROR', 'FILE_ACCESS_ERROR', 'VALIDATION_ERROR')

_SYM_LINE = re.compile(r'^(\S+)\s+\((\d+)\)\s+(\S+)\s*$')
_REF = re.compile(r'@\[([A-Za-z0-9_]+)\]@')


def parse_symbol_list(out):
    """stdout of `exactly symbol CASE` -> [(type, count, name)] or None if a line has another form"""
    res = []
    for line in out.split('\n'):
        if not line.strip():
            continue
        m = _SYM_LINE.match(line)
        if not m:
            return None
        res.append((m.group(1), int(m.group(2)), m.group(3)))
    return res


def _substituted_parts(text, raw):
    """the parts of a token in which symbol references are substituted (everything but hard quoted fragments)"""
    if raw:
        return text
    out, i, n = [], 0, len(text)
    while i < n:
        c = text[i]
        if c == "'":
            j = text.find("'", i + 1)
            if j < 0:
                break
            i = j + 1
        elif c == '"':
            j = text.find('"', i + 1)
            if j < 0:
                j = n
            out.append(text[i + 1:j])
            i = j + 1
        else:
            out.append(c)
            i += 1
    return ''.join(out)


def count_references(elems, counts):
    """adds the references made by the tokens of the carrier elements to counts {name: n}"""
    for e in elems:
        raw_line = False
        for text, kind in e['toks']:
            if kind == 'nl':
                raw_line = False
                continue
            if kind == 'kw' and text in ('$', ':>'):
                raw_line = True
                continue
            if kind.startswith('ref:'):
                counts[text] = counts.get(text, 0) + 1
                continue
            if kind in ('kw', 'name', 'heredoc', 'marker', 'rel'):
                continue
            part = _substituted_parts(text, raw_line or kind == 'text' or e['name'] in ('act-source',))
            for m in _REF.finditer(part):
                counts[m.group(1)] = counts.get(m.group(1), 0) + 1
    return counts


def expected_symbol_list(prelude_symbols, elems, other_references=None):
    """-> [(type, count, name)] in order of definition: the symbols of the prelude and those the carrier defines;
    other_references: {name: number of references made by instructions outside the carrier}"""
    counts = count_references(elems, dict(other_references or {}))
    out = [(t, counts.get(n, 0), n) for t, n in prelude_symbols]
    for e in elems:
        toks = e['toks']
        if e['name'] == 'def' and len(toks) > 3 and toks[2][1] == 'name':
            out.append((toks[1][0], counts.get(toks[2][0], 0), toks[2][0]))
    return out
