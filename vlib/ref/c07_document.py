"""C07 - independent reader of Exactly test-case documents (does NOT import exactly_lib).

Written from `exactly help case spec` (chapter "File syntax"), `help directive including`, `help act`,
`help concept instruction` and `help instructions`:

* syntax is line oriented; a line whose first non-blank character is `[` is a phase header line
  (the act phase needs the escape `\\[` exactly because such a line "would otherwise be treated as a phase
  header"); it must be `[NAME]` with NAME one of the six phases, else it is a syntax error;
* contents before the first header belong to the default phase: [act] in a main file, the phase of the
  including directive in an included file;
* a phase may be declared several times, contents are merged in file order;
* the act phase is plain source: every line up to the next header line belongs to it (also blank lines,
  comment-looking lines, `including ...`), `\\[` and `\\\\` at the first non-space position are un-escaped;
* in every other phase blank lines and `#` lines between elements are ignored, `including FILE` splices
  the contents of FILE (relative to the directory of the current file) in place, without changing the
  current phase of the including file, and everything else is an instruction, optionally preceded by a
  description within backticks (may span lines; the instruction may follow on the same line or after
  blank/comment lines);
* missing (unreadable) and cyclically included files are file access errors located at the directive.

How many lines an instruction spans is decided by a small model of the instruction sub-language that the C07
generators emit (NOT a general instruction parser): `$`/`%` take the rest of their line; a line whose last
token is `<<MARKER` is followed by a here-document that ends with a line equal to MARKER; an open `(` keeps
the instruction going until it is closed, and so does an open `{` (FILES-SOURCE, FILES-CONDITION: one file
per line between the braces); the `-stdin` part of a program "must appear on a separate line" after the
program's arguments; a trailing `||`, `&&`, `!` or list continuation `\\` continues on
the next line; an instruction that consists of its name only although it has a mandatory argument, or that
ends with `=`, is incomplete (a syntax error).  A header line never is part of such a continuation: it
"declares the start of a phase".

A list continuation directly followed by a header line has two readings (`list_reading`): 'error' (the
instruction is unfinished) and 'complete' (the list has no more elements, which is how the program treats a
continuation at end of file).

An incomplete instruction followed (after blank lines) by a line with comment syntax has no single reading:
the manual says both "comments may not appear inside instructions" and "empty lines, and lines with comment
line syntax, may be part of instructions", and "some instructions may span multiple lines ... the syntax is
not always consistent" - so the `#` line is either a comment after an erroneous instruction or (part of) the
argument of the instruction.  Only header lines and the end of the file end an instruction for certain.

When a document has several errors the manual does not say which one is reported.  The reader reports the
first one in reading order as `error` and keeps reading ("recovery": the rest of the phase block of an error
is skipped, reading goes on at the next header line; an included file with an error is left at its next
header line too) to collect `later_errors` - a superset of the further errors of the document (a skipped block
may hide the start of a here-document whose body looks like a header).

`swallow=True` reads the same text under the defect model of known finding KF-C07-1: an incomplete
instruction whose parser wants one more token (the name alone: file dir cd exists; ending with `=`: def file env
timeout stdin), one or two (`copy`) or at least one (`run`) takes the next non-blank line as its missing
argument(s) even when that line is a header line (only if that line has that many tokens, none of them a reserved
word: `[act]`, `  [setup] `, `[nophase]`, `[setup`, ..., for copy / run also `[setup] x`); a pending list continuation takes the header line that directly follows it as list elements
(not if it contains `#` or a reserved word).  The instruction then spans all lines up to and including the header
line, the phase does not change, reading goes on after the header line.
"""
import posixpath
import re

PHASES = ['conf', 'setup', 'act', 'before-assert', 'assert', 'cleanup']
DEFAULT_PHASE = 'act'

# transcribed from `exactly help instructions` (sub-check manual_agrees compares with the program's help)
_COMMON = ['$', '%', 'cd', 'copy', 'def', 'dir', 'env', 'file', 'run', 'timeout']
INSTRUCTIONS = {
    'conf': ['act-home', 'actor', 'home', 'status'],
    'setup': _COMMON + ['stdin'],
    'before-assert': list(_COMMON),
    'assert': _COMMON + ['contents', 'dir-contents', 'exists', 'exit-code', 'stderr', 'stdout'],
    'cleanup': list(_COMMON),
}
INCLUDING = 'including'

# instructions with (at least) one mandatory argument
_NEEDS_ARGUMENT = {'cd', 'copy', 'def', 'dir', 'env', 'file', 'run', 'timeout', 'stdin', 'contents', 'dir-contents',
                   'exists', 'exit-code', 'stderr', 'stdout', 'act-home', 'actor', 'home', 'status'}

_BLANKS = ' \t'
_HEREDOC_RE = re.compile(r'^<<[0-9a-zA-Z_-]+$')


def split_lines(text):
    """Lines are separated by newline; a final newline does not start another line."""
    if text == '':
        return []
    lines = text.split('\n')
    if lines[-1] == '':
        del lines[-1]
    return lines


def is_blank(line):
    return line.strip(_BLANKS) == ''


def is_comment(line):
    return line.lstrip(_BLANKS).startswith('#')


def is_header_line(line):
    return line.lstrip(_BLANKS).startswith('[')


def header_name(line):
    """-> phase name, or None if the header line is not `[NAME]` for one of the phases."""
    s = line.strip(_BLANKS)
    if len(s) >= 2 and s[0] == '[' and s[-1] == ']' and s[1:-1] in PHASES:
        return s[1:-1]
    return None


def header_error_class(line):
    s = line.strip(_BLANKS)
    if re.match(r'^\[[A-Za-z0-9_][A-Za-z0-9_ .-]*\]$', s) and s[1:-1] == s[1:-1].strip():
        return 'unknown-header'
    return 'malformed-header'


def un_escape(line):
    """`\\[` -> `[` and `\\\\` -> `\\` at the first non-space characters of an act phase line."""
    body = line.lstrip(_BLANKS)
    indent = line[:len(line) - len(body)]
    if body.startswith('\\[') or body.startswith('\\\\'):
        return indent + body[1:]
    return line


# First lines of the instruction forms this reader models (anything else: no statement is made).
_PATH = r'[^\s`"\'()=:]+'
_STR = r'("[^"`]*"|[^\s`"\'()=:]+)'
_FORMS = {
    'dir': r'dir %s( = \{)?' % _PATH,
    'cd': r'cd %s' % _PATH,
    'copy': r'copy %s( %s)?' % (_PATH, _PATH),
    'file': r'file %s( = (%s|<<\S+))?' % (_PATH, _STR),
    'env': r'env \w+ = %s' % _STR,
    'timeout': r'timeout = \d+',
    'run': r'run % [^`]+',
    'stdin': r'stdin = (%s|<<\S+)' % _STR,
    'exists': r'exists %s' % _PATH,
    'def': r'def (string \w+ = (%s|<<\S+)|list \w+ =( [\w\\]+)+|(text|integer|line)-matcher \w+ = [^`]+)' % _STR,
    'status': r'status = \S+',
    'actor': r'actor = [^`]+',
    'home': r'home = %s' % _PATH,
    'act-home': r'act-home = %s' % _PATH,
    'exit-code': r'exit-code [^`]+',
    'stdout': r'stdout [^`]+',
    'stderr': r'stderr [^`]+',
    'contents': r'contents %s : [^`]+' % _PATH,
    'dir-contents': r'dir-contents %s : [^`]+' % _PATH,
}
_FORMS = {k: re.compile('^' + v + '$') for k, v in _FORMS.items()}


# lines between the braces of a FILES-SOURCE (`help syntax FILES-SOURCE`: one FILE-SPEC per line) or FILES-CONDITION
_IN_BRACES_RE = re.compile(r'^((file|dir) %s( = (\{|<<[0-9a-zA-Z_-]+|%s))?|%s : type (file|dir)|\})$' % (_PATH, _STR, _PATH))

_RESERVED = {'[', ']', '(', ')', '{', '}', '=', '|', ':', '!', '&&', '||'}  # strings only when quoted


def _missing_argument_tokens(name, tokens):
    """defect model KF-C07-1: how many tokens the parser of the incomplete instruction reads from the following
    lines -> (min, max) (max None: any number), or None if the form is not one that takes the next line"""
    if len(tokens) == 1:
        if name in ('file', 'dir', 'cd', 'exists'):
            return 1, 1
        if name == 'copy':
            return 1, 2  # SOURCE [DESTINATION]
        if name == 'run':
            return 1, None  # PROGRAM ARGUMENT...
        return None
    if tokens[-1] == '=' and name in ('def', 'file', 'env', 'timeout', 'stdin'):
        return 1, 1
    return None


_SYMBOL_NAME_RE = re.compile(r'^[A-Z][A-Z0-9_]+$')
_CMP = {'==', '!=', '<', '<=', '>', '>='}
_PLAIN_WORD_RE = re.compile(r'^([A-Za-z0-9_.-]+|@\[[A-Za-z0-9_]+\]@)$')  # (or a symbol reference)


def _expression_kind(name, tokens):
    """-> kind of the matcher expression that the instruction ends with (and the index of its first token)"""
    if name == 'exit-code':
        return 'int', 1
    if name in ('stdout', 'stderr'):
        return 'text', 1
    if name in ('contents', 'dir-contents') and len(tokens) > 2 and tokens[2] == ':':
        return ('text' if name == 'contents' else 'files'), 3
    if name == 'def' and len(tokens) > 3 and tokens[3] == '=' and tokens[1] in ('integer-matcher', 'text-matcher',
                                                                                 'line-matcher'):
        return tokens[1].split('-')[0].replace('integer', 'int'), 4
    return None, None


def is_modelled_expression(kind, toks):
    """The matcher expressions of the modelled sub-language (`help syntax INTEGER-MATCHER` etc.):
    E := T ('||' T)* ; T := F ('&&' F)* ; F := '!' F | '(' E ')' | PRIMITIVE(kind).  True iff toks is exactly one E."""
    pos = [0]

    def peek():
        return toks[pos[0]] if pos[0] < len(toks) else None

    def take():
        pos[0] += 1
        return toks[pos[0] - 1]

    def prim(k):
        t = peek()
        if t is not None and _SYMBOL_NAME_RE.match(t):
            take()  # SYMBOL-NAME: a reference to a matcher defined elsewhere (the generators write them in capitals)
            return True
        if k == 'int':
            if t in _CMP:
                take()
                return peek() is not None and take().isdigit()
            return False
        if k == 'text':
            if t == 'is-empty':
                take()
                return True
            if t == 'equals':
                take()
                return peek() is not None and bool(_HEREDOC_RE.match(take()))
            return False
        if k == 'line':
            if t == 'line-num':
                take()
                return prim('int')
            if t == 'contents':
                take()
                return prim('text')
            return False
        if k == 'files':
            if t == 'is-empty':
                take()
                return True
            if t == 'matches':
                take()
                if peek() == '-full':
                    take()
                if peek() != '{':
                    return False
                depth = 0
                while peek() is not None:  # (the lines between the braces are checked line by line)
                    x = take()
                    depth += (x == '{') - (x == '}')
                    if depth == 0:
                        return True
            return False
        return False

    def f(k):
        t = peek()
        if t == '!':
            take()
            return f(k)
        if t == '(':
            take()
            return e(k) and peek() == ')' and bool(take())
        return prim(k)

    def t_(k):
        if not f(k):
            return False
        while peek() == '&&':
            take()
            if not f(k):
                return False
        return True

    def e(k):
        if not t_(k):
            return False
        while peek() == '||':
            take()
            if not t_(k):
                return False
        return True

    return e(kind) and pos[0] == len(toks)


class Ambiguous(Exception):
    """the manual gives no single reading of the document from here on"""


class _BudgetExceeded(Exception):
    pass


class DocError(Exception):
    def __init__(self, kind, what, path, lo, hi):
        """kind: 'syntax' | 'access'; path: [(file, line, text), ...] chain of directives;
        the error is located in the file of the last chain link's target ... see `as_dict`."""
        Exception.__init__(self, what)
        self.kind, self.what, self.path, self.lo, self.hi = kind, what, path, lo, hi


class Reader:
    def __init__(self, files, swallow=False, list_reading='error', max_files=10000, symlinks=None):
        """files: normalised relative posix path -> text; a value of None is a directory;
        symlinks: path -> path of the regular file it points to (same directory)"""
        self.files = files
        self.symlinks = symlinks or {}
        self.swallow = swallow
        self.list_reading = list_reading
        self.phases = {p: [] for p in PHASES}
        self.labels = set()
        self.error = None
        self.later_errors = []
        self.ambiguous = None
        self.ambiguous_at = None  # [line of each including directive ..., first line of the element] (reading order)
        self.max_depth = 0
        self.n_inclusions = 0
        self.headers_seen = []  # (file, phase) in reading order
        self.swallowed = 0
        self.borders = {}  # file -> indices of its top level header lines (files that were read)
        self._visited = set()
        self._included = set()
        self._budget = max_files
        self._recovering = False
        self._labels_of_reading = self.labels

    # ---- public ---------------------------------------------------------
    def read(self, root):
        try:
            self._read_file(root, DEFAULT_PHASE, [], [posixpath.normpath(root)])
        except Ambiguous as ex:
            self.ambiguous = str(ex)
            self.ambiguous_at = ex.place
            self.labels.add('no-single-reading:' + str(ex))
        except _BudgetExceeded:
            pass  # (only while collecting later errors)
        self.labels = self._labels_of_reading
        if self.later_errors:
            self.labels.add('several-errors')
        return self

    def _record(self, ex):
        """the first error is THE error of the reading; the reader then goes on only to collect later errors"""
        e = {'kind': ex.kind, 'what': ex.what, 'chain': [list(c) for c in ex.path[:-1]],
             'file': ex.path[-1][0], 'lo': ex.lo, 'hi': ex.hi}
        if self.error is None:
            self.error = e
            self.labels.add('err:' + ex.what)
            self._recovering = True
            self.labels = set()  # labels describe the reading up to the first error only
        elif e not in self.later_errors:
            self.later_errors.append(e)

    def result(self):
        return {'phases': self.phases, 'error': self.error}

    # ---- reading --------------------------------------------------------
    def _err(self, kind, what, chain, file, lo, hi=None):
        return DocError(kind, what, list(chain) + [(file, lo, None)], lo, lo if hi is None else hi)

    def _read_file(self, path, default_phase, chain, stack):
        lines = split_lines(self.files[self.symlinks.get(path, path)])
        phase = default_phase
        if not self._recovering:
            self.max_depth = max(self.max_depth, len(chain))
        n = len(lines)
        i = 0
        declared = []
        borders = self.borders.setdefault(path, [])
        first_visit = not borders and path not in self._visited
        self._visited.add(path)
        while i < n:
            line = lines[i]
            try:
                if is_header_line(line):
                    if first_visit:
                        borders.append(i)
                    name = header_name(line)
                    if name is None:
                        phase = None  # (recovery) contents of an unknown phase: skipped
                        raise self._err('syntax', header_error_class(line), chain, path, i + 1)
                    if name in declared:
                        self.labels.add('repeated-phase')
                    declared.append(name)
                    if line != '[%s]' % name:
                        self.labels.add('header-with-blanks')
                    self.headers_seen.append((path, name))
                    phase = name
                    i += 1
                    continue
                if phase is None:
                    i += 1
                    continue
                if phase == 'act':
                    self._act_line(path, i, line, chain)
                    i += 1
                    continue
                if is_blank(line):
                    self.labels.add('blank')
                    i += 1
                    continue
                if is_comment(line):
                    self.labels.add('comment')
                    i += 1
                    continue
                tokens = line.split()
                if tokens[0] == INCLUDING:
                    self._include(path, i, line, tokens, phase, chain, stack)
                    i += 1
                    continue
                i = self._instruction(path, lines, i, phase, chain)
            except DocError as ex:
                self._record(ex)
                if ex.kind == 'syntax':
                    phase = None  # the rest of the block has no certain reading: skip to the next header line
                i += 1
            except Ambiguous as ex:
                if not self._recovering:
                    if getattr(ex, 'place', None) is None:
                        ex.place = [c[1] for c in chain] + [i + 1]
                    raise
                phase = None
                i += 1

    def _act_line(self, path, i, line, chain):
        text = un_escape(line)
        if text != line:
            self.labels.add('act-escaped')
        elif is_blank(line):
            self.labels.add('act-blank')
        elif is_comment(line):
            self.labels.add('act-comment')
        elif line.split()[0] == INCLUDING:
            self.labels.add('act-including-looking')
        else:
            self.labels.add('act-line')
        if chain:
            self.labels.add('act-in-included')
        if not self._recovering:
            self.phases['act'].append({'file': path, 'line': i + 1, 'text': text, 'chain': [list(c) for c in chain]})

    def _include(self, path, i, line, tokens, phase, chain, stack):
        if len(tokens) != 2:
            raise self._err('syntax', 'including-arity', chain, path, i + 1)
        if tokens[1].startswith('{HOME}/'):
            # an absolute path ({HOME} stands for the directory that the paths of `files` are relative to)
            target = posixpath.normpath(tokens[1][len('{HOME}/'):])
            self.labels.add('inclusion-absolute-path')
        else:
            target = posixpath.normpath(posixpath.join(posixpath.dirname(path), tokens[1]))
        link = (path, i + 1, line)
        here = list(chain) + [link]
        real = self.symlinks.get(target, target)  # the file itself, whatever it is called
        if real != target:
            self.labels.add('inclusion-through-symlink')
        if self.files.get(real) is None:
            what = 'include-directory' if real in self.files or self._is_dir(real) else 'include-missing'
            raise DocError('access', what, here, i + 1, i + 1)
        if real in stack:
            raise DocError('access', 'include-cycle' if real != self.symlinks.get(path, path) else 'include-self',
                           here, i + 1, i + 1)
        self._budget -= 1
        if self._budget < 0:
            if self._recovering:
                raise _BudgetExceeded()
            raise RuntimeError('reference reader: inclusion budget exceeded (generator bug)')
        self.n_inclusions += 1
        self.labels.add('inclusion')
        if real in self._included:
            self.labels.add('included-twice')  # (diamond: the same file spliced in at several places)
        self._included.add(real)
        if posixpath.dirname(target) != posixpath.dirname(path):
            self.labels.add('inclusion-other-dir')
        before = len(self.headers_seen)
        self._read_file(target, phase, here, stack + [real])
        if any(p != phase for _, p in self.headers_seen[before:]):
            self.labels.add('included-switches-phase')

    def _is_dir(self, target):
        prefix = target.rstrip('/') + '/'
        return any(k.startswith(prefix) for k in self.files)

    def _instruction(self, path, lines, i, phase, chain):
        """Reads the element that starts at line index i; returns the index of the line after it."""
        n = len(lines)
        first = i
        line = lines[i]
        body = line.lstrip(_BLANKS)
        desc = None
        same_line_desc = False
        if body.startswith('`'):
            rest = '\n'.join([body] + lines[i + 1:])
            end = rest.find('`', 1)
            if end < 0:
                raise self._err('syntax', 'description-unterminated', chain, path, first + 1)
            desc = rest[1:end]
            i += rest.count('\n', 0, end)
            if i > first:
                self.labels.add('description-multi-line')
            after = rest[end + 1:].split('\n', 1)[0]
            if is_blank(after):
                i += 1
                gap = 0
                while i < n and (is_blank(lines[i]) or is_comment(lines[i])):
                    i += 1
                    gap += 1
                if i >= n:
                    raise self._err('syntax', 'description-without-instruction', chain, path, first + 1, n)
                if gap:
                    self.labels.add('description-gap')
                self.labels.add('description-on-previous-line')
                body = lines[i].lstrip(_BLANKS)
            else:
                body = after.lstrip(_BLANKS)
                same_line_desc = True
                self.labels.add('description-on-same-line')
            if is_header_line(lines[i]) and not same_line_desc:
                raise self._err('syntax', 'description-then-header', chain, path, first + 1, i + 1)
        start = i
        tokens = body.split()
        name = tokens[0]
        if name not in INSTRUCTIONS[phase] or (desc is not None and name == INCLUDING):
            raise self._err('syntax', 'unknown-instruction', chain, path, first + 1, start + 1)
        end = self._extent(path, lines, start, body, name, chain, first)
        src = [body] + lines[start + 1:end]
        el = {'file': path, 'line': start + 1, 'lines': src, 'desc': desc, 'chain': [list(c) for c in chain],
              'full_first_line': lines[start]}
        if not self._recovering:
            self.phases[phase].append(el)
        if end - start > 1:
            self.labels.add('multi-line-element')
        else:
            self.labels.add('one-line-instruction')
        return end

    def _extent(self, path, lines, start, body, name, chain, first):
        """-> index after the last line of the instruction that starts at `start` (its first line text is body)"""
        n = len(lines)

        def bad(what):
            return self._err('syntax', what, chain, path, first + 1, start + 1)

        tokens = body.split()
        if name in ('$', '%'):
            if len(tokens) < 2:
                raise bad('incomplete-instruction')
            return start + 1
        if (len(tokens) == 1 and name in _NEEDS_ARGUMENT) or tokens[-1] == '=':
            # incomplete: the mandatory argument / the value is missing on this line
            k = start + 1
            while k < n and is_blank(lines[k]):
                k += 1
            if k > start + 1:
                self.labels.add('incomplete-then-blank')
            if k < n and is_comment(lines[k]):
                # a comment after an erroneous instruction, or the argument (a line with comment syntax that is
                # part of an instruction): both are documented
                raise Ambiguous('incomplete-then-comment')
            if k >= n:
                self.labels.add('incomplete-then-eof')
            elif is_header_line(lines[k]):
                self.labels.add('incomplete-then-header')
                takes = _missing_argument_tokens(name, tokens) if self.swallow else None
                given = lines[k].split()
                if takes is not None and takes[0] <= len(given) and (takes[1] is None or len(given) <= takes[1]) \
                        and not any(t in _RESERVED for t in given):
                    self.swallowed += 0 if self._recovering else 1
                    return k + 1
            else:
                # "some [instructions] may span multiple lines ... the syntax is not always consistent":
                # error here, or the following line is the argument - no single documented reading
                raise Ambiguous('incomplete-then-other')
            raise bad('incomplete-instruction')
        if not _FORMS[name].match(' '.join(tokens)):
            raise Ambiguous('instruction-outside-model')
        depth = 0
        braces = 0
        k = start
        cont = False
        stdin_seen = False
        in_list = False
        all_toks = []
        while True:
            toks = tokens if k == start else lines[k].split()
            if toks:
                all_toks.extend(toks)
                if braces > 0 and not _IN_BRACES_RE.match(' '.join(toks)):
                    raise Ambiguous('instruction-outside-model')  # only these file specs / conditions are modelled
                if in_list and not all(_PLAIN_WORD_RE.match(x) for x in (toks[:-1] if toks[-1] == '\\' else toks)):
                    raise Ambiguous('instruction-outside-model')  # (reserved words, quotes ... in a continued list)
                in_list = False
                depth += toks.count('(') - toks.count(')')
                if depth < 0:
                    raise bad('unbalanced-parenthesis')
                if braces > 0 or (k == start and toks[-1] == '{'):
                    # (braces are modelled only where a FILES-SOURCE / FILES-CONDITION starts at the end of the
                    # first line; anywhere else `{` and `}` are just tokens of the lines of the instruction)
                    braces += toks.count('{') - toks.count('}')
                    self.labels.add('braces-multi-line')
                if _HEREDOC_RE.match(toks[-1]) and len(toks) > 1:
                    marker = toks[-1][2:]
                    m = k + 1
                    while m < n and lines[m] != marker:
                        m += 1
                    if m >= n:
                        raise bad('here-doc-unterminated')
                    self.labels.add('here-doc')
                    body_lines = lines[k + 1:m]
                    if any(is_header_line(x) for x in body_lines):
                        self.labels.add('here-doc-with-header-line')
                    if any(is_comment(x) or is_blank(x) for x in body_lines):
                        self.labels.add('here-doc-with-comment-or-blank')
                    if any(x.split()[:1] == [INCLUDING] for x in body_lines):
                        self.labels.add('here-doc-with-directive-line')
                    if m == n - 1:
                        self.labels.add('here-doc-ends-at-eof')
                    k = m
                    cont = depth > 0 or braces > 0
                elif toks[-1] == '\\':
                    # "An unquoted \\ at END-OF-LINE makes the list continue on the next line"
                    self.labels.add('list-continuation')
                    if k + 1 < n and is_header_line(lines[k + 1]):
                        self.labels.add('list-continuation-then-header')
                        if self.swallow and '#' not in lines[k + 1]:
                            if any(t in _RESERVED for t in lines[k + 1].split()):
                                raise bad('instruction-interrupted-by-header')  # a bare reserved word is no string
                            self.swallowed += 0 if self._recovering else 1
                            return k + 2
                        if self.list_reading == 'complete':
                            return k + 1  # the list simply has no more elements (as it has at end of file)
                        raise bad('instruction-interrupted-by-header')
                    if k + 1 >= n or is_blank(lines[k + 1]) or is_comment(lines[k + 1]):
                        raise Ambiguous('list-continuation-dangling')
                    cont = True
                    in_list = True
                elif toks[-1] in ('||', '&&', '!'):
                    cont = True
                    self.labels.add('operator-continuation')
                else:
                    cont = depth > 0 or braces > 0
            if not cont and name == 'run' and not stdin_seen:
                # help syntax program: STDIN "must appear on a separate line"
                j = k + 1
                while j < n and is_blank(lines[j]):
                    j += 1
                if j < n and lines[j].split()[:1] == ['-stdin']:
                    if j > k + 1:
                        raise Ambiguous('program-stdin-after-blank-lines')  # (may empty lines precede it? silent)
                    self.labels.add('program-stdin-on-next-line')
                    stdin_seen = True
                    cont = True
            if not cont:
                kind, at = _expression_kind(name, tokens)
                if kind is not None and not is_modelled_expression(kind, all_toks[at:]):
                    raise Ambiguous('instruction-outside-model')
                return k + 1
            k += 1
            if k >= n:
                raise bad('instruction-unterminated')
            if is_header_line(lines[k]):
                raise bad('instruction-interrupted-by-header')
            if depth > 0:
                self.labels.add('parenthesis-multi-line')


def read_document(files, root, swallow=False, list_reading='error', symlinks=None):
    return Reader(files, swallow=swallow, list_reading=list_reading, symlinks=symlinks).read(root)


