"""C16 reference model of a suite run - written from the manual (`help suite spec`, `help suite cases`,
`help suite suites`, `help suite`, `help reporter progress`, `help reporter junit`) and the property text.
Independent of the code under test (does NOT import exactly_lib) and of the real file system: it interprets a
*description* of a directory tree (the same `nodes` list the check materialises) and the texts of the suite files.

nodes: list of [relpath, kind, payload] in creation order
    kind 'suite' payload = text of the suite file
    kind 'case'  payload = {'id': .., 'o': outcome, ...}    (o == 'DIR' : the "case file" is a directory)
    kind 'dir'   payload = None
    kind 'link'  payload = link target (relative to the directory of the link)
    kind 'raw'   payload = text (a file that is neither suite nor case)
    kind 'badsuite' payload = text (a suite file that starts with bytes that are not UTF-8: cannot be read)

model(nodes, root_arg) -> Model (see class).
"""
import posixpath
import re

DEFAULT_SUITE_FILE = 'exactly.suite'
SECTIONS_LISTING = ('cases', 'suites')
SECTIONS_INSTRUCTIONS = ('conf', 'setup', 'act', 'before-assert', 'assert', 'cleanup')
GLOB_CHARS = ('*', '?', '[')

# lines in instruction sections of a suite file that the model knows to be correct / incorrect
# (the model does not know the instruction language; anything else puts the input outside its domain)
_KNOWN_GOOD_INSTRUCTION_LINES = [
    re.compile(r'^preprocessor = sh \{HOME\}/pp\.sh$'),
    re.compile(r'^env C16_VAR = [a-z0-9]+$'),
    re.compile(r'^def string C16_SYM = [a-z0-9]+$'),
]
_KNOWN_BAD_INSTRUCTION_LINES = [
    re.compile(r'^no-such-instruction( .*)?$'),
    re.compile(r'^preprocessor$'),
    re.compile(r'^status = BOGUS$'),
]

_HEADER_RE = re.compile(r'^\s*\[([^\[\]]*)\]\s*$')


class VFS:
    """Directory tree with symbolic links; paths are '/'-separated and relative to the (virtual) cwd ''."""

    def __init__(self, nodes):
        self.e = {'': ('dir', None)}
        self.order = {}
        for path, kind, payload in nodes:
            path = posixpath.normpath(path)
            parts = path.split('/')
            for i in range(1, len(parts)):
                self.e.setdefault('/'.join(parts[:i]), ('dir', None))
            if kind == 'dir':
                self.e.setdefault(path, ('dir', None))
            elif kind == 'case' and payload.get('o') == 'DIR':
                self.e[path] = ('dir', payload)
            elif kind == 'link':
                self.e[path] = ('link', payload)
            else:
                self.e[path] = (kind, payload)

    def children(self, real_dir):
        pre = real_dir + '/' if real_dir else ''
        out = []
        for p in self.e:
            if p and p.startswith(pre) and '/' not in p[len(pre):]:
                out.append(p[len(pre):])
        return out

    def resolve(self, path, _depth=0):
        """Physical resolution (as the kernel / realpath do).  -> real path, or None if it does not exist
        (or leaves the virtual root, or loops)."""
        if _depth > 20:
            return None
        stack = []
        comps = [c for c in path.split('/')]
        if path.startswith('/'):
            return None
        i = 0
        while i < len(comps):
            c = comps[i]
            i += 1
            if c in ('', '.'):
                continue
            cur = '/'.join(stack)
            if self.e.get(cur, (None,))[0] != 'dir':
                return None
            if c == '..':
                if not stack:
                    return None
                stack.pop()
                continue
            cand = (cur + '/' + c) if cur else c
            ent = self.e.get(cand)
            if ent is None:
                return None
            if ent[0] == 'link':
                target = ent[1]
                rest = '/'.join(comps[i:])
                joined = (cur + '/' if cur else '') + target + ('/' + rest if rest else '')
                return self.resolve(joined, _depth + 1)
            stack.append(c)
        return '/'.join(stack)

    def kind(self, path):
        """kind of what the path leads to (links followed): 'dir' | 'suite' | 'case' | 'raw' | None"""
        r = self.resolve(path)
        if r is None:
            return None
        return self.e[r][0]

    def is_link(self, real_parent, name):
        p = (real_parent + '/' + name) if real_parent else name
        return self.e.get(p, (None,))[0] == 'link'


def _join(d, name):
    return name if d in ('', '.') else d + '/' + name


def _component_regex(comp):
    out = []
    i = 0
    while i < len(comp):
        c = comp[i]
        if c == '*':
            out.append('[^/]*')
        elif c == '?':
            out.append('[^/]')
        elif c == '[':
            j = comp.find(']', i + 2)
            if j < 0:
                out.append(re.escape(c))
            else:
                body = comp[i + 1:j]
                neg = body.startswith('!')
                if neg:
                    body = body[1:]
                out.append('[' + ('^' if neg else '') + body.replace('\\', '\\\\') + ']')
                i = j
        else:
            out.append(re.escape(c))
        i += 1
    return re.compile('^' + ''.join(out) + '$', re.S)


def _has_magic(s):
    return any(ch in s for ch in GLOB_CHARS)


class Glob:
    def __init__(self, vfs):
        self.vfs = vfs
        self.doubt = []  # reasons why the result is not determined by the manual

    def expand(self, base_dir, pattern):
        """-> list of spelled paths (base_dir joined with the matched relative path), unsorted"""
        comps = [c for c in pattern.split('/') if c != '']
        if pattern.startswith('/'):
            self.doubt.append('absolute-pattern')
            return []
        if comps and comps[-1] == '**':
            self.doubt.append('trailing-**')
        res = []
        self._walk(base_dir, '', comps, res)
        seen = set()
        out = []
        for r in res:
            if r not in seen:
                seen.add(r)
                out.append(r)
        return [(_join(base_dir, r), r) for r in out]

    def _walk(self, base_dir, rel, comps, res):
        cur = _join(base_dir, rel) if rel else (base_dir or '.')
        if not comps:
            res.append(rel)
            return
        c, rest = comps[0], comps[1:]
        real = self.vfs.resolve(cur)
        if real is None or self.vfs.e[real][0] != 'dir':
            return
        if c == '**':
            # this directory and every directory below it
            self._walk(base_dir, rel, rest, res)
            for name in sorted(self.vfs.children(real)):
                sub = _join(rel, name) if rel else name
                if self.vfs.is_link(real, name):
                    if self.vfs.kind(_join(cur, name)) == 'dir':
                        self.doubt.append('**-meets-directory-link')
                    continue
                if self.vfs.kind(_join(cur, name)) == 'dir':
                    self._walk(base_dir, sub, comps, res)
            return
        if not _has_magic(c):
            sub = _join(rel, c) if rel else c
            if self.vfs.resolve(_join(cur, c)) is not None:
                if rest:
                    self._walk(base_dir, sub, rest, res)
                else:
                    res.append(sub)
            return
        rx = _component_regex(c)
        for name in self.vfs.children(real):
            if name.startswith('.'):
                self.doubt.append('hidden-file')
            if rx.match(name):
                sub = _join(rel, name) if rel else name
                if rest:
                    if self.vfs.kind(_join(cur, name)) == 'dir':
                        self._walk(base_dir, sub, rest, res)
                else:
                    if self.vfs.resolve(_join(cur, name)) is None:
                        self.doubt.append('broken-link-matched')
                    res.append(sub)


def sort_variants(pairs):
    """pairs: (spelled, relative).  "Sorted" can mean by the text or component by component: -> list of orderings
    (one if both readings agree)."""
    a = [p for p, _ in sorted(pairs, key=lambda pr: pr[0])]
    b = [p for p, _ in sorted(pairs, key=lambda pr: pr[0].split('/'))]
    return [a] if a == b else [a, b]


class ParsedSuite:
    def __init__(self):
        self.suites = []  # (line number, token)
        self.cases = []
        self.syntax_errors = []
        self.doubt = []
        self.has_preprocessor = False


class QuotedName(str):
    """a listing line written as one quoted token: a plain file name, whatever characters it contains (the manual
    does not describe quoting in suite files; the repository's own tests of the listing-line parser fix the reading:
    `'quoted file name with wild-cards **'` is the file of that name, and "Exactly does not put any restriction on
    file names")"""


def _whole_line_quoted(s):
    if len(s) >= 3 and s[0] in '\'"' and s[-1] == s[0]:
        inner = s[1:-1]
        if not any(ch in inner for ch in '\'"\\') and inner == inner.strip():
            return QuotedName(inner)
    return None


def parse_suite_text(text):
    ps = ParsedSuite()
    section = 'cases'  # "This is the default section."
    for n, line in enumerate(text.split('\n'), 1):
        s = line.strip()
        if s == '' or s.startswith('#'):
            continue
        m = _HEADER_RE.match(line)
        if m:
            name = m.group(1)
            if name in SECTIONS_LISTING or name in SECTIONS_INSTRUCTIONS:
                section = name
            else:
                ps.syntax_errors.append((n, 'unknown section ' + name))
                # what follows belongs to no section; stop reading (any error makes the suite invalid)
                break
            continue
        if section in SECTIONS_LISTING:
            if line != s:
                ps.doubt.append('surrounding-space')
            if s.startswith('['):
                ps.doubt.append('line-starts-with-bracket')
            q = _whole_line_quoted(s)
            if q is not None:
                (ps.suites if section == 'suites' else ps.cases).append((n, q))
                continue
            if any(ch in s for ch in '\'"\\'):
                ps.doubt.append('quoting')
            toks = s.split()
            if len(toks) != 1:
                ps.syntax_errors.append((n, 'more than one file name on a line'))
                continue
            (ps.suites if section == 'suites' else ps.cases).append((n, toks[0]))
        else:
            if any(r.match(s) for r in _KNOWN_GOOD_INSTRUCTION_LINES):
                if s.startswith('preprocessor'):
                    ps.has_preprocessor = True
                    if section != 'conf':
                        ps.syntax_errors.append((n, 'preprocessor outside conf'))
                continue
            if any(r.match(s) for r in _KNOWN_BAD_INSTRUCTION_LINES):
                ps.syntax_errors.append((n, 'invalid instruction'))
                continue
            ps.doubt.append('instruction-unknown-to-the-model')
    return ps


class SuiteNode:
    def __init__(self, spelled, real):
        self.spelled = spelled
        self.real = real
        self.case_segments = []  # list of segments; a segment = list of alternative orderings of spelled paths
        self.sub_segments = []
        self.children = []  # SuiteNode, listing order (first alternative)
        self.has_preprocessor = False

    def cases_first_reading(self):
        return [p for seg in self.case_segments for p in seg[0]]


class Model:
    def __init__(self):
        self.usage = False            # invalid command line (exit 64)
        self.invalid = []             # reasons that make the run INVALID_SUITE
        self.either = []              # reasons for which the manual allows INVALID_SUITE as well as execution
        self.out_of_domain = []       # the model cannot tell (generator should avoid)
        self.order_doubt = False      # two readings of "sorted" differ somewhere
        self.processing_order = []    # SuiteNode in processing order (valid only if not invalid)
        self.root = None
        self.features = set()
        self.depth = 0
        self.vfs = None

    @property
    def valid(self):
        return not self.usage and not self.invalid


def model(nodes, root_arg):
    m = Model()
    vfs = VFS(nodes)
    m.vfs = vfs
    # --- the command line ("FILES": a directory that contains exactly.suite stands for that file)
    k = vfs.kind(root_arg)
    if k is None:
        m.usage = True
        return m
    root_spelled = root_arg
    if k == 'dir':
        root_spelled = _join(root_arg.rstrip('/'), DEFAULT_SUITE_FILE)
        k2 = vfs.kind(root_spelled)
        if k2 is None or k2 == 'dir':
            m.usage = True
            return m
        m.features.add('root:dir-arg')
        k = k2
    if k not in ('suite', 'badsuite'):
        m.out_of_domain.append('root is not a suite file')
        return m
    visited = {vfs.resolve(root_spelled): 1}
    listed_cases = {}

    def read(spelled, depth):
        real = vfs.resolve(spelled)
        node = SuiteNode(spelled, real)
        m.depth = max(m.depth, depth)
        if vfs.e[real][0] == 'badsuite':
            # "INVALID_SUITE  There was an error reading the test suite."
            m.invalid.append('unreadable-suite:%s' % spelled)
            m.features.add('unreadable-suite')
            return node
        ps = parse_suite_text(vfs.e[real][1])
        node.has_preprocessor = ps.has_preprocessor
        for d in ps.doubt:
            m.out_of_domain.append('%s: %s' % (spelled, d))
        for n, what in ps.syntax_errors:
            m.invalid.append('syntax:%s line %d: %s' % (spelled, n, what))
        sdir = posixpath.dirname(spelled)
        if (vfs.resolve(sdir or '.') or '') != posixpath.dirname(real):
            # "File names are relative the location of the test suite file": of the link or of the file?
            m.out_of_domain.append('suite file reached through a link from another directory: ' + spelled)
        sub_paths = []
        # [suites]
        for n, tok in ps.suites:
            seg = resolve_line(sdir, tok, 'suite', spelled, n)
            if seg is None:
                continue
            node.sub_segments.append(seg)
            for p in seg[0]:
                rp = vfs.resolve(p)
                if rp in visited:
                    visited[rp] += 1
                    m.invalid.append('double-inclusion:%s line %d: %s' % (spelled, n, p))
                else:
                    visited[rp] = 1
                    sub_paths.append(p)
        # [cases]
        for n, tok in ps.cases:
            seg = resolve_line(sdir, tok, 'case', spelled, n)
            if seg is None:
                continue
            node.case_segments.append(seg)
            for p in seg[0]:
                rp = vfs.resolve(p)
                listed_cases[rp] = listed_cases.get(rp, 0) + 1
        for p in sub_paths:
            if depth >= 12:
                m.out_of_domain.append('too deep')
                break
            node.children.append(read(p, depth + 1))
        return node

    def resolve_line(sdir, tok, what, spelled, n):
        """-> segment (list of alternative orderings) or None when the line makes the suite invalid"""
        if isinstance(tok, QuotedName):
            m.features.add('quoted-name')
            if _has_magic(tok):
                m.features.add('quoted-name:wildcard-characters')
        if _has_magic(tok) and not isinstance(tok, QuotedName):
            g = Glob(vfs)
            pairs = g.expand(sdir, tok)
            for d in g.doubt:
                m.out_of_domain.append('%s line %d: %s' % (spelled, n, d))
            m.features.add('glob:' + what)
            if '**' in tok:
                m.features.add('glob:recursive')
            if not pairs:
                m.features.add('glob:empty')
            if len(pairs) > 1:
                m.features.add('glob:multi')
            variants = sort_variants(pairs)
            if len(variants) > 1:
                m.order_doubt = True
            checked = [[check_path(p, what, spelled, n, True) for p in v] for v in variants]
            if any(x is None for x in checked[0]):
                return None
            return checked
        p = _join(sdir, tok)
        if tok != posixpath.normpath(tok) or '..' in tok.split('/'):
            m.features.add('spelling')
        q = check_path(p, what, spelled, n, False)
        if q is None:
            return None
        return [[q]]

    def check_path(p, what, spelled, n, from_glob):
        k = vfs.kind(p)
        if k is None:
            m.invalid.append('missing-%s:%s line %d: %s' % (what, spelled, n, p))
            return None
        rp = vfs.resolve(p)
        if rp != posixpath.normpath(p):
            m.features.add('symlink-ref')
        if what == 'case':
            if k == 'dir':
                # "a reference to a non-existing case ... file": a directory is not a case file, but it exists.
                # "At least one test case could not be executed" => ERROR is the other reading.
                m.either.append('case-is-directory:%s line %d: %s' % (spelled, n, p))
                return p
            if k != 'case':
                m.out_of_domain.append('listed as case but is a %s: %s' % (k, p))
            return p
        # suite
        if k == 'dir':
            q = _join(p, DEFAULT_SUITE_FILE)
            kq = vfs.kind(q)
            if kq is None or kq == 'dir':
                m.invalid.append('dir-without-default-suite:%s line %d: %s' % (spelled, n, p))
                if from_glob:
                    # "Each line specifies zero or more test suites": whether a matched directory that is no
                    # suite is an error or just not a suite is not said
                    m.out_of_domain.append('glob matches a directory that is no suite: ' + p)
                return None
            m.features.add('dirref')
            if kq not in ('suite', 'badsuite'):
                m.out_of_domain.append('default suite file is a %s: %s' % (kq, q))
                return None
            return q
        if k not in ('suite', 'badsuite'):
            m.out_of_domain.append('listed as suite but is a %s: %s' % (k, p))
            return None
        return p

    m.root = read(root_spelled, 1)
    for rp, cnt in listed_cases.items():
        if cnt > 1:
            m.out_of_domain.append('case listed more than once: %s' % rp)

    def post(node):
        for c in node.children:
            post(c)
        m.processing_order.append(node)

    if not m.invalid:
        post(m.root)
    return m


# ---- verdicts -----------------------------------------------------------------------------------------
SUCCESS_IDENTIFIERS = ('PASS', 'SKIPPED', 'XFAIL')   # `help reporter progress`: OK iff all in this set
ALL_CASE_IDENTIFIERS = ('PASS', 'FAIL', 'XFAIL', 'XPASS', 'SKIPPED', 'VALIDATION_ERROR', 'HARD_ERROR', 'SYNTAX_ERROR',
                        'FILE_ACCESS_ERROR', 'PRE_PROCESS_ERROR', 'INTERNAL_ERROR')
ERROR_IDENTIFIERS = ('VALIDATION_ERROR', 'HARD_ERROR', 'SYNTAX_ERROR', 'FILE_ACCESS_ERROR', 'PRE_PROCESS_ERROR',
                     'INTERNAL_ERROR')

# outcome assigned by the generator -> (acceptable identifiers, is the case's action executed?)
OUTCOMES = {
    'PASS': (('PASS',), True),
    'FAIL': (('FAIL',), True),
    'XFAIL': (('XFAIL',), True),
    'XPASS': (('XPASS',), True),
    'SKIPPED': (('SKIPPED',), False),
    'VALIDATION_ERROR': (('VALIDATION_ERROR',), False),
    'HARD_ERROR': (('HARD_ERROR',), True),
    'SYNTAX_ERROR': (('SYNTAX_ERROR',), False),
    'ACT_SYNTAX_ERROR': (('SYNTAX_ERROR',), False),
    'FILE_ACCESS_ERROR': (('FILE_ACCESS_ERROR',), False),
    'PRE_PROCESS_ERROR': (('PRE_PROCESS_ERROR',), False),
    # unreadable case files: the manual names no identifier ("could not be executed"): any error identifier
    'UNDECODABLE': (ERROR_IDENTIFIERS, False),
    'DIR': (ERROR_IDENTIFIERS, False),
}


def is_success_outcome(o):
    return all(i in SUCCESS_IDENTIFIERS for i in OUTCOMES[o][0])


EXIT_OK, EXIT_INVALID, EXIT_ERROR, EXIT_USAGE = 0, 3, 4, 64
