#!/usr/bin/env python3
"""Probe child program used by the /verif checks.

usage: probe.py OUT ARGS...

Appends one JSON line to OUT describing what this process received (argv after
OUT, stdin, cwd, environment, pid).  Optional behaviour is read from the JSON
file OUT + '.cfg' if it exists:
  exit (int), stdout (str), stderr (str), sleep (float), ignore_sigterm (bool),
  no_stdin (bool: do not read stdin), tag (any)
Only the standard library is used; the program is harmless by construction.
"""
import json
import os
import signal
import sys
import time


def main() -> int:
    if len(sys.argv) < 2:
        return 99
    out = sys.argv[1]
    cfg = {}
    try:
        with open(out + '.cfg') as f:
            cfg = json.load(f)
    except (OSError, ValueError):
        cfg = {}
    if cfg.get('ignore_sigterm'):
        signal.signal(signal.SIGTERM, signal.SIG_IGN)
    rec = {
        'argv': sys.argv[2:],
        'cwd': os.getcwd(),
        'env': dict(os.environ),
        'pid': os.getpid(),
        'tag': cfg.get('tag'),
        'stdin': None,
    }
    if cfg.get('early'):
        # record before doing anything that may block (used by timeout checks)
        with open(out, 'a') as f:
            f.write(json.dumps(dict(rec, early=True)) + '\n')
    if not cfg.get('no_stdin'):
        try:
            data = sys.stdin.buffer.read()
            rec['stdin'] = data.decode('utf-8', errors='surrogateescape')
        except Exception as ex:  # closed stdin etc.
            rec['stdin'] = None
            rec['stdin_error'] = repr(ex)
    if not cfg.get('early'):
        with open(out, 'a') as f:
            f.write(json.dumps(rec) + '\n')
    if cfg.get('stdout'):
        sys.stdout.write(cfg['stdout'])
        sys.stdout.flush()
    if cfg.get('stderr'):
        sys.stderr.write(cfg['stderr'])
        sys.stderr.flush()
    s = cfg.get('sleep')
    if s:
        end = time.time() + float(s)
        while True:
            left = end - time.time()
            if left <= 0:
                break
            time.sleep(min(left, 0.5))
    return int(cfg.get('exit', 0))


if __name__ == '__main__':
    sys.exit(main())
