"""Coverage-guided campaigns (atheris / libFuzzer) as sub-checks of a property.

A campaign drives an existing ``check(case) -> Verdict`` of a property module: libFuzzer mutates a byte string,
the module's ``decode(bytes) -> case | None`` turns it into a JSON case (structured decoding: bytes select tokens
of a fixed, harmless vocabulary), the semantic oracle inside ``check`` decides.  The campaign does not stop at the
first mismatch: mismatches are collected per bucket (smallest decoded case wins) and reported at the end, each as
a replay file of the *plain* sub-check (``./check <ID> --replay F`` re-runs it without atheris).

``fuzz_sub(...)`` gives a ``Sub`` whose enumerated cases are campaign descriptors (one per shard); its check
function runs ``python -m vlib.fuzz_worker`` as a sub-process (libFuzzer ends the process with exit(), so the
worker writes its statistics to a JSON file while it runs) and folds the statistics into the runner's counters
through ``Verdict.extra``.

Reproducibility: ``-seed`` is derived from VERIF_SEED and the shard, ``-runs`` bounds the campaign, the corpus
directory is fresh; libFuzzer pins a campaign only approximately, the saved decoded case is the reproducible unit.
"""
import json
import os
import subprocess
import sys
import tempfile

from vlib.runner import Sub, Verdict, VERIF_DIR


def fuzz_sub(name, module, check, decode, target_sub, runs, shards=None, max_len=96, instrument=('exactly_lib',),
             seeds=(), timeout_s=None):
    """
    :param module: dotted module name of the property module
    :param check: name of the check function in that module (case -> Verdict)
    :param decode: name of the decoder function in that module (bytes -> case or None)
    :param target_sub: name of the plain Sub whose check is `check` (replay files refer to it)
    :param runs: {'quick': executions per campaign (all shards together), 'thorough': ...}
    :param seeds: initial corpus (byte strings); the empty corpus is used by every second shard
    """
    shards = shards or {'quick': 4, 'thorough': 16}

    def enum(tier):
        vseed = int(os.environ.get('VERIF_SEED', '1') or '1')
        scale = float(os.environ.get('VERIF_SCALE', '1'))
        n = shards[tier]
        per = max(200, int(runs[tier] * scale) // n)
        for k in range(n):
            yield {'campaign': name, 'shard': k, 'runs': per, 'seed': vseed * 100 + k + 1, 'max_len': max_len,
                   'with_seed_corpus': k % 2 == 0}

    def run_campaign(case) -> Verdict:
        work = os.environ.get('VERIF_WORK') or tempfile.gettempdir()
        d = tempfile.mkdtemp(prefix='fuzz-%s-%d-' % (name, case['shard']), dir=work)
        corpus = os.path.join(d, 'corpus')
        os.makedirs(corpus)
        if case['with_seed_corpus']:
            for i, s in enumerate(seeds):
                with open(os.path.join(corpus, 'seed%d' % i), 'wb') as f:
                    f.write(s)
        out = os.path.join(d, 'stats.json')
        env = dict(os.environ)
        env['PYTHONPATH'] = env.get('PYTHONPATH', '') + os.pathsep + os.path.join(VERIF_DIR, '.deps')
        cmd = [sys.executable, '-B', '-m', 'vlib.fuzz_worker', module, check, decode, out, ','.join(instrument),
               corpus, '-runs=%d' % case['runs'], '-seed=%d' % case['seed'], '-max_len=%d' % case['max_len'],
               '-timeout=120', '-rss_limit_mb=4096', '-print_final_stats=0', '-verbosity=0',
               '-artifact_prefix=' + d + '/']
        budget = timeout_s or max(600, case['runs'] // 20)
        try:
            p = subprocess.run(cmd, cwd=VERIF_DIR, env=env, stdout=subprocess.PIPE, stderr=subprocess.STDOUT,
                               timeout=budget)
            tail = p.stdout.decode('utf-8', 'replace')[-1500:]
            rc = p.returncode
        except subprocess.TimeoutExpired as ex:
            tail = (ex.stdout or b'').decode('utf-8', 'replace')[-1500:]
            rc = 'timeout'
        stats = None
        if os.path.exists(out):
            try:
                with open(out) as f:
                    stats = json.load(f)
            except Exception:  # noqa
                stats = None
        if stats is None:
            if 'No module named' in tail and 'atheris' in tail:
                return Verdict(inconclusive=True, labels=['fuzz:atheris-missing'])
            raise RuntimeError('fuzz campaign %s produced no statistics (exit %s): %s' % (name, rc, tail))
        failures = [dict(f, sub=target_sub) for f in stats['failures']]
        extra = {'evaluations': stats['evaluations'], 'labels': stats['labels'],
                 'nontrivial_keys': stats['nontrivial_keys'], 'samples': stats['samples'][:2],
                 'failures': failures, 'inconclusive': stats.get('inconclusive', 0)}
        labels = ['fuzz:campaigns', 'fuzz:corpus=%s' % ('seeded' if case['with_seed_corpus'] else 'empty')]
        if rc not in (0, 'timeout'):
            labels.append('fuzz:worker-exit=%s' % rc)
        if rc == 'timeout':
            labels.append('fuzz:wall-budget-hit')
        v = Verdict(True, nontrivial=False, labels=labels)
        v.extra = extra
        return v

    return Sub(name, run_campaign, enumerate=enum, shards=shards)
