"""C15: AST -> Exactly source text (FILES-SOURCE, FILES-MATCHER, FILE-MATCHER, FILES-CONDITION).

Layout rules (DESIGN 2.10 and the manual): one FILE-SPEC / FILE-CONDITION per line, `=`/`+=`/`:` on the line of
the name, operators and parentheses whitespace separated, arguments of -selection / -with-pruned / every / any /
contents / dir-contents / ! in parentheses when they are infix expressions, a here-document start token last on
its line.
"""

INFIX = ('and', 'or')


def q(s):
    """single-quoted string token (the generated alphabets contain no single quote)"""
    assert "'" not in s and '\n' not in s, s
    return "'" + s + "'"


def name_token(name):
    if name == '' or any(c in name for c in ' \t"#;') or name in ('file', 'dir', '{', '}', '=', '+=', ':', '(', ')'):
        return '"' + name + '"' if '"' not in name else q(name)
    return name


# ---- FILES-SOURCE --------------------------------------------------------------------------------
def text_source(text, marker='EOF'):
    """-> (token on the line, following lines or None)"""
    if '\n' not in text:
        assert '"' not in text
        return '"' + text + '"', None
    assert text.endswith('\n')
    body = text[:-1].split('\n')
    assert marker not in body
    return '<<' + marker, body + [marker]


def files_source(fs, indent=''):
    k = fs['k']
    if k == 'copy':
        return 'dir-contents-of -rel-home ' + fs['src']
    if k == 'par':
        return '( ' + files_source(fs['x'], indent) + ' )'
    assert k == 'list'
    entries = fs['entries']
    if not entries:
        return '{ }' if fs.get('inline') else '{\n' + indent + '}'
    lines = []
    for e in entries:
        lines.extend(entry_lines(e, indent + '  '))
    if fs.get('inline') and len(lines) == 1:
        return '{ ' + lines[0].strip() + ' }'
    return '{\n' + '\n'.join(lines) + '\n' + indent + '}'


def entry_lines(e, indent):
    head = indent + e['t'] + ' ' + name_token(e['name'])
    op = e.get('op')
    if op is None:
        return [head]
    if e['t'] == 'file':
        tok, more = text_source(e.get('text') or '')
        lines = [head + ' ' + op + ' ' + tok]
        if more:
            lines.extend(more)
        return lines
    return (head + ' ' + op + ' ' + files_source(e['src'], indent)).split('\n')


# ---- matchers ------------------------------------------------------------------------------------
def _infix(m, pos, render):
    k = m['k']
    parts = []
    for x in m['xs']:
        if x['k'] in INFIX and not (k == 'or' and x['k'] == 'and'):
            parts.append('( ' + render(x, 'full') + ' )')
        else:
            parts.append(render(x, 'operand'))
    s = (' && ' if k == 'and' else ' || ').join(parts)
    if pos == 'simple':
        return '( ' + s + ' )'
    return s


def rec_opts(rec):
    if rec is None:
        return ''
    s = '-recursive '
    if rec.get('min') is not None:
        s += '-min-depth %d ' % rec['min']
    if rec.get('max') is not None:
        s += '-max-depth %d ' % rec['max']
    return s


def text_matcher(m):
    k = m['k']
    if k == 'not':
        return '! ' + text_matcher(m['x'])
    if k == 'empty':
        return 'is-empty'
    if k == 'equals':
        if 'file' in m:
            return 'equals -contents-of -rel-home ' + m['file']
        return 'equals "' + m['s'] + '"'
    if k == 'numlines':
        return 'num-lines %s %d' % (m['op'], m['n'])
    raise ValueError(k)


def file_matcher(m, pos='full'):
    k = m['k']
    if k in INFIX:
        return _infix(m, pos, file_matcher)
    if k == 'const':
        return 'constant ' + ('true' if m['v'] else 'false')
    if k == 'par':
        return '( ' + file_matcher(m['x'], 'full') + ' )'
    if k == 'not':
        return '! ' + file_matcher(m['x'], 'simple')
    if k == 'type':
        return 'type ' + m['v']
    if k in ('name', 'stem', 'suffix', 'suffixes', 'path'):
        if 'glob' in m:
            return k + ' ' + q(m['glob'])
        return k + ' ~ ' + ('-ignore-case ' if m.get('ic') else '') + q(m['re'])
    if k == 'contents':
        return 'contents ' + text_matcher(m['tm'])
    if k == 'dircontents':
        return 'dir-contents ' + rec_opts(m.get('rec')) + files_matcher(m['m'], 'simple')
    raise ValueError(k)


def files_condition(fc, inline=False):
    if not fc:
        return '{ }' if inline else '{\n}'
    if inline and len(fc) == 1 and fc[0][1] is None:
        return '{ ' + name_token(fc[0][0]) + ' }'
    lines = ['{']
    for name, fm in fc:
        if fm is None:
            lines.append(name_token(name))
        else:
            lines.append(name_token(name) + ' : ' + file_matcher(fm, 'full'))
    lines.append('}')
    return '\n'.join(lines)


def files_matcher(m, pos='full'):
    k = m['k']
    if k in INFIX:
        return _infix(m, pos, files_matcher)
    if k == 'const':
        return 'constant ' + ('true' if m['v'] else 'false')
    if k == 'par':
        return '( ' + files_matcher(m['x'], 'full') + ' )'
    if k == 'not':
        return '! ' + files_matcher(m['x'], 'simple')
    if k == 'empty':
        return 'is-empty'
    if k == 'numfiles':
        return 'num-files %s %d' % (m['op'], m['n'])
    if k == 'matches':
        return 'matches ' + ('-full ' if m.get('full') else '') + files_condition(m['fc'], m.get('inline', False))
    if k in ('every', 'any'):
        return k + ' file : ' + file_matcher(m['fm'], 'simple')
    if k == 'sel':
        return '-selection ' + file_matcher(m['fm'], 'simple') + ' ' + files_matcher(m['m'], 'simple')
    if k == 'prune':
        return '-with-pruned ' + file_matcher(m['fm'], 'simple') + ' ' + files_matcher(m['m'], 'simple')
    raise ValueError(k)
