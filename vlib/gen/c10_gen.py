"""C10: Hypothesis strategies for test cases that start programs (JSON values; shape documented here).

case = {
  'syms':  [ {'n','t':'string','v'} | {'n','t':'list','v':[..]} | {'n','t':'path','rel','name'} ],
  'tsyms': [ {'n', 'ts': TEXT-SOURCE} ],                 def text-source
  'pgms':  [ {'n', 'p': PROGRAM} ],                      def program (definition order)
  'files': {home relative name: text},  'dirs': [[rel, name]],   created before everything else
  'setup_stdin': TEXT-SOURCE | None,
  'act':   {'k':'program','p':PROGRAM} | {'k':'file',..} | {'k':'source',..} | {'k':'null',..} | None,
  'phases': {'setup'|'before-assert'|'assert'|'cleanup': [INSTR]},
  'claims': [ {'what':'exit'|'stdout'|'stderr','v':..,'via':..} ]    first in [assert], about the action to check
  'act_home': None | 'ah'      [conf] act-home = ah  (a separate directory with marked copies of the data files)
}
PROGRAM = {'head': {'k':'sys'|'py'|'exe'|'shell'|'sym', 'cfg':{exit,stdout,stderr} | 'n':name | 'sh':SHELL, 'variant'},
           'args':[ARG], 'last': None|{'k':'eol','pieces'}|{'k':'here','lines'}, 'cont': int|None,
           'stdin': TEXT-SOURCE|None, 'tr': TRANSFORMER|None, 'paren': bool}
ARG = {'k':'str','frs':[[style n|s|h, [['t',text]|['r',symbol]]]]} | {'k':'ref','n'} | {'k':'hardref','n'}
      | {'k':'xpath','opt','rel','name'}
TEXT-SOURCE = {'k':'str','s':STRING} | {'k':'here','lines':[pieces]} | {'k':'file','name','rel'} | {'k':'ssym','n'}
      | {'k':'tsym','n'} | {'k':'pgm','chan','ignore','p':PROGRAM}    (+ 'tr': pure TRANSFORMER, 'paren')
TRANSFORMER = [ ['upper']|['lower']|['strip']|['strip-nl']|['strip-sp']|['repl',a,b]|['id']|['run',PROGRAM,ignore] ]
INSTR = {'k':'run','ignore','p'} | {'k':'sys','cfg','args','last'} | {'k':'shell','cfg','sh'} | {'k':'cd','rel','name'}
      | {'k':'from','what','p','claim','via'}
      | {'k':'filefrom','rel':'tmp'|'cd','name','chan','ignore','p'}     file PATH = -stdout-from|-stderr-from PROGRAM
      (+ 'local_defs': bool - the `def program` lines of the instruction's chain stand directly before it, in its
       own phase, instead of in [setup])
head 'sys': 'variant' plain | soft | sym  (how the name of the program after % is written)
act (file / source): 'via' conf | suite | cli  - where the actor is configured ([conf] of the case, [conf] of
      exactly.suite in the same directory, --actor COMMAND-LINE (source interpreter only, literal arguments))
SHELL = {'words': [[[style u|s|d|c, pieces]]], 'seps': [blank strings], 'trail': blank string, 'pre', 'post'}
        (style c = command substitution $(echo WORD); pre / post = shell syntax around the command that leaves its
         arguments, exit code and output unchanged: `true && `, `: ; `, `X=1 ` / ` # comment`, `; exit $?`)

Independent of the code under test (no exactly_lib import).
"""
import copy

from hypothesis import strategies as st

from vlib.ref.c10_model import RESERVED_WORDS

# ---- alphabets and pools -------------------------------------------------------------
ARG_ALPHABET = list('ab c\t"\'-=:()[]{}|!&@%$é<>,;*?~^_./+0#')
SPECIAL_ARGS = ['', ' ', '  ', 'a b', ' a', 'a ', '\t', "'", '"', "it's", '"q"', '\'"', '-x', '--long=1', '-', '--',
                '-stdin', '-transformed-by', '-ignore-exit-code', '-existing-file', '-existing-dir', '-rel-home',
                '-python', '-stdout-from', '%', '$', '@', ':>', '<<EOF', '#', 'a#b', '# c', 'é', '( a )', 'a=b', '==',
                '&&&', '*', '?', '~', 'a\\b'] + list(RESERVED_WORDS)
SIMPLE_WORDS = ['w', 'x1', 'abc', 'A_b', 'z9', 'word']
TEXT_ALPHABET = list('abAB \t\né0')
TEXT_POOL = ['', 'x', 'x\n', 'l1\nl2\n', 'no newline', '\n', '\n\n', ' ', 'é\n', 'aAbB\n', ' a \n\n', 'a\tb\n']
BIG_TEXT = ('0123456789abcdef' * 4 + '\n') * 1100  # ~ 71 kB: larger than pipe and memory buffers
MARKERS = ['EOF', 'EOF', 'END', '-', 'eof_1', 'M-2']
LINE_ALPHABET = list('abAB \té0\'"')

STRING_SYMS = ['S1', 'S2']
LIST_SYMS = ['L1', 'L2']
PATH_SYMS = ['Q1', 'Q2', 'Q3', 'Q4']
ALL_SYM_NAMES = STRING_SYMS + LIST_SYMS + PATH_SYMS + ['SW', 'EXE_PATH', 'PY_SYM']
PATH_DEFS = {'Q1': ('home', 'data/f1.txt'), 'Q2': ('act', 'adir'), 'Q3': ('cd', 'cfile'), 'Q4': ('tmp', 'tfile'),
             'EXE_PATH': ('home', 'bin/probe')}

XPATHS = [('file', 'default', 'data/f1.txt'), ('file', 'home', 'data/f2.txt'), ('dir', 'home', 'data'),
          ('path', 'act-home', 'data/f1.txt'), ('dir', 'act', 'adir'), ('path', 'act', 'adir'), ('dir', 'tmp', 'tdir')]
CD_TARGETS = [('act', 'd1'), ('act', 'd2'), ('tmp', 't1'), ('act', 'adir')]
DIRS = [['act', 'adir'], ['tmp', 'tdir'], ['act', 'd1'], ['act', 'd2'], ['tmp', 't1']]


def _no_ref(text):
    return text.replace('@[', '@.[')


arg_text = st.text(alphabet=st.sampled_from(ARG_ALPHABET), max_size=5).map(_no_ref)
arg_value = st.one_of(st.sampled_from(SPECIAL_ARGS), arg_text, st.sampled_from(SIMPLE_WORDS))
text_value = st.one_of(st.sampled_from(TEXT_POOL), st.text(alphabet=st.sampled_from(TEXT_ALPHABET), max_size=12))
line_value = st.text(alphabet=st.sampled_from(LINE_ALPHABET), max_size=8)
exit_code = st.one_of(st.sampled_from([0, 0, 0, 1, 2, 3, 126, 127, 128, 129, 130, 254, 255]), st.integers(0, 255))
nonzero_exit = st.one_of(st.sampled_from([1, 2, 127, 128, 255]), st.integers(1, 255))
style = st.sampled_from(['n', 's', 'h'])


def cfg_strategy(exit_strategy=exit_code, big=False):
    out = st.one_of(text_value, st.just(BIG_TEXT)) if big else text_value
    return st.fixed_dictionaries({'exit': exit_strategy, 'stdout': out, 'stderr': text_value})


# ---- strings and arguments ----------------------------------------------------------
any_sym = st.sampled_from(STRING_SYMS + LIST_SYMS + PATH_SYMS)


@st.composite
def pieces_with_refs(draw, text=arg_text, max_pieces=3):
    n = draw(st.integers(1, max_pieces))
    out = []
    for _ in range(n):
        if draw(st.integers(0, 3)) == 0:
            out.append(['r', draw(any_sym)])
        else:
            out.append(['t', draw(text)])
    return out


@st.composite
def string_spec(draw, refs=True):
    """STRING (single line)"""
    if draw(st.integers(0, 2)) == 0:
        return {'k': 'str', 'frs': [[draw(style), [['t', draw(st.sampled_from(SPECIAL_ARGS))]]]]}
    frs = []
    for _ in range(draw(st.integers(1, 3))):
        sty = draw(style)
        if sty == 'h' or not refs:
            frs.append([sty, [['t', draw(arg_text)]]])
        else:
            frs.append([sty, draw(pieces_with_refs(max_pieces=2))])
    return {'k': 'str', 'frs': frs}


@st.composite
def one_arg(draw):
    c = draw(st.integers(0, 11))
    if c <= 6:
        return draw(string_spec())
    if c <= 8:
        return {'k': 'ref', 'n': draw(any_sym)}
    if c == 9:
        return {'k': 'hardref', 'n': draw(any_sym)}
    if c == 10:
        opt, rel, name = draw(st.sampled_from(XPATHS))
        return {'k': 'xpath', 'opt': opt, 'rel': rel, 'name': name}
    return {'k': 'str', 'frs': [[draw(style), [['t', draw(st.sampled_from(SIMPLE_WORDS))]]]]}


simple_arg = st.sampled_from(SIMPLE_WORDS).map(lambda w: {'k': 'str', 'frs': [['n', [['t', w]]]]})
# arguments appended to a SHELL command through a reference: the denoted string becomes part of the command line
# ("passed as a single string to the operating system's shell"), so the shell divides it into words.
# (style of the quoted token, its text, the words a POSIX shell makes of that text)
SHELL_APPENDED = [('h', 'two words', ['two', 'words']), ('h', '"q r"', ['q r']), ('s', "'s t'", ['s t']),
                  ('h', 'a\\ b', ['a b']), ('h', '', []), ('s', 'x   y', ['x', 'y']), ('h', '"" e', ['', 'e']),
                  ('s', "k'l m'n", ['kl mn'])]
shell_appended_arg = st.sampled_from(SHELL_APPENDED).map(
    lambda t: {'k': 'str', 'frs': [[t[0], [['t', t[1]]]]], 'shwords': list(t[2])})


@st.composite
def last_arg(draw):
    c = draw(st.integers(0, 7))
    if c == 0:
        return {'k': 'eol', 'pieces': draw(pieces_with_refs(text=line_value))}
    if c == 1:
        return {'k': 'here', 'lines': draw(st.lists(pieces_with_refs(text=line_value, max_pieces=2), max_size=3)),
                'marker': draw(st.sampled_from(MARKERS))}
    return None


@st.composite
def arg_list(draw, simple=False, max_size=4):
    """-> dict(args, last, cont)"""
    if simple:
        return {'args': draw(st.lists(simple_arg | simple_arg | shell_appended_arg, max_size=3)), 'last': None,
                'cont': None}
    args = draw(st.lists(one_arg(), max_size=max_size))
    cont = draw(st.integers(1, 3)) if len(args) >= 2 and draw(st.integers(0, 4)) == 0 else None
    return {'args': args, 'last': draw(last_arg()), 'cont': cont}


# ---- shell command lines ---------------------------------------------------------------
SHELL_UNQUOTED = list('abcXYZ019_./:=+,-%')
SHELL_SINGLE = list('ab XY01 \t"$*|&;#<>(){}[]?~!\\`=-')
SHELL_DOUBLE = list("ab XY01 \t'*|&;#<>(){}[]?~=-")


@st.composite
def shell_word(draw):
    segs = []
    for _ in range(draw(st.integers(1, 3))):
        sty = draw(st.sampled_from(['u', 'u', 'u', 'u', 's', 's', 'd', 'd', 'c']))
        if sty == 'c':
            segs.append(['c', [['t', draw(st.sampled_from(SIMPLE_WORDS))]]])
        elif sty == 'u':
            if draw(st.integers(0, 5)) == 0:
                segs.append(['u', [['r', 'SW']]])
            else:
                segs.append(['u', [['t', draw(st.text(alphabet=st.sampled_from(SHELL_UNQUOTED), min_size=1,
                                                      max_size=4))]]])
        elif sty == 's':
            segs.append(['s', [['t', draw(st.text(alphabet=st.sampled_from(SHELL_SINGLE), max_size=5).map(_no_ref))]]])
        else:
            if draw(st.integers(0, 5)) == 0:
                segs.append(['d', [['t', draw(st.text(alphabet=st.sampled_from(SHELL_DOUBLE), max_size=3))],
                                   ['r', 'SW']]])
            else:
                segs.append(['d', [['t', draw(st.text(alphabet=st.sampled_from(SHELL_DOUBLE), max_size=5))]]])
    # a word that starts with an unquoted '-' or '=' etc. is fine; an unquoted word must not be empty: guaranteed
    return segs


blank = st.sampled_from([' ', ' ', '  ', '\t', ' \t '])
SHELL_PRE = ['', '', '', 'true && ', ': ; ', 'X=1 ']
SHELL_POST = ['', '', '', ' # a comment', '; exit $?', ' && true']


@st.composite
def shell_line(draw, max_words=4):
    words = draw(st.lists(shell_word(), max_size=max_words))
    return {'words': words, 'seps': [draw(blank) for _ in words[1:]],
            'trail': draw(st.sampled_from(['', '', ' ', '\t'])),
            'pre': draw(st.sampled_from(SHELL_PRE)), 'post': draw(st.sampled_from(SHELL_POST))}


# ---- transformers, text sources, programs -----------------------------------------------
pure_prim = st.one_of(
    st.sampled_from([['upper'], ['lower'], ['strip'], ['strip-nl'], ['strip-sp'], ['id']]),
    st.tuples(st.sampled_from('abAB0'), st.sampled_from('abAB0x')).map(lambda t: ['repl', t[0], t[1]]),
)
pure_tr = st.lists(pure_prim, min_size=1, max_size=3)


@st.composite
def text_source(draw, depth, allow_big=False):
    c = draw(st.integers(0, 9 if depth == 0 else 6))
    if c <= 1:
        ts = {'k': 'str', 's': draw(string_spec())}
    elif c <= 3:
        ts = {'k': 'here', 'lines': draw(st.lists(pieces_with_refs(text=line_value, max_pieces=2), max_size=3)),
              'marker': draw(st.sampled_from(MARKERS))}
    elif c <= 5:
        ts = {'k': 'file', 'name': draw(st.sampled_from(['data/f1.txt', 'data/f2.txt'])),
              'rel': draw(st.sampled_from(['default', 'home', 'act-home']))}
    elif c == 6:
        ts = {'k': 'ssym', 'n': draw(st.sampled_from(STRING_SYMS))}
    else:
        ts = {'k': 'pgm', 'chan': draw(st.sampled_from(['stdout', 'stdout', 'stderr'])),
              'ignore': draw(st.booleans())}
        failing = draw(st.integers(0, 19)) == 0
        ex = exit_code if ts['ignore'] else (nonzero_exit if failing else st.just(0))
        ts['p'] = draw(program(1, exit_strategy=ex))
        ts['paren'] = draw(st.booleans())
        return ts
    if draw(st.integers(0, 3)) == 0:
        ts['tr'] = draw(pure_tr)
        ts['tr_on_new_line'] = draw(st.booleans())
    ts['paren'] = draw(st.integers(0, 3)) == 0
    return ts


@st.composite
def transformer(draw, depth):
    tr = draw(st.lists(pure_prim, min_size=0, max_size=2))
    if depth == 0 and draw(st.integers(0, 4)) == 0:
        ign = draw(st.booleans())
        failing = draw(st.integers(0, 19)) == 0
        ex = exit_code if ign else (nonzero_exit if failing else st.just(0))
        tr = tr + [['run', draw(program(1, exit_strategy=ex)), ign]]
    if not tr:
        tr = [draw(pure_prim)]
    return tr


HEAD_KINDS = ['sys', 'sys', 'py', 'exe', 'shell']
EXE_VARIANTS = ['default', 'home', 'act-home', 'abs', 'abs-python', 'pathsym']


@st.composite
def base_head(draw, exit_strategy=exit_code, kinds=HEAD_KINDS, big=False):
    k = draw(st.sampled_from(kinds))
    h = {'k': k, 'cfg': draw(cfg_strategy(exit_strategy, big))}
    if k == 'exe':
        h['variant'] = draw(st.sampled_from(EXE_VARIANTS))
    if k == 'sys':
        h['variant'] = draw(st.sampled_from(['plain', 'plain', 'soft', 'PY_SYM']))
    if k == 'shell':
        h['sh'] = draw(shell_line())
    return h


@st.composite
def program(draw, depth, exit_strategy=exit_code, kinds=HEAD_KINDS, big=False):
    """a program that is not a reference to a symbol"""
    h = draw(base_head(exit_strategy, kinds if depth == 0 else ['sys', 'sys', 'py', 'exe', 'shell'], big))
    p = {'head': h, 'args': [], 'last': None, 'cont': None, 'stdin': None, 'tr': None, 'paren': False}
    if h['k'] != 'shell':
        p.update(draw(arg_list(max_size=4 if depth == 0 else 2)))
    if draw(st.integers(0, 2 if depth == 0 else 3)) == 0:
        p['stdin'] = draw(text_source(depth))
    if draw(st.integers(0, 3)) == 0:
        p['tr'] = draw(transformer(depth)) if depth == 0 else draw(pure_tr)
    p['paren'] = draw(st.integers(0, 5)) == 0
    return p


@st.composite
def chain(draw, prefix, exit_strategy=exit_code, kinds=HEAD_KINDS, max_depth=3, big=False, min_depth=0):
    """-> dict(defs=[{'n','p'}], use=PROGRAM): a program used through 0..max_depth `def program` levels, each
    level adding arguments / stdin / transformation"""
    base = draw(program(0, exit_strategy, kinds, big))
    depth = draw(st.sampled_from([0, 0, 1, 1, 2, 3])) if max_depth >= 3 else draw(st.integers(0, max_depth))
    depth = max(depth, min_depth)
    if depth == 0:
        return {'defs': [], 'use': base}
    simple = base['head']['k'] == 'shell'
    if simple:
        base['head']['sh']['post'] = ''  # arguments are appended to the command line
    defs = [{'n': '%s1' % prefix, 'p': base}]
    layers = []
    for i in range(depth):
        p = {'head': {'k': 'sym', 'n': '%s%d' % (prefix, i + 1)}, 'args': [], 'last': None, 'cont': None,
             'stdin': None, 'tr': None, 'paren': draw(st.integers(0, 7)) == 0}
        p.update(draw(arg_list(simple=simple, max_size=3)))
        if draw(st.integers(0, 1)) == 0:
            p['stdin'] = draw(text_source(0 if draw(st.integers(0, 2)) == 0 else 1))
        if draw(st.integers(0, 2)) == 0:
            p['tr'] = draw(pure_tr)
        layers.append(p)
    for i, p in enumerate(layers[:-1]):
        defs.append({'n': '%s%d' % (prefix, i + 2), 'p': p})
    return {'defs': defs, 'use': layers[-1]}


# ---- symbols --------------------------------------------------------------------------------
@st.composite
def symbol_values(draw):
    vals = {}
    for n in STRING_SYMS:
        vals[n] = {'n': n, 't': 'string', 'v': draw(arg_value), 'q': draw(style)}
    for n in LIST_SYMS:
        vals[n] = {'n': n, 't': 'list', 'v': draw(st.lists(arg_value, max_size=3)), 'q': draw(style)}
    for n in PATH_SYMS + ['EXE_PATH']:
        vals[n] = {'n': n, 't': 'path', 'rel': PATH_DEFS[n][0], 'name': PATH_DEFS[n][1]}
    vals['SW'] = {'n': 'SW', 't': 'string', 'v': draw(st.sampled_from(SIMPLE_WORDS)), 'q': 'n'}
    vals['PY_SYM'] = {'n': 'PY_SYM', 't': 'string', 'v': '{PY}', 'q': draw(style)}
    return vals


def _strings_in(obj, acc):
    if isinstance(obj, str):
        acc.add(obj)
    elif isinstance(obj, dict):
        for v in obj.values():
            _strings_in(v, acc)
    elif isinstance(obj, (list, tuple)):
        for v in obj:
            _strings_in(v, acc)


def finish(case, symvals):
    """adds the definitions of the symbols, files and directories the case refers to"""
    acc = set()
    _strings_in(case, acc)
    names = [n for n in ALL_SYM_NAMES if n in acc or (n == 'EXE_PATH' and 'pathsym' in acc)]
    case['syms'] = [symvals[n] for n in names]
    case['dirs'] = [d for d in DIRS if d[1] in acc or any(d[1] == symvals[n].get('name') for n in names)]
    case.setdefault('tsyms', [])
    case.setdefault('pgms', [])
    case.setdefault('claims', [])
    case.setdefault('phases', {})
    return case


files_strategy = st.fixed_dictionaries({'data/f1.txt': text_value, 'data/f2.txt': text_value})


EXIT_MUTS = ['+1', '-1', '%128', '+128', 'zero']
TEXT_MUTS = ['add-nl', 'drop-last', 'upper', 'lead-space', 'drop-first', 'add-b']


@st.composite
def claim(draw, what):
    """a claim about an outcome, expressed relative to the true value ('mut' None = the true value; the model
    computes the value): mostly true, sometimes a near miss"""
    wrong = draw(st.integers(0, 3)) == 0
    if what == 'exit':
        return {'what': what, 'mut': draw(st.sampled_from(EXIT_MUTS)) if wrong else None}
    return {'what': what, 'mut': draw(st.sampled_from(TEXT_MUTS)) if wrong else None,
            'via': draw(st.sampled_from(['file', 'here', 'str']))}


claims = st.lists(st.sampled_from(['exit', 'stdout', 'stderr']), max_size=3, unique=True).flatmap(
    lambda ws: st.tuples(*[claim(w) for w in ws])).map(list)


# ---- whole cases ---------------------------------------------------------------------------
TSYM_NAMES = ['TS1', 'TS2']


@st.composite
def tsym_values(draw):
    ts2 = {'k': 'pgm', 'chan': draw(st.sampled_from(['stdout', 'stderr'])), 'ignore': draw(st.booleans()),
           'paren': False}
    ts2['p'] = draw(program(1, exit_strategy=exit_code if ts2['ignore'] else st.just(0)))
    return {'TS1': {'n': 'TS1', 'ts': draw(text_source(1)), 'paren': draw(st.booleans())},
            'TS2': {'n': 'TS2', 'ts': ts2, 'paren': draw(st.booleans())}}


def _with_tsym(ts_strategy):
    """text source strategy that sometimes is a reference to a text-source symbol"""
    ref = st.fixed_dictionaries({'k': st.just('tsym'), 'n': st.sampled_from(TSYM_NAMES),
                                 'paren': st.booleans()})
    return st.one_of(ts_strategy, ts_strategy, ts_strategy, ref)


def _fix_act_here_docs(obj):
    """[act] with the command line actor: "any number of empty lines and comment lines are allowed" - they are not
    part of the PROGRAM, also when they sit inside a here-document; such lines are not generated there"""
    if isinstance(obj, dict):
        if obj.get('k') == 'here':
            for i, l in enumerate(obj['lines']):
                src = ''.join(t if k == 't' else '@[%s]@' % t for k, t in l)
                if src.strip() == '' or src.strip().startswith('#'):
                    obj['lines'][i] = [['t', 'x']] + l
        for v in obj.values():
            _fix_act_here_docs(v)
    elif isinstance(obj, list):
        for v in obj:
            _fix_act_here_docs(v)


act_home = st.sampled_from([None, None, 'ah'])


def finish_case(case, symvals, tsymvals):
    if case.get('act') and case['act']['k'] == 'program':
        _fix_act_here_docs(case['act']['p'])
    acc = set()
    _strings_in(case, acc)
    case['tsyms'] = [tsymvals[n] for n in TSYM_NAMES if n in acc]
    finish(case, symvals)
    return case


mostly_zero = st.one_of(st.just(0), st.just(0), st.just(0), exit_code)
cd_instr = st.sampled_from(CD_TARGETS).map(lambda t: {'k': 'cd', 'rel': t[0], 'name': t[1]})
comment_lines = st.lists(st.sampled_from(['# a comment', '', '   # indented comment', '  ']), max_size=2)


@st.composite
def act_command_case(draw):
    """the action to check through the command line actor"""
    symvals = draw(symbol_values())
    tsymvals = draw(tsym_values())
    ch = draw(chain('PA', big=True))
    files = draw(files_strategy)
    if draw(st.integers(0, 14)) == 0:
        files['data/f2.txt'] = BIG_TEXT
    phases = {'setup': draw(st.lists(cd_instr, max_size=2)) if draw(st.integers(0, 2)) == 0 else []}
    if ch['defs'] and draw(st.integers(0, 2)) == 0:
        # a program symbol of the chain is also used by a run instruction (before or after the action to check):
        # what one use appends must not be seen by the other
        p = {'head': {'k': 'sym', 'n': draw(st.sampled_from([d['n'] for d in ch['defs']]))}, 'args': [], 'last': None,
             'cont': None, 'stdin': None, 'tr': None, 'paren': False}
        p.update(draw(arg_list(simple=ch['defs'][0]['p']['head']['k'] == 'shell', max_size=2)))
        if draw(st.integers(0, 2)) == 0:
            p['stdin'] = draw(text_source(1))
        phases.setdefault(draw(st.sampled_from(['setup', 'before-assert', 'cleanup'])), []).append(
            {'k': 'run', 'ignore': True, 'p': p, 'shared_symbol': True})
    case = {
        'files': files,
        'pgms': ch['defs'],
        'act': {'k': 'program', 'p': ch['use'], 'explicit_actor': draw(st.booleans()),
                'comments_before': draw(comment_lines),
                # the act phase written as two [act] blocks (the second one begins with the -stdin / -transformed-by
                # line of the program): "repeated declarations of a phase [are] merged in file order"
                'split': draw(st.sampled_from([0, 0, 1, 2]))},
        'setup_stdin': draw(st.one_of(st.none(), _with_tsym(text_source(0)))),
        'phases': phases,
        'claims': draw(claims),
    }
    case['act_home'] = draw(act_home)
    return finish_case(case, symvals, tsymvals)


HARMLESS_SOURCE_LINES = ['line 1', '  # not a comment here', '', 'print("x")', '\\[escaped header]', '\\\\backslash',
                         ' indented', 'a [b] c', 'exit 1', '-rel-home x', 'é ü', '$ echo', "'quoted \"text\"'"]


@st.composite
def interpreter_case(draw):
    """the action to check through the file interpreter, source interpreter and null actors"""
    symvals = draw(symbol_values())
    tsymvals = draw(tsym_values())
    kind = draw(st.sampled_from(['file', 'file', 'source', 'source', 'null']))
    cfg = draw(cfg_strategy(big=True))
    if kind == 'file':
        variant = draw(st.sampled_from(['probe-is-interpreter', 'probe-is-source']))
        act = {'k': 'file', 'variant': variant, 'cfg': cfg, 'rel': draw(st.sampled_from(['default', 'home', 'act-home'])),
               'interp': draw(st.sampled_from(['sys', 'py', 'exe']))}
        act.update(draw(arg_list()))
        act['cont'] = None  # "a single line"
        if act['last'] and act['last']['k'] == 'here':
            act['last'] = None
        if variant == 'probe-is-interpreter':
            act['name'] = 'data/src.txt'
            act['iargs'] = draw(st.lists(one_arg(), max_size=3))
    elif kind == 'source':
        variant = draw(st.sampled_from(['probe-is-interpreter', 'python-source']))
        act = {'k': 'source', 'variant': variant, 'cfg': cfg, 'interp': draw(st.sampled_from(['sys', 'py', 'exe']))}
        if variant == 'probe-is-interpreter':
            act['iargs'] = draw(st.lists(one_arg(), max_size=3))
            act['lines'] = draw(st.lists(st.sampled_from(HARMLESS_SOURCE_LINES), min_size=1, max_size=4))
        else:
            act['pyargs'] = draw(st.lists(arg_value, max_size=3))
    if kind in ('file', 'source'):
        act['via'] = draw(st.sampled_from(['cli', 'conf', 'suite'] if kind == 'source' else
                                          ['conf', 'conf', 'suite']))
        if act['via'] == 'cli' and 'iargs' in act:
            # --actor COMMAND-LINE: shell syntax, no symbols
            act['iargs'] = [{'k': 'str', 'frs': [['h', [['t', v]]]]} for v in draw(st.lists(arg_value, max_size=3))]
    if kind == 'null':
        act = {'k': 'null', 'cfg': cfg, 'explicit_actor': True, 'absent': False,
               'lines': draw(st.sampled_from([['% {PY} {PROBE} {OBS}/n0 a'], ['anything at all', '  more'],
                                              ['$ exit 3'], ["unbalanced ' quote"]]))}
        mode = draw(st.sampled_from(['explicit', 'explicit', 'absent', 'empty']))
        if mode == 'absent':
            act.update({'explicit_actor': False, 'absent': True})
        elif mode == 'empty':
            act.update({'explicit_actor': False, 'lines': draw(st.sampled_from([[], [''], ['', '  ']]))})
    case = {
        'files': draw(files_strategy),
        'act': act,
        'setup_stdin': draw(st.one_of(st.none(), _with_tsym(text_source(0)))),
        'phases': {'setup': draw(st.lists(cd_instr, max_size=1))},
        'claims': draw(claims),
    }
    case['act_home'] = draw(act_home)
    return finish_case(case, symvals, tsymvals)


@st.composite
def instruction(draw, phase, prefix, exit_strategy=mostly_zero):
    kinds = ['run', 'run', 'run', 'sys', 'shell', 'cd', 'filefrom']
    if phase == 'assert':
        kinds = kinds + ['from', 'from']
    k = draw(st.sampled_from(kinds))
    if k == 'filefrom':
        ignore = draw(st.booleans())
        failing = draw(st.integers(0, 9)) == 0
        ch = draw(chain(prefix, exit_code if ignore else (nonzero_exit if failing else st.just(0)), max_depth=2))
        return ch['defs'], {'k': 'filefrom', 'rel': draw(st.sampled_from(['tmp', 'cd'])), 'name': 'out-%s.txt' % prefix,
                            'chan': draw(st.sampled_from(['stdout', 'stdout', 'stderr'])), 'ignore': ignore,
                            'p': ch['use'], 'paren': draw(st.booleans()),
                            'local_defs': bool(ch['defs']) and draw(st.booleans())}
    if k == 'cd':
        return [], draw(cd_instr)
    if k == 'sys':
        ins = {'k': 'sys', 'cfg': draw(cfg_strategy(exit_strategy))}
        ins.update(draw(arg_list()))
        return [], ins
    if k == 'shell':
        return [], {'k': 'shell', 'cfg': draw(cfg_strategy(exit_strategy)), 'sh': draw(shell_line())}
    if k == 'run':
        ignore = draw(st.integers(0, 2)) == 0
        ch = draw(chain(prefix, exit_code if ignore else exit_strategy))
        return ch['defs'], {'k': 'run', 'ignore': ignore, 'p': ch['use'],
                            'local_defs': bool(ch['defs']) and draw(st.booleans())}
    what = draw(st.sampled_from(['exit', 'stdout', 'stderr']))
    ch = draw(chain(prefix, exit_code if what == 'exit' else st.just(0)))
    cl = draw(claim(what))
    ins = {'k': 'from', 'what': what, 'p': ch['use'], 'mut': cl['mut'], 'via': cl.get('via'),
           'local_defs': bool(ch['defs']) and draw(st.booleans())}
    return ch['defs'], ins


@st.composite
def instruction_case(draw):
    """run / $ / % (and -from assertions) in every phase that admits them"""
    symvals = draw(symbol_values())
    tsymvals = draw(tsym_values())
    pgms = []
    phases = {}
    idx = 0
    n_total = 0
    for ph in ('setup', 'before-assert', 'assert', 'cleanup'):
        n = draw(st.integers(0, 2))
        lst = []
        for _ in range(n):
            if n_total >= 4:
                break
            defs, ins = draw(instruction(ph, 'P' + 'BCDEFGHIJ'[idx]))
            idx += 1
            n_total += 1
            pgms.extend(defs)
            lst.append(ins)
        if lst:
            phases[ph] = lst
    act_mode = draw(st.sampled_from(['probe', 'probe', 'none']))
    act = None
    if act_mode == 'probe':
        act = {'k': 'program', 'p': {'head': {'k': 'sys', 'cfg': draw(cfg_strategy(mostly_zero))}, 'args': [],
                                     'last': None, 'cont': None, 'stdin': None, 'tr': None, 'paren': False}}
    case = {'files': draw(files_strategy), 'pgms': pgms, 'act': act,
            'setup_stdin': draw(st.one_of(st.none(), st.none(), text_source(1))) if act else None,
            'phases': phases, 'claims': draw(claims) if act and draw(st.booleans()) else []}
    case['act_home'] = draw(act_home)
    return finish_case(case, symvals, tsymvals)


@st.composite
def shell_case(draw):
    """shell command lines: act phase (directly or through program symbols) and the $ instruction"""
    symvals = draw(symbol_values())
    tsymvals = draw(tsym_values())
    ch = draw(chain('PA', kinds=['shell'], max_depth=2))
    phases = {}
    for ph in ('setup', 'before-assert', 'assert', 'cleanup'):
        if draw(st.integers(0, 2)) == 0:
            phases[ph] = [{'k': 'shell', 'cfg': draw(cfg_strategy(mostly_zero)), 'sh': draw(shell_line(6))}]
    case = {'files': draw(files_strategy), 'pgms': ch['defs'],
            'act': {'k': 'program', 'p': ch['use'], 'explicit_actor': draw(st.booleans())},
            'setup_stdin': draw(st.one_of(st.none(), text_source(1))),
            'phases': phases, 'claims': draw(claims)}
    case['act_home'] = draw(act_home)
    return finish_case(case, symvals, tsymvals)


# ---- exit codes: enumerated ---------------------------------------------------------------------
def _plain_program(exit_, kind='sys', **kw):
    p = {'head': {'k': kind, 'cfg': {'exit': exit_, 'stdout': 'o%d\n' % exit_, 'stderr': 'e%d\n' % exit_}},
         'args': [{'k': 'str', 'frs': [['n', [['t', 'a%d' % exit_]]]]}], 'last': None, 'cont': None, 'stdin': None,
         'tr': None, 'paren': False}
    if kind == 'shell':
        p['args'] = []
        p['head']['sh'] = {'words': [[['u', [['t', 'a%d' % exit_]]]]], 'seps': [], 'trail': ''}
    if kind == 'exe':
        p['head']['variant'] = 'default'
    p.update(kw)
    return p


EXIT_HOSTS = ['act-sys', 'act-shell', 'act-exe', 'act-py', 'act-sym', 'act-file', 'act-source',
              'run-setup', 'run-before-assert', 'run-assert', 'run-cleanup', 'run-ignore-setup', 'run-ignore-assert',
              'sys-setup', 'sys-assert', 'shell-before-assert', 'shell-assert', 'shell-cleanup',
              'from-exit', 'stdin-stdout-from', 'stdin-stdout-from-ignore', 'stdin-stderr-from-ignore',
              'run-transformer', 'run-transformer-ignore', 'filefrom', 'filefrom-ignore']
QUICK_CODES = [0, 1, 2, 3, 32, 64, 65, 126, 127, 128, 129, 130, 200, 254, 255]


def exit_case(host, code):
    base = {'files': {'data/f1.txt': 'f1\n', 'data/f2.txt': 'f2\n'}, 'syms': [], 'tsyms': [], 'pgms': [],
            'dirs': [], 'setup_stdin': None, 'phases': {}, 'claims': [], 'act': None}
    act_probe = {'k': 'program', 'p': _plain_program(0)}
    three = [{'what': 'exit', 'mut': None}, {'what': 'stdout', 'mut': None, 'via': 'here'},
             {'what': 'stderr', 'mut': None, 'via': 'file'}]
    if host.startswith('act-'):
        kind = host[4:]
        base['claims'] = three
        if kind in ('sys', 'shell', 'exe', 'py'):
            base['act'] = {'k': 'program', 'p': _plain_program(code, kind)}
        elif kind == 'sym':
            base['pgms'] = [{'n': 'PA1', 'p': _plain_program(code)}]
            base['act'] = {'k': 'program', 'p': {'head': {'k': 'sym', 'n': 'PA1'}, 'args': [], 'last': None,
                                                 'cont': None, 'stdin': None, 'tr': None, 'paren': False}}
        elif kind == 'file':
            base['act'] = {'k': 'file', 'variant': 'probe-is-source', 'rel': 'default', 'interp': 'py', 'args': [],
                           'last': None, 'cont': None,
                           'cfg': {'exit': code, 'stdout': 'o\n', 'stderr': 'e\n'}}
        else:
            base['act'] = {'k': 'source', 'variant': 'python-source', 'interp': 'sys', 'pyargs': ['x'],
                           'cfg': {'exit': code, 'stdout': 'o\n', 'stderr': 'e\n'}}
        return base
    base['act'] = act_probe
    if host.startswith('run-ignore-'):
        base['phases'] = {host[11:]: [{'k': 'run', 'ignore': True, 'p': _plain_program(code)}]}
    elif host.startswith('run-transformer'):
        ign = host.endswith('-ignore')
        base['act'] = {'k': 'program', 'p': _plain_program(0, tr=[['run', _plain_program(code), ign]])}
        base['claims'] = three
    elif host.startswith('run-'):
        base['phases'] = {host[4:]: [{'k': 'run', 'ignore': False, 'p': _plain_program(code)}]}
    elif host.startswith('sys-'):
        base['phases'] = {host[4:]: [{'k': 'sys', 'cfg': {'exit': code}, 'args': [], 'last': None, 'cont': None}]}
    elif host.startswith('shell-'):
        base['phases'] = {host[6:]: [{'k': 'shell', 'cfg': {'exit': code},
                                      'sh': {'words': [[['s', [['t', 'a  b']]]]], 'seps': [], 'trail': ''}}]}
    elif host == 'from-exit':
        base['phases'] = {'assert': [{'k': 'from', 'what': 'exit', 'p': _plain_program(code), 'mut': None},
                                     {'k': 'from', 'what': 'exit', 'p': _plain_program(code), 'mut': '%128'}]}
    elif host.startswith('filefrom'):
        base['phases'] = {'before-assert': [{'k': 'filefrom', 'rel': 'tmp', 'name': 'out.txt', 'chan': 'stdout',
                                             'ignore': host.endswith('-ignore'), 'p': _plain_program(code),
                                             'paren': False}]}
    elif host.startswith('stdin-'):
        chan = 'stderr' if 'stderr' in host else 'stdout'
        base['setup_stdin'] = {'k': 'pgm', 'chan': chan, 'ignore': host.endswith('-ignore'),
                               'p': _plain_program(code), 'paren': False}
    else:
        raise ValueError(host)
    # something after the instruction under test, to see that execution continues / halts
    base['phases'].setdefault('cleanup', []).append({'k': 'sys', 'cfg': {'exit': 0}, 'args': [], 'last': None,
                                                     'cont': None})
    return copy.deepcopy(base)


def exit_cases(tier):
    codes = QUICK_CODES if tier == 'quick' else list(range(256))
    for host in EXIT_HOSTS:
        for code in codes:
            yield {'host': host, 'code': code}
