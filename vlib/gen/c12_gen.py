"""C12 generators: JSON-able cases (see props/c12_paths.py for the format).

Valid by construction: the generator runs the reference model (vlib/ref/c12_paths.py) while it draws, so that every
path it writes names something that exists (reads) or is free (destinations) at the position of use - whatever
`cd`, symbol chains and earlier instructions did.  At most one *irregular* use per case (a use that must be rejected,
or the invalid combination absolute FILE-NAME + RELATIVITY); it is always the last group of instructions.
Independent of the code under test.
"""
from hypothesis import strategies as st

from vlib.ref import c12_paths as ref
from vlib.ref.c12_paths import KINDS, PHASES, SITES, State, accepted, unaccepted, Broken

STR_VALUES = ['d1', 'd2', 'f', 'd', '1', 'd1/d2', 'w1', 'a b', 'x', 'g', 'n', '/d2', '/']
READ_SITES_ANY = ['contents_of', 'dir_contents_of', 'existing', 'exe', 'pgm_stdin']
ABS_DIRS = ['{HOME}/cs', '{HOME}/hd2', '{HOME}/cs/inc', '{ROOT}/absarea', '{ROOT}/absarea/d1', '{HOME}/cs/inc/deep']


def _under(loc, base):
    """rel path of loc below base (same area) or None"""
    if loc[0] != base[0]:
        return None
    if base[1] == '':
        return loc[1]
    if loc[1] == base[1]:
        return ''
    if loc[1].startswith(base[1] + '/'):
        return loc[1][len(base[1]) + 1:]
    return None


def _quote_style(draw, token_has_space, has_refs):
    opts = [1]
    if not token_has_space:
        opts += [0, 0, 0]
    if not has_refs:
        opts += [2]
    return draw(st.sampled_from(opts))


def _fragmentize(draw, name, S, allow=True, gen=None):
    """replace up to two occurrences of defined string symbol values by references"""
    frags = [['l', name]] if name else []
    if not allow or not name:
        return frags
    if gen is not None and draw(st.integers(0, 3)) == 0:
        # make a string symbol for a piece of the name (a component, a prefix of one, or a part with the separator)
        pieces = set()
        comps = name.split('/')
        for c in comps:
            if c and c not in ('.', '..'):
                pieces.add(c)
                if len(c) > 1:
                    pieces.add(c[:1])
                    pieces.add(c[1:])
        for a, b in zip(comps, comps[1:]):
            if a and b and a not in ('.', '..') and b not in ('.', '..'):
                pieces.add(a + '/' + b)
                pieces.add('/' + b)
        pieces = sorted(p for p in pieces if not (name.startswith(p) and p.startswith('/')))
        if pieces:
            val = draw(st.sampled_from(pieces))
            if val not in S.strs.values():
                gen.new_str(val)
    if not S.strs:
        return frags
    for _ in range(draw(st.sampled_from([0, 0, 1, 1, 2]))):
        cands = []
        for fi, (t, v) in enumerate(frags):
            if t != 'l':
                continue
            for sname, sval in sorted(S.strs.items()):
                if not sval or sval.startswith('{'):
                    continue
                pos = v.find(sval)
                if pos == 0 and fi == 0 and sval.startswith('/'):
                    continue  # would make the FILE-NAME start with a string symbol that holds an absolute path
                if pos >= 0:
                    cands.append((fi, sname, pos, len(sval)))
        if not cands:
            break
        fi, sname, pos, ln = draw(st.sampled_from(cands))
        v = frags[fi][1]
        new = []
        if v[:pos]:
            new.append(['l', v[:pos]])
        new.append(['s', sname])
        if v[pos + ln:]:
            new.append(['l', v[pos + ln:]])
        frags[fi:fi + 1] = new
    return frags


def _decorate(draw, suffix, is_dir, keep_basename):
    """lexical variations that denote the same file: ./  //  X/../X  trailing /"""
    if not suffix:
        return suffix
    style = draw(st.sampled_from([0, 0, 0, 0, 0, 1, 2, 3, 4]))
    parts = suffix.split('/')
    if style == 1:
        return './' + suffix
    if style == 2 and len(parts) > 1:
        j = draw(st.integers(1, len(parts) - 1))
        return '/'.join(parts[:j]) + '//' + '/'.join(parts[j:])
    if style == 3:
        n_dirs = len(parts) if (is_dir and not keep_basename) else len(parts) - 1
        if n_dirs >= 1:
            j = draw(st.integers(0, n_dirs - 1))
            return '/'.join(parts[:j + 1] + ['..', parts[j]] + parts[j + 1:])
    if style == 4 and is_dir and not keep_basename:
        return suffix + '/'
    return suffix


def _leaf_for(site, n):
    """a name that exists in every fixture base with the type the site wants (or a fresh one for destinations)"""
    if SITES[site]['dest']:
        return 'n%d' % n
    return {'cd': 'd1', 'dir-contents': 'd1', 'dir_contents_of': 'd1', 'exe': 'x1', 'act_exe': 'x1'}.get(site, 'f1')


class Gen:
    def __init__(self, draw, conf, tier):
        self.draw = draw
        self.S = State(conf)
        self.tier = tier
        self.n_path = 0
        self.n_str = 0
        self.ops = []
        self.tainted = set()
        self.prefer = None
        self.force = None

    # ---- bases -------------------------------------------------------------------------------------------
    def bases(self, site, phase, allow_abs=True, allow_maybe=True):
        """candidates (weight, rel, lead, PV, absdir)"""
        S = self.S
        conf = SITES[site]
        acc = accepted(site, phase)
        out = []
        if conf['default'] is not None:
            out.append((3, None, None, ref.PV(conf['default']), None))
        for k in KINDS:
            a = acc.get(k)
            if site == 'dir_contents_of' and k == 'result':
                continue  # (undocumented cell; a rejection here would only hide the rest of the case)
            if a is True or (a == 'maybe' and allow_maybe):
                out.append((2 if a is True else 1, k, None, ref.PV(k), None))
        if site == 'def':
            out.append((2, 'here', None, None, None))
        for name in sorted(S.paths):
            if name in self.tainted:
                continue
            pv = S.paths[name]
            a = acc.get(pv.kind)
            if site == 'dir_contents_of' and pv.kind == 'result':
                continue
            if a is True or (a == 'maybe' and allow_maybe):
                w = 1 if name in ref.BUILTINS else 3 + 3 * min(pv.depth, 3)
                if name == self.prefer:
                    w *= 4
                if pv.kind == 'cd' and pv.cwd0 is not None and pv.cwd0 != S.cwd:
                    w *= 4  # -rel-cd symbol defined before a cd: the interesting case
                out.append((w, 'sym:' + name, None, pv, None))
                out.append((w, None, name, pv, None))
        if allow_abs and acc.get('abs') and site != 'cd':
            for d in ABS_DIRS:
                out.append((1, None, None, ref.PV('abs', '', d), d))
        if self.force is not None:
            forced = [c for c in out if c[1] == 'sym:' + self.force or c[2] == self.force]
            if forced:
                return forced
        return out

    def pick_base(self, cands):
        weighted = []
        for c in cands:
            weighted.extend([c] * c[0])
        return self.draw(st.sampled_from(weighted))

    def base_loc(self, cand, inc=False):
        _, rel, lead, pv, absdir = cand
        if rel == 'here':
            return 'H', ref.HERE_DIRS[int(inc or 0)]
        try:
            return self.S.locate(pv)
        except Broken:
            return None

    # ---- expressions ---------------------------------------------------------------------------------------
    def mk_expr(self, cand, suffix, is_dir=False, keep_basename=False, may_be_empty=False):
        draw = self.draw
        _, rel, lead, pv, absdir = cand
        suffix = _decorate(draw, suffix, is_dir, keep_basename)
        if lead is not None:
            name = ('/' + suffix) if suffix else ''
            frags = _fragmentize(draw, name, self.S, gen=self)
            if frags and not (frags[0][0] == 'l' and frags[0][1].startswith('/')):
                frags = [['l', name]]
            token = '@[x]@' + name
            return {'rel': None, 'lead': lead, 'name': frags,
                    'q': _quote_style(draw, ' ' in token, True)}
        if absdir is not None:
            name = ref._j(absdir, suffix)
            if draw(st.integers(0, 3)) == 0 and self.S.strs is not None:
                # the absolute directory through a string symbol
                sname = self.new_str(absdir)
                frags = [['s', sname]] + ([['l', '/' + suffix]] if suffix else [])
            else:
                frags = [['l', name]]
            return {'rel': None, 'lead': None, 'name': frags,
                    'q': _quote_style(draw, ' ' in name, len(frags) > 1 or frags[0][0] == 's')}
        if not suffix:
            suffix = '' if (may_be_empty and rel is not None and draw(st.booleans())) else '.'
        frags = _fragmentize(draw, suffix, self.S, gen=self)
        has_refs = any(t == 's' for t, _ in frags)
        return {'rel': rel, 'lead': None, 'name': frags, 'q': _quote_style(draw, ' ' in suffix, has_refs)}

    def new_str(self, val):
        self.n_str += 1
        name = 'S%d' % self.n_str
        self.emit({'k': 'defstr', 'ph': self.phase, 'name': name, 'val': val})
        return name

    def emit(self, op):
        i = len(self.ops)
        self.ops.append(op)
        self.S.apply(i, op)
        return i

    # ---- targets ---------------------------------------------------------------------------------------------
    def existing_under(self, base, want, pred=None):
        """entries of the model tree below (or equal to) base with the wanted type: list of (suffix, type)"""
        S = self.S
        out = []
        if S.kind_at(base) is None:
            return out
        if want in ('d', 'any') and S.kind_at(base) == 'd':
            out.append(('', 'd'))
        pre = base[1] + '/' if base[1] else ''
        for k in sorted(S.tree):
            if k[0] != base[0] or not k[1].startswith(pre) or k[1] == base[1]:
                continue
            suffix = k[1][len(pre):]
            if suffix.startswith('tg.') or '/tg.' in suffix or suffix.count('/') > 3:
                continue
            if base[0] == 'SB' and (k[1] == 'tmp/o' or k[1].startswith('tmp/o/')):
                continue
            if base[0] == 'SB' and base[1] == '' and not (suffix.startswith('act') or suffix.startswith('tmp')):
                continue
            if base[0] == 'H' and suffix.endswith(('.case', '.xly')):
                continue
            t = S.tree[k][0]
            if t == 'r':
                continue
            if want != 'any' and t != want:
                continue
            if pred and not pred(k, S.tree[k]):
                continue
            out.append((suffix, t))
        return out

    def expr_existing(self, site, phase, want, pred=None, keep_basename=False, allow_abs=True, inc=False):
        """-> (expr, loc, type) naming an existing entry, or None"""
        cands = self.bases(site, phase, allow_abs=allow_abs)
        for _ in range(6):
            cand = self.pick_base(cands)
            base = self.base_loc(cand, inc)
            if base is None:
                continue
            if site == 'cd' and base[0] != 'SB':
                continue
            ents = self.existing_under(base, want, pred)
            if keep_basename:
                ents = [e for e in ents if e[0]]
            if not ents:
                continue
            suffix, t = self.draw(st.sampled_from(ents))
            expr = self.mk_expr(cand, suffix, is_dir=(t == 'd'), keep_basename=keep_basename)
            loc = (base[0], ref._j(base[1], suffix))
            return expr, loc, t
        return None

    def expr_fresh(self, site, phase, i, nested_ok):
        """-> expr naming a path that does not exist, inside an existing directory of the sandbox"""
        cands = self.bases(site, phase, allow_abs=False)
        for _ in range(6):
            cand = self.pick_base(cands)
            base = self.base_loc(cand)
            if base is None or base[0] != 'SB':
                continue
            if self.S.kind_at(base) is None:
                # the base itself is free (a symbol that names a new path): use it when its parent exists
                if self.S.kind_at(self.S._parent(base)) == 'd':
                    return self.mk_expr(cand, '')
                continue
            dirs = [e[0] for e in self.existing_under(base, 'd')]
            if not dirs:
                continue
            d = self.draw(st.sampled_from(dirs))
            name = 'n%d' % i
            if nested_ok and self.draw(st.integers(0, 3)) == 0:
                name = 'm%d/n%d' % (i, i)
            # X/../ decorations need existing directories: decorate the existing part only
            d = _decorate(self.draw, d, True, False).rstrip('/') if d else d
            return self._expr_with_suffix(cand, ref._j(d, name))
        return None

    def _expr_with_suffix(self, cand, suffix):
        """like mk_expr but without further decoration"""
        draw = self.draw
        _, rel, lead, pv, absdir = cand
        if lead is not None:
            name = '/' + suffix
            frags = _fragmentize(draw, name, self.S, gen=self)
            if not (frags[0][0] == 'l' and frags[0][1].startswith('/')):
                frags = [['l', name]]
            return {'rel': None, 'lead': lead, 'name': frags, 'q': _quote_style(draw, ' ' in name, True)}
        frags = _fragmentize(draw, suffix, self.S, gen=self)
        has_refs = any(t == 's' for t, _ in frags)
        return {'rel': rel, 'lead': None, 'name': frags, 'q': _quote_style(draw, ' ' in suffix, has_refs)}

    # ---- regular operations --------------------------------------------------------------------------------------
    def op_defstr(self):
        draw = self.draw
        plain = sorted(n for n in self.S.strs if n not in self.S.str_pathref and not ref.is_abs(self.S.strs[n])
                       and len(self.S.strs[n]) < 12)
        if plain and draw(st.integers(0, 2)) == 0:
            # a string symbol made from another one
            self.n_str += 1
            self.emit({'k': 'defstr', 'ph': self.phase, 'name': 'S%d' % self.n_str,
                       'val': draw(st.sampled_from(['', '/d2', '1', '/f2', 'd1'])), 'sref': draw(st.sampled_from(plain))})
            return
        self.new_str(draw(st.sampled_from(STR_VALUES)))

    def op_def(self, chain=2):
        draw = self.draw
        if self.force is not None:
            chain = 0
        inc = draw(st.sampled_from([0, 0, 0, 0, 1, 2]))
        cands = self.bases('def', self.phase)
        cand = self.pick_base(cands)
        if cand[1] == 'here':
            inc = draw(st.sampled_from([0, 1, 1, 2]))
        base = self.base_loc(cand, inc)
        if base is None:
            return
        ents = self.existing_under(base, 'any')
        how = draw(st.sampled_from(['ent', 'ent', 'ent', 'ent', 'new']))
        if how == 'ent' and ents:
            dirs = [e for e in ents if e[1] == 'd']
            suffix, t = draw(st.sampled_from(dirs + dirs + ents))
            expr = self.mk_expr(cand, suffix, is_dir=(t == 'd'))
        else:
            if self.S.kind_at(base) != 'd':
                return
            expr = self._expr_with_suffix(cand, 'q%d' % len(self.ops))
        self.n_path += 1
        self.emit({'k': 'def', 'ph': self.phase, 'name': 'P%d' % self.n_path, 'expr': expr, 'inc': inc})
        self.prefer = 'P%d' % self.n_path
        if chain and draw(st.integers(0, 2)) > 0:
            self.op_def(chain - 1)

    def op_cdseq(self):
        """def P = [-rel-cd] X ; cd elsewhere ; use P  (-rel-cd is resolved when P is referenced)"""
        draw = self.draw
        here = ref.locate(self.S.cwd)
        ents = self.existing_under(here, 'any')
        ents = [e for e in ents if e[0] and e[0].count('/') <= 1 and not e[0].startswith('w')]
        if not ents:
            return
        suffix, t = draw(st.sampled_from(ents))
        cand = (1, draw(st.sampled_from([None, 'cd'])), None, ref.PV('cd'), None)
        expr = self.mk_expr(cand, suffix, is_dir=(t == 'd'))
        self.n_path += 1
        name = 'P%d' % self.n_path
        self.emit({'k': 'def', 'ph': self.phase, 'name': name, 'expr': expr, 'inc': draw(st.sampled_from([0, 0, 0, 1, 2]))})
        for _ in range(draw(st.sampled_from([1, 1, 2]))):
            self.op_cd()
        self.force = name
        try:
            kind = draw(st.sampled_from(['read', 'read', 'copy', 'render', 'file', 'dir', 'def']))
            if kind == 'render':
                self.emit({'k': 'render', 'ph': self.phase, 'how': draw(st.sampled_from(['file', 'sh'])),
                           'syms': [name]})
            else:
                getattr(self, 'op_' + kind)()
        finally:
            self.force = None

    def op_cd(self):
        r = self.expr_existing('cd', self.phase, 'd', pred=lambda k, e: k[1] in ref.CD_BASES, allow_abs=False)
        if r is None:
            return
        expr, loc, t = r
        if loc[1] not in ref.CD_BASES:
            return
        self.emit({'k': 'cd', 'ph': self.phase, 'expr': expr})

    def op_render(self):
        draw = self.draw
        names = [n for n in sorted(self.S.paths) if n not in self.tainted]
        own = [n for n in names if n not in ref.BUILTINS]
        pool = own * 3 + names
        syms = draw(st.lists(st.sampled_from(pool), min_size=1, max_size=4, unique=True))
        how = draw(st.sampled_from(['file'] * 6 + ['sh'] * 3 + ['probe']))
        self.emit({'k': 'render', 'ph': self.phase, 'how': how, 'syms': syms})

    def op_file(self):
        draw = self.draw
        form = draw(st.sampled_from(['new', 'new', 'empty', 'append']))
        i = len(self.ops)
        if form == 'append':
            r = self.expr_existing('file', self.phase, 'f', allow_abs=False,
                                   pred=lambda k, e: k[0] == 'SB' and not ref.is_exe(k[1])
                                   and not k[1].startswith('result'))
            if r is None:
                return
            expr = r[0]
        else:
            expr = self.expr_fresh('file', self.phase, i, nested_ok=False)
            if expr is None:
                return
        self.try_emit({'k': 'file', 'ph': self.phase, 'expr': expr, 'form': form})

    def op_dir(self):
        draw = self.draw
        form = draw(st.sampled_from(['new', 'new', 'with', 'add']))
        i = len(self.ops)
        if form == 'add':
            r = self.expr_existing('dir', self.phase, 'd', allow_abs=False, pred=lambda k, e: k[0] == 'SB')
            if r is None:
                return
            expr = r[0]
        else:
            expr = self.expr_fresh('dir', self.phase, i, nested_ok=True)
            if expr is None:
                return
        self.try_emit({'k': 'dir', 'ph': self.phase, 'expr': expr, 'form': form})

    def op_copy(self):
        draw = self.draw
        i = len(self.ops)
        mode = draw(st.sampled_from(['fresh', 'fresh', 'fresh', 'into', 'none']))
        if mode == 'none':
            # SOURCE only: the base name must be free in the current directory -> only the g* entries
            r = self.expr_existing('copy_src', self.phase, 'any', keep_basename=True,
                                   pred=lambda k, e: k[1].rsplit('/', 1)[-1] in ('g1', 'gd', 'g2'))
            if r is None:
                return
            self.try_emit({'k': 'copy', 'ph': self.phase, 'src': r[0], 'dst': None})
            return
        if mode == 'into':
            r = self.expr_existing('copy_src', self.phase, 'any', keep_basename=True,
                                   pred=lambda k, e: k[1].rsplit('/', 1)[-1] in ('g1', 'gd', 'g2'))
            if r is None:
                return
            d = self.expr_existing('copy_dst', self.phase, 'd', allow_abs=False, pred=lambda k, e: k[0] == 'SB')
            if d is None:
                return
            if d[0]['name'] == [['l', '.']] and d[0]['rel'] is not None and draw(st.booleans()):
                d[0]['name'] = []  # DESTINATION with RELATIVITY only
            self.try_emit({'k': 'copy', 'ph': self.phase, 'src': r[0], 'dst': d[0]})
            return
        r = self.expr_existing('copy_src', self.phase, 'any', keep_basename=True)
        if r is None:
            return
        dst = self.expr_fresh('copy_dst', self.phase, i, nested_ok=True)
        if dst is None:
            return
        self.try_emit({'k': 'copy', 'ph': self.phase, 'src': r[0], 'dst': dst})

    def op_defx(self):
        """a text-source / program / files-source symbol that holds a PATH (evaluated when referenced)"""
        draw = self.draw
        typ = draw(st.sampled_from(['ts', 'ts', 'pg', 'fs']))
        site = ref.X_SITE[typ]
        want = {'ts': 'f', 'pg': 'f', 'fs': 'd'}[typ]
        pred = (lambda k, e: ref.is_exe(k[1])) if typ == 'pg' else None
        old_force = self.force
        cd_syms = [n for n in sorted(self.S.paths) if self.S.paths[n].kind == 'cd' and n not in self.tainted]
        forced_opt = None
        how = draw(st.sampled_from(['any', 'cd-sym', 'cd-opt']))
        if how == 'cd-sym' and cd_syms:
            self.force = draw(st.sampled_from(cd_syms))
        r = None
        try:
            if how == 'cd-opt':
                base = ref.locate(self.S.cwd)
                ents = self.existing_under(base, want, pred)
                ents = [e for e in ents if e[0] and not e[0].startswith('w')]
                if ents:
                    suffix, t = draw(st.sampled_from(ents))
                    r = (self.mk_expr((1, 'cd', None, ref.PV('cd'), None), suffix, is_dir=(t == 'd')), None, t)
            if r is None:
                r = self.expr_existing(site, self.phase, want, pred)
        finally:
            self.force = old_force
        if r is None:
            return
        self.n_x = getattr(self, 'n_x', 0) + 1
        name = 'X%d' % self.n_x
        if self.try_emit({'k': 'defx', 'ph': self.phase, 'name': name, 'type': typ, 'expr': r[0]}):
            if draw(st.integers(0, 2)) == 0:
                self.op_cd()
            if draw(st.booleans()):
                self.op_usex(name)

    def op_usex(self, name=None):
        draw = self.draw
        if not self.S.xsyms:
            return self.op_defx()
        if name is None:
            name = draw(st.sampled_from(sorted(self.S.xsyms)))
        self.try_emit({'k': 'usex', 'ph': self.phase, 'name': name, 'type': self.S.xsyms[name][0]})

    def op_read(self):
        draw = self.draw
        sites = list(READ_SITES_ANY)
        if self.phase == 'assert':
            sites += ['exists', 'contents', 'dir-contents'] * 2
        site = draw(st.sampled_from(sites))
        want = {'contents_of': 'f', 'dir_contents_of': 'd', 'existing': 'any', 'exe': 'f', 'exists': 'any',
                'contents': 'f', 'dir-contents': 'd', 'pgm_stdin': 'f'}[site]
        pred = None
        if site == 'exe':
            pred = lambda k, e: ref.is_exe(k[1])
        elif site in ('exists', 'contents'):
            pred = lambda k, e: e[0] == 'd' or (not ref.is_exe(k[1]))
        r = self.expr_existing(site, self.phase, want, pred)
        if r is None:
            return
        expr, loc, t = r
        op = {'k': 'read', 'ph': self.phase, 'site': site, 'expr': expr}
        if site == 'existing':
            op['etype'] = draw(st.sampled_from([t, 'p']))
        self.try_emit(op)

    def try_emit(self, op):
        """emit unless the model says the generated instruction is outside the domain (e.g. a name clash that
        the candidate selection did not foresee); the state is unchanged in that case"""
        import copy as _copy
        saved = (_copy.deepcopy(self.S.tree), dict(self.S.paths), dict(self.S.strs), self.S.cwd, dict(self.S.xsyms))
        try:
            self.emit(op)
            return True
        except Broken:
            self.ops.pop()
            self.S.tree, self.S.paths, self.S.strs, self.S.cwd, self.S.xsyms = saved
            return False

    def gen_act(self):
        """[act] (called with phase = setup, after the last instruction of [setup])"""
        draw = self.draw
        k = draw(st.sampled_from(['plain', 'plain', 'exe', 'arg', 'cat']))
        act = {'k': 'plain'}
        if k == 'exe':
            r = self.expr_existing('act_exe', 'act', 'f', pred=lambda k_, e: ref.is_exe(k_[1]))
            if r is not None:
                act = {'k': 'exe', 'expr': r[0]}
        elif k == 'arg':
            r = self.expr_existing('existing', 'act', 'any')
            if r is not None:
                act = {'k': 'arg', 'expr': r[0]}
        elif k == 'cat':
            # `stdin = -contents-of PATH` as the last instruction of [setup]; [act] copies stdin to stdout
            r = self.expr_existing('stdin', 'setup', 'f')
            if r is not None and self.try_emit({'k': 'read', 'ph': 'setup', 'site': 'stdin', 'expr': r[0]}):
                act = {'k': 'cat'}
        self.S.apply_act(act)
        return act

    # ---- irregular uses ----------------------------------------------------------------------------------------------
    def site_for_phase(self, dest_bias=True):
        draw = self.draw
        sites = ['file', 'dir', 'copy_dst'] * (3 if dest_bias else 1) + ['copy_src', 'cd', 'contents_of', 'existing',
                                                                          'exe', 'pgm_stdin', 'dir_contents_of']
        if self.phase == 'assert':
            sites += ['exists', 'contents', 'dir-contents']
        return draw(st.sampled_from(sites))

    def use_op(self, site, expr, i=None):
        """an operation that uses expr at site (for destinations: making something new)"""
        ph = self.phase
        if site == 'file':
            return {'k': 'file', 'ph': ph, 'expr': expr, 'form': 'new'}
        if site == 'dir':
            return {'k': 'dir', 'ph': ph, 'expr': expr, 'form': 'new'}
        if site == 'copy_dst':
            return {'k': 'copy', 'ph': ph, 'src': {'rel': 'act', 'lead': None, 'name': [['l', 'f1']], 'q': 0},
                    'dst': expr}
        if site == 'copy_src':
            return {'k': 'copy', 'ph': ph, 'src': expr,
                    'dst': {'rel': 'tmp', 'lead': None, 'name': [['l', 'o/c%d' % len(self.ops)]], 'q': 0}}
        if site == 'cd':
            return {'k': 'cd', 'ph': ph, 'expr': expr}
        op = {'k': 'read', 'ph': ph, 'site': site, 'expr': expr}
        if site == 'existing':
            op['etype'] = 'p'
        return op

    def irregular(self):
        """append one irregular group; returns its class label or None"""
        draw = self.draw
        cls = draw(st.sampled_from(['bad-option', 'bad-symbol', 'bad-symbol', 'bad-symbol', 'abs+rel', 'abs+rel',
                                    'abs-dest', 'lead+rel', 'here', 'str-concat']))
        S = self.S
        ph = self.phase
        n0 = len(self.ops)
        try:
            if cls == 'bad-option' or cls == 'here':
                site = self.site_for_phase()
                acc = accepted(site, ph)
                bad = unaccepted(acc, KINDS) if cls == 'bad-option' else ['here']
                if not bad:
                    return None
                k = draw(st.sampled_from(bad))
                name = _leaf_for(site, n0)
                expr = {'rel': k, 'lead': None, 'name': [['l', name]], 'q': draw(st.sampled_from([0, 1, 2]))}
                self.emit_irregular(self.use_op(site, expr))
                return cls
            if cls == 'bad-symbol':
                site = self.site_for_phase()
                acc = accepted(site, ph)
                bad = [k for k in unaccepted(acc, KINDS + ['abs']) + ['here'] if not (k == 'here' and 'abs' in acc)]
                if not bad:
                    return None
                k = draw(st.sampled_from(bad))
                depth = draw(st.sampled_from([1, 1, 2, 2, 3, 3, 4]))
                # first link
                self.n_path += 1
                sym = 'P%d' % self.n_path
                inc = draw(st.sampled_from([0, 1, 2]))
                if k == 'abs':
                    e = {'rel': None, 'lead': None, 'name': [['l', draw(st.sampled_from(ABS_DIRS[:4]))]], 'q': 0}
                elif k == 'here':
                    e = {'rel': 'here', 'lead': None, 'name': [['l', '.']], 'q': 0}
                else:
                    e = {'rel': k, 'lead': None, 'name': [['l', '.']], 'q': 0}
                self.emit({'k': 'def', 'ph': ph, 'name': sym, 'expr': e, 'inc': inc})
                # the chain walks d1, d2 of the fixture tree (every root holds it), so that the path that is finally
                # used names something that exists: a reading argument that accepted it would have to resolve it
                pos = 0
                for _ in range(depth - 1):
                    link = draw(st.sampled_from(['rel', 'lead', 'plain']))
                    self.n_path += 1
                    nsym = 'P%d' % self.n_path
                    if link != 'plain' and pos < 2:
                        comp = COMPS[pos]
                        pos += 1
                    elif link != 'plain':
                        comp = '../d2'
                    if link == 'rel':
                        e = {'rel': 'sym:' + sym, 'lead': None, 'name': _fragmentize(draw, comp, S), 'q': 0}
                    elif link == 'lead':
                        e = {'rel': None, 'lead': sym, 'name': [['l', '/' + comp]], 'q': 0}
                    else:
                        e = {'rel': None, 'lead': sym, 'name': [], 'q': 0}
                    self.emit({'k': 'def', 'ph': ph, 'name': nsym, 'expr': e, 'inc': draw(st.sampled_from([0, 0, 1, 2]))})
                    sym = nsym
                if SITES[site]['dest']:
                    name = 'n%d' % n0
                else:
                    name, _ = _leaf(READ_WANT.get(site, 'f'), pos, draw(st.booleans()))
                    if site == 'copy_src' and not name:
                        name = '../d2'
                form = draw(st.sampled_from(['rel', 'lead', 'plain'])) if name else 'plain'
                if form == 'plain' and name:
                    self.n_path += 1
                    nsym = 'P%d' % self.n_path
                    self.emit({'k': 'def', 'ph': ph, 'name': nsym, 'inc': 0,
                               'expr': {'rel': 'sym:' + sym, 'lead': None, 'name': [['l', name]], 'q': 0}})
                    sym = nsym
                if form == 'rel':
                    expr = {'rel': 'sym:' + sym, 'lead': None, 'name': _fragmentize(draw, name, S), 'q': 0}
                elif form == 'lead':
                    expr = {'rel': None, 'lead': sym, 'name': [['l', '/' + name]], 'q': draw(st.sampled_from([0, 1]))}
                else:
                    expr = {'rel': None, 'lead': sym, 'name': [], 'q': 0}
                self.emit_irregular(self.use_op(site, expr))
                return cls + ':%d' % depth
            if cls == 'str-concat':
                # a path symbol routed through a string symbol: def string S = "@[P]@/x" ; <use> @[S]@/y
                site = self.site_for_phase()
                syms = [n for n in sorted(S.paths) if S.paths[n].kind != 'cd' and n not in self.tainted]
                sym = draw(st.sampled_from(syms))
                pv = S.paths[sym]
                base = self.base_loc((1, None, sym, pv, None))
                if base is None or S.kind_at(base) != 'd':
                    return None
                dest = SITES[site]['dest']
                if dest:
                    ents = [e for e in self.existing_under(base, 'd')]
                else:
                    want = {'cd': 'd', 'dir-contents': 'd', 'exe': 'f', 'contents_of': 'f', 'contents': 'f',
                            'pgm_stdin': 'f', 'dir_contents_of': 'd'}.get(site, 'any')
                    pred = (lambda k_, e: ref.is_exe(k_[1])) if site == 'exe' else (
                        lambda k_, e: not ref.is_exe(k_[1]))
                    ents = [e for e in self.existing_under(base, want, pred) if e[0]]
                if not ents:
                    return None
                suffix, t = draw(st.sampled_from(ents))
                if dest:
                    suffix = ref._j(suffix, 'n%d' % n0)
                cut = draw(st.integers(0, suffix.count('/')))
                parts = suffix.split('/')
                s_part, rest = '/'.join(parts[:cut]), '/'.join(parts[cut:])
                self.n_str += 1
                sname = 'S%d' % self.n_str
                self.emit({'k': 'defstr', 'ph': ph, 'name': sname, 'val': ('/' + s_part) if s_part else '',
                           'pref': sym})
                frags = [['s', sname]] + ([['l', '/' + rest]] if rest else [])
                if site == 'cd' and base[0] != 'SB':
                    return None
                expr = {'rel': None, 'lead': None, 'name': frags, 'q': draw(st.sampled_from([0, 1]))}
                self.emit_irregular(self.use_op(site, expr))
                return cls
            if cls == 'abs-dest':
                site = draw(st.sampled_from(['file', 'dir', 'copy_dst']))
                d = draw(st.sampled_from(['{HOME}/cs', '{HOME}/hd2', '{HOME}/cs/hd', '{ROOT}/absarea',
                                          '{ROOT}/absarea/d1']))
                name = d + '/n%d' % n0
                via = draw(st.sampled_from(['const', 'const', 'sym', 'symdir']))
                if via == 'const':
                    frags = [['l', name]]
                elif via == 'sym':
                    frags = [['s', self.new_str(name)]]
                else:
                    frags = [['s', self.new_str(d)], ['l', '/n%d' % n0]]
                expr = {'rel': None, 'lead': None, 'name': frags, 'q': draw(st.sampled_from([0, 1]))}
                self.emit_irregular(self.use_op(site, expr))
                return cls
            if cls == 'lead+rel':
                site = self.site_for_phase()
                acc = accepted(site, ph)
                syms = [n for n in sorted(S.paths) if acc.get(S.paths[n].kind) is True and n not in self.tainted]
                opts = [k for k in KINDS if acc.get(k) is True]
                if not syms or not opts:
                    return None
                name = _leaf_for(site, n0)
                expr = {'rel': draw(st.sampled_from(opts)), 'lead': draw(st.sampled_from(syms)),
                        'name': [['l', '/' + name]], 'q': draw(st.sampled_from([0, 1]))}
                self.emit_irregular(self.use_op(site, expr))
                return cls
            if cls == 'abs+rel':
                return self.irregular_abs_rel()
        except Broken:
            del self.ops[n0:]
            return None
        return None

    def emit_irregular(self, op):
        # the model state after an irregular use is not used any more: the instruction is applied to a copy, only
        # to learn whether it is inside the modelled domain (Broken aborts the irregular group)
        import copy as _copy
        probe = _copy.deepcopy(self.S)
        try:
            probe.apply(len(self.ops), op)
        except ref.Reject:
            pass
        self.ops.append(op)

    def irregular_abs_rel(self):
        """absolute FILE-NAME combined with a RELATIVITY (invalid usage, KF-C12-1)"""
        draw = self.draw
        S, ph = self.S, self.phase
        n0 = len(self.ops)
        via_def = draw(st.booleans())
        site = 'def' if via_def else self.site_for_phase()
        use_site = self.site_for_phase() if via_def else site
        acc = accepted(site, ph)
        dest = SITES[use_site]['dest']
        absdir = draw(st.sampled_from(['{HOME}/cs', '{HOME}/hd2', '{ROOT}/absarea', '{ROOT}/absarea/d1',
                                       '{HOME}/cs/hd/d1']))
        want = {'cd': 'd1', 'dir-contents': 'd1', 'exe': 'x1'}.get(use_site, 'f1')
        if absdir.endswith('/d1'):
            want = {'f1': 'f2', 'd1': 'd2', 'x1': None}.get(want)
            if want is None:
                absdir = '{ROOT}/absarea'
                want = 'x1'
        leaf = ('n%d' % n0) if dest else want
        # how the relativity is given
        rels = [k for k in KINDS if acc.get(k) in (True, 'maybe') and not (k == 'result' and acc.get(k) == 'maybe')]
        syms = [n for n in sorted(S.paths) if acc.get(S.paths[n].kind) is True and n not in self.tainted]
        if site == 'def':
            rels = rels + ['here']
        choices = [('opt', k) for k in rels] + [('sym', n) for n in syms]
        if not choices:
            return None
        how, which = draw(st.sampled_from(choices))
        rel = which if how == 'opt' else 'sym:' + which
        split = draw(st.sampled_from(['whole', 'whole', 'dir']))  # absolute name of the leaf, or of its directory
        via = draw(st.sampled_from(['const', 'sym', 'sym']))
        if via_def:
            absname = absdir if split == 'dir' else absdir + '/' + leaf
        else:
            absname = absdir + '/' + leaf
        if via == 'const':
            frags = [['l', absname]]
        else:
            frags = [['s', self.new_str(absname)]]
        expr = {'rel': rel, 'lead': None, 'name': frags, 'q': draw(st.sampled_from([0, 1]))}
        if not via_def:
            self.emit_irregular(self.use_op(site, expr))
            return 'abs+rel:direct:' + via
        self.n_path += 1
        sym = 'P%d' % self.n_path
        self.ops.append({'k': 'def', 'ph': ph, 'name': sym, 'expr': expr, 'inc': draw(st.sampled_from([0, 0, 1, 2]))})
        self.tainted.add(sym)
        rest = leaf if split == 'dir' else ''
        form = draw(st.sampled_from(['rel', 'lead'])) if rest else 'lead'
        if form == 'rel':
            uexpr = {'rel': 'sym:' + sym, 'lead': None, 'name': [['l', rest]], 'q': 0}
        else:
            uexpr = {'rel': None, 'lead': sym, 'name': [['l', '/' + rest]] if rest else [], 'q': 0}
        if draw(st.integers(0, 3)) == 0:
            self.ops.append({'k': 'render', 'ph': ph, 'how': 'file', 'syms': [sym]})
        self.ops.append(self.use_op(use_site, uexpr))
        return 'abs+rel:def:' + via


WEIGHTED_KINDS = (['def'] * 7 + ['defstr'] * 2 + ['cd'] * 3 + ['cdseq'] * 2 + ['render'] * 3 + ['file'] * 2 + ['dir'] * 2 +
                  ['copy'] * 3 + ['read'] * 6 + ['defx'] * 2 + ['usex'] * 2)


@st.composite
def cases(draw, tier='quick', irregular_rate=3):
    """irregular_rate: one case in `irregular_rate` ends with an irregular use (0 = never)"""
    conf = {'home': draw(st.sampled_from([0, 0, 1, 2])), 'act_home': draw(st.sampled_from([0, 0, 1, 2])),
            'inv': draw(st.sampled_from([0, 0, 0, 1, 2])), 'cinc': draw(st.sampled_from([0, 0, 1]))}
    g = Gen(draw, conf, tier)
    n = draw(st.integers(1, 12 if tier == 'quick' else 16))
    phase_idx = sorted(draw(st.lists(st.sampled_from([0, 0, 0, 1, 2, 2, 3]), min_size=n, max_size=n)))
    want_irregular = irregular_rate and draw(st.integers(1, irregular_rate)) == 1
    act = None
    for pi in phase_idx:
        g.phase = PHASES[pi]
        if pi >= 1 and act is None:
            g.phase = 'setup'
            act = g.gen_act()
            g.phase = PHASES[pi]
        kinds = WEIGHTED_KINDS
        if any(pv.kind == 'cd' and pv.cwd0 == g.S.cwd for pv in g.S.paths.values()):
            kinds = kinds + ['cd'] * 6  # a -rel-cd symbol exists and the current directory is still the same
        kind = draw(st.sampled_from(kinds))
        getattr(g, 'op_' + kind)()
    label = None
    if want_irregular:
        if act is None and draw(st.booleans()):
            g.phase = 'setup'
            act = g.gen_act()
            g.phase = PHASES[draw(st.sampled_from([1, 2, 2, 3]))]
        elif act is None:
            g.phase = 'setup'
        label = g.irregular()
    if act is None and not want_irregular:
        g.phase = 'setup'
        act = g.gen_act()
    if act is None:
        act = {'k': 'plain'}
    return {'conf': conf, 'act': act, 'ops': g.ops, 'irr': label}


# ---- enumerated matrices ---------------------------------------------------------------------------------------
# A matrix case = a chain of path-symbol definitions over one base relativity + one use of the last symbol.
#   base   P1 = -rel-K . | <absolute dir> | -rel-here .          (K: every relativity option)
#   links  P(j+1) = -rel Pj COMP | @[Pj]@/COMP | @[Pj]@           ('rel' | 'lead' | 'plain'), COMP walks d1, d2 of the
#          fixture tree (then ../d2, so that a link stays what it is when the tree is exhausted)
#   use    -rel Pn LEAF | @[Pn]@/LEAF | @[Pu]@ (Pu = Pn + LEAF: one more definition) | @[S]@/LEAF with
#          def string S = @[Pn]@  (the path symbol routed through a string symbol)
#   shapes of COMP and LEAF (rotated by the case number): plain, ./X, whole name from a string symbol, inner string
#          symbol, X/../X, //, string symbol defined via another string symbol; LEAF plain or nested
LINKS = ['rel', 'lead', 'plain']
USES = ['rel', 'lead', 'plain', 'str']
COMPS = ['d1', 'd2']
FILE_AT = ['f1', 'f2', 'f3']
EXE_AT = ['x1', 'x2', 'x3']
MATRIX_ABS = ['{HOME}/cs', '{ROOT}/absarea', '{HOME}/hd2', '{HOME}/cs/inc/deep']
N_SHAPES = 7


class _Build:
    def __init__(self, n, def_ph):
        self.n, self.def_ph = n, def_ph
        self.ops = []
        self.n_str = self.n_path = 0

    def newstr(self, val, **kw):
        self.n_str += 1
        name = 'S%d' % self.n_str
        op = {'k': 'defstr', 'ph': self.def_ph, 'name': name, 'val': val}
        op.update(kw)
        self.ops.append(op)
        return name

    def newpath(self, expr, inc=0):
        self.n_path += 1
        name = 'P%d' % self.n_path
        self.ops.append({'k': 'def', 'ph': self.def_ph, 'name': name, 'expr': expr, 'inc': inc})
        return name

    def frags(self, name, shape, first_is_dir):
        """fragments of a FILE-NAME that denotes the same entry as the relative name `name`"""
        shape %= N_SHAPES
        if name.startswith('..'):
            return [['l', name]]
        if shape == 1:
            return [['l', './' + name]]
        if shape == 2:
            return [['s', self.newstr(name)]]
        if shape == 3 and len(name) > 1:
            return [['l', name[:1]], ['s', self.newstr(name[1:])]]
        if shape == 4 and first_is_dir:
            return [['l', name.split('/')[0] + '/../' + name]]
        if shape == 5 and '/' in name:
            return [['l', name.replace('/', '//', 1)]]
        if shape == 6 and len(name) > 1:
            return [['s', self.newstr(name[1:], sref=self.newstr(name[:1]))]]
        return [['l', name]]

    def expr(self, sym, form, name, shape, first_is_dir, q=0):
        """`name` below the path symbol `sym`, written as -rel SYM NAME ('rel') or @[SYM]@/NAME ('lead')"""
        if form == 'rel':
            return {'rel': 'sym:' + sym, 'lead': None, 'name': self.frags(name or '.', shape, first_is_dir), 'q': q}
        if not name:
            return {'rel': None, 'lead': sym, 'name': [], 'q': q}
        fr = self.frags(name, shape, first_is_dir)
        if fr[0][0] == 'l':
            fr[0][1] = '/' + fr[0][1]
        else:
            fr.insert(0, ['l', '/'])
        return {'rel': None, 'lead': sym, 'name': fr, 'q': q}

    def chain(self, k, links):
        """-> (name of the last symbol, number of fixture levels below the base it points to)"""
        n = self.n
        if k.startswith('b:'):
            sym = k[2:]
        else:
            if k == 'abs':
                e = {'rel': None, 'lead': None, 'name': [['l', MATRIX_ABS[n % 4]]], 'q': 0}
            else:
                e = {'rel': k, 'lead': None, 'name': [['l', '.']], 'q': 0}
            sym = self.newpath(e, inc=[1, 0, 2, 0, 0, 0][n % 6])
        pos = 0
        for j, link in enumerate(links):
            if link == 'plain':
                e = {'rel': None, 'lead': sym, 'name': [], 'q': 0}
            elif pos < len(COMPS):
                e = self.expr(sym, link, COMPS[pos], n // 2 + 3 * j, True)
                pos += 1
            else:
                e = self.expr(sym, link, '../' + COMPS[-1], 0, False)
            # (definitions in included files: every second chain has one link in a nested include)
            sym = self.newpath(e, inc=[0, 0, 0, 2, 0, 1][(n + j) % 6])
        return sym, pos

    def use(self, sym, pos, use, leaf, leaf_is_dir, shape):
        """-> expr that names LEAF (a relative name; '' = the symbol itself) below the symbol"""
        first_is_dir = leaf_is_dir or '/' in leaf
        if use in ('rel', 'lead'):
            return self.expr(sym, use, leaf, shape, first_is_dir, q=self.n % 2 if use == 'lead' else 0)
        if use == 'plain':
            if leaf:
                sym = self.newpath(self.expr(sym, ['rel', 'lead'][self.n % 2], leaf, shape, first_is_dir))
            return {'rel': None, 'lead': sym, 'name': [], 'q': (self.n // 2) % 2}  # @[P]@ | "@[P]@"
        # 'str': def string S = "@[SYM]@" ; @[S]@/LEAF
        s = self.newstr('', pref=sym)
        fr = [['s', s]]
        if leaf:
            fr.append(['l', '/' + leaf])
        return {'rel': None, 'lead': None, 'name': fr, 'q': self.n % 2}


def _leaf(want, pos, nested, fresh='n0'):
    """-> (relative name, is a directory) of an entry of the fixture tree `pos` levels down that has the wanted type
    ('f' file, 'x' executable, 'd' directory, 'new' something that does not exist)"""
    if want == 'd':
        if pos >= 2:
            return '', True
        return ('d1/d2' if (nested and pos == 0) else COMPS[pos]), True
    table = {'f': FILE_AT, 'x': EXE_AT}
    if want == 'new':
        if nested and pos < 2:
            return COMPS[pos] + '/' + fresh, False
        return fresh, False
    if nested and pos < 2:
        return COMPS[pos] + '/' + table[want][pos + 1], False
    return table[want][pos], False


THINNING = {'quick': {1: 1, 2: 2, 3: 12}, 'thorough': {1: 1, 2: 1, 3: 1, 4: 3}}  # depth -> keep one cell in N


def _hows(tier, n0):
    """chain cells: (base relativity, links, use) up to the depth bound of the tier (deep chains thinned out, the
    selection rotates with the position in the matrix)"""
    import itertools
    i = n0
    for k in KINDS + ['abs', 'here']:
        for depth, keep in sorted(THINNING[tier].items()):
            for links in itertools.product(LINKS, repeat=depth - 1):
                for use in USES:
                    i += 1
                    if use == 'str' and k == 'cd':
                        continue  # (the value of a string over a -rel-cd path depends on when it is evaluated)
                    if (i + i // 4) % keep:
                        continue
                    yield k, list(links), use
    # the builtin path symbols as base (no definition of the base: depth counts the definitions after it)
    for name in sorted(ref.BUILTINS):
        for depth in (0, 1):
            for links in itertools.product(LINKS, repeat=depth):
                for use in USES:
                    i += 1
                    if tier == 'quick' and (i + i // 4) % (6 if depth else 2):
                        continue
                    yield 'b:' + name, list(links), use


def _conf(n):
    return {'home': n % 3, 'act_home': (n // 3) % 3, 'inv': (n // 5) % 3, 'cinc': (n // 7) % 2}


DEST_FORMS = ['file:new', 'file:empty', 'file:append', 'dir:new', 'dir:with', 'dir:add', 'copy_dst']


def dest_matrix(tier):
    """every destination form (creating and modifying) x phase x (explicit option | symbol chain over every base
    relativity, every combination of link kinds up to the depth bound, every way of using the last symbol)"""
    n = 0
    for form in DEST_FORMS:
        if tier == 'quick' and form in ('file:empty', 'dir:with'):
            continue
        for ph in PHASES:
            for k in [None] + KINDS + ['here']:  # None: the default relativity of the argument
                yield _dest_case(form, ph, ('opt', k), n)
                n += 1
            if form == 'copy_dst':
                for k in KINDS:
                    yield _dest_case(form, ph, ('optonly', k), n)  # DESTINATION = RELATIVITY without FILE-NAME
                    n += 1
            for k, links, use in _hows(tier, n):
                yield _dest_case(form, ph, ('chain', k, links, use), n)
                n += 1
            # invalid usage / known findings: absolute FILE-NAME without RELATIVITY (KF-C12-2), absolute FILE-NAME
            # with a RELATIVITY that the argument accepts (KF-C12-1)
            for j in range(3):
                yield _dest_case(form, ph, ('absname', None, j), n)
                n += 1
            for rel in ('act', 'tmp', 'cd', 'sym'):
                yield _dest_case(form, ph, ('absname', rel, n), n)
                n += 1


ABSNAME_DIRS = ['{HOME}/cs', '{HOME}/hd2', '{ROOT}/absarea', '{HOME}/cs/hd']


def _abs_name_expr(b, rel, j, leaf, sym_rel):
    """<absolute dir>/LEAF as FILE-NAME (constant, from one string symbol, or directory from a string symbol),
    without RELATIVITY (rel None) or with one (an option, or 'sym': -rel P with P = -rel-<sym_rel> .)"""
    d = ABSNAME_DIRS[j % len(ABSNAME_DIRS)]
    name = d + '/' + leaf
    via = (j // len(ABSNAME_DIRS) + j) % 3
    if via == 0:
        frags = [['l', name]]
    elif via == 1:
        frags = [['s', b.newstr(name)]]
    else:
        frags = [['s', b.newstr(d)], ['l', '/' + leaf]]
    if rel == 'sym':
        rel = 'sym:' + b.newpath({'rel': sym_rel, 'lead': None, 'name': [['l', '.']], 'q': 0})
    return {'rel': rel, 'lead': None, 'name': frags, 'q': j % 2}


def _dest_case(form, ph, how, n):
    site, sub = (form.split(':') + [None])[:2]
    existing = form in ('file:append', 'dir:add')
    b = _Build(n, 'setup' if n % 2 else ph)
    want = {'file:append': 'f', 'dir:add': 'd'}.get(form, 'new')
    nested = (n // 3) % 2 == 1 and form not in ('file:new', 'file:empty')  # (file does not make directories)
    nested_new = (n // 3) % 2 == 1
    src_leaf = 'f1'
    if how[0] == 'absname':
        leaf, is_dir = _leaf(want, 0, False)
        expr = _abs_name_expr(b, how[1], how[2], leaf, 'tmp')
    elif how[0] in ('opt', 'optonly'):
        leaf, is_dir = _leaf(want, 0, nested_new if want == 'new' else nested)
        if how[0] == 'optonly':
            expr = {'rel': how[1], 'lead': None, 'name': [], 'q': 0}
            src_leaf = 'g1'  # (exists in the home directories only: free in every directory of the sandbox)
        else:
            expr = {'rel': how[1], 'lead': None, 'name': b.frags(leaf, n, is_dir or '/' in leaf), 'q': n % 3}
            if any(t == 's' for t, _ in expr['name']) and expr['q'] == 2:
                expr['q'] = 0
    else:
        _, k, links, use = how
        sym, pos = b.chain(k, links)
        leaf, is_dir = _leaf(want, pos, nested_new if want == 'new' else nested)
        expr = b.use(sym, pos, use, leaf, is_dir, n // 5)
    ops = b.ops
    if site == 'file':
        ops.append({'k': 'file', 'ph': ph, 'expr': expr, 'form': sub})
    elif site == 'dir':
        ops.append({'k': 'dir', 'ph': ph, 'expr': expr, 'form': sub})
    else:
        ops.append({'k': 'copy', 'ph': ph, 'src': {'rel': 'home', 'lead': None, 'name': [['l', src_leaf]], 'q': 0},
                    'dst': expr})
    return {'conf': _conf(n), 'act': {'k': 'plain'}, 'ops': ops, 'irr': 'matrix'}


# ---- enumerated matrix of the reading arguments ------------------------------------------------------------------
READ_SITES = ['copy_src', 'cd', 'contents_of', 'dir_contents_of', 'existing', 'exe', 'stdin', 'pgm_stdin', 'exists',
              'contents', 'dir-contents', 'act_exe', 'act_arg', 'act_file', 'act_interp']
READ_WANT = {'cd': 'd', 'dir-contents': 'd', 'dir_contents_of': 'd', 'exe': 'x', 'act_exe': 'x', 'act_file': 'x',
             'act_interp': 'x'}
ACT_KIND = {'act_exe': 'exe', 'act_arg': 'arg', 'act_file': 'file', 'act_interp': 'interp'}


def _usable_rels(site, ph):
    acc = accepted(site, ph)
    return [k for k in KINDS if acc.get(k) is True or (acc.get(k) == 'maybe' and k != 'result')]


def read_phases(site):
    if site.startswith('act_'):
        return ['act']
    if site in ref.ASSERT_ONLY:
        return ['assert']
    if site == 'stdin':
        return ['setup']
    return PHASES


def read_matrix(tier):
    """every reading argument x phase x (no option | every option | symbol chain over every base relativity, every
    combination of link kinds up to the depth bound, every way of using the last symbol)"""
    n = 0
    for site in READ_SITES:
        for ph in read_phases(site):
            hows = [('default',)] + [('opt', k) for k in KINDS + ['here']]
            hows += [('chain', k, links, use) for k, links, use in _hows(tier, n)]
            # invalid usage / KF-C12-1: absolute FILE-NAME together with a RELATIVITY that the argument accepts
            rels = _usable_rels('existing' if site == 'act_arg' else site, ph)
            hows += [('absname', rels[(n + j) % len(rels)], n + j) for j in range(3)] + [('absname', 'sym', n)]
            for how in hows:
                if site == 'dir_contents_of' and how[0] == 'default':
                    continue  # default relativity undocumented
                yield _read_case(site, ph, how, n)
                n += 1


def _read_case(site, ph, how, n):
    real_site = 'existing' if site == 'act_arg' else site
    b = _Build(n, 'setup' if (ph == 'act' or n % 2) else ph)
    want = READ_WANT.get(real_site, 'f')
    if real_site in ('existing', 'exists', 'copy_src') and (n // 2) % 2:
        want = 'd'
    nested = (n // 3) % 2 == 1
    if how[0] == 'default':
        leaf, is_dir = _leaf(want, 0, nested)
        expr = {'rel': None, 'lead': None, 'name': b.frags(leaf, n, is_dir or '/' in leaf), 'q': 0}
    elif how[0] == 'opt':
        leaf, is_dir = _leaf(want, 0, nested)
        expr = {'rel': how[1], 'lead': None, 'name': b.frags(leaf, n, is_dir or '/' in leaf), 'q': n % 3}
        if any(t == 's' for t, _ in expr['name']) and expr['q'] == 2:
            expr['q'] = 0
    elif how[0] == 'absname':
        leaf, is_dir = _leaf(want, 0, nested)
        sym_rel = _usable_rels(real_site, ph)[n % 2]
        expr = _abs_name_expr(b, how[1], how[2], leaf, sym_rel)
    else:
        _, k, links, use = how
        sym, pos = b.chain(k, links)
        leaf, is_dir = _leaf(want, pos, nested)
        if real_site == 'copy_src' and not leaf:
            leaf, is_dir = '../d2', True  # (SOURCE needs a base name)
        expr = b.use(sym, pos, use, leaf, is_dir, n // 5)
    ops = b.ops
    act = {'k': 'plain'}
    if site in ACT_KIND:
        act = {'k': ACT_KIND[site], 'expr': expr}
    elif site == 'copy_src':
        ops.append({'k': 'copy', 'ph': ph, 'src': expr,
                    'dst': {'rel': 'tmp', 'lead': None, 'name': [['l', 'o/c']], 'q': 0}})
    elif site == 'cd':
        ops.append({'k': 'cd', 'ph': ph, 'expr': expr})
    else:
        op = {'k': 'read', 'ph': ph, 'site': site, 'expr': expr}
        if site == 'existing':
            op['etype'] = ['p', 'd' if want == 'd' else 'f'][n % 2]
        ops.append(op)
        if site == 'stdin':
            act = {'k': 'cat'}
    return {'conf': _conf(n), 'act': act, 'ops': ops, 'irr': 'read-matrix'}


# ---- -rel-cd is resolved at the time of use: definition, then cd, then use ---------------------------------------
CD_MOVES = [
    [{'rel': 'tmp', 'lead': None, 'name': [['l', '.']], 'q': 0}],
    [{'rel': None, 'lead': None, 'name': [['l', 'w1']], 'q': 0}],
    [{'rel': 'tmp', 'lead': None, 'name': [['l', 'w2']], 'q': 0}],
    [{'rel': 'cd', 'lead': None, 'name': [['l', 'w1']], 'q': 0}, {'rel': None, 'lead': None, 'name': [['l', 'w3']], 'q': 0}],
    [{'rel': 'act', 'lead': None, 'name': [['l', 'w1/w3']], 'q': 0}, {'rel': 'cd', 'lead': None, 'name': [['l', '..']], 'q': 0}],
]
CD_CHAINS = [[], ['rel'], ['lead'], ['plain'], ['rel', 'lead'], ['plain', 'rel']]


def cd_matrix(tier):
    """every argument kind x phase: a path symbol relative to the current directory (-rel-cd, or the default
    relativity of def) is defined (alone or as the base of a chain), the current directory is changed (once or
    twice, in the same or in a later phase), then the symbol is used; also the plain forms `-rel-cd X` / default
    relativity after cd"""
    n = 0
    sites = [('dest', f) for f in DEST_FORMS] + [('read', s) for s in READ_SITES]
    for kind, site in sites:
        if tier == 'quick' and site in ('file:empty', 'dir:with'):
            continue
        phases = PHASES if kind == 'dest' else read_phases(site)
        for ph in phases:
            for ci, links in enumerate(CD_CHAINS):
                if tier == 'quick' and ci >= 4 and (n + ci) % 2:
                    continue
                for use in (['rel', 'lead', 'plain', 'opt'] if not links else ['rel', 'lead']):
                    yield _cd_case(kind, site, ph, links, use, n)
                    n += 1
    for c in _cd_copy_cases(n):
        yield c


def _cd_copy_cases(n):
    """`copy SOURCE` without DESTINATION copies into the directory that is current when the instruction is executed"""
    for ph in PHASES:
        for mi, moves in enumerate(CD_MOVES):
            for src in ('g1', 'gd'):
                cd_ph = 'setup' if (n % 2) else ph
                ops = [{'k': 'cd', 'ph': cd_ph, 'expr': e} for e in moves]
                rel = [None, 'home', 'act-home'][n % 3]
                ops.append({'k': 'copy', 'ph': ph, 'dst': None,
                            'src': {'rel': rel, 'lead': None, 'name': [['l', src]], 'q': 0}})
                yield {'conf': _conf(n), 'act': {'k': 'plain'}, 'ops': ops, 'irr': 'cd-matrix'}
                n += 1


def _cd_case(kind, site, ph, links, use, n):
    real_site = 'existing' if site == 'act_arg' else site
    use_ph = 'setup' if ph == 'act' else ph
    def_ph, cd_ph = [('setup', 'setup'), ('setup', use_ph), (use_ph, use_ph)][n % 3]
    b = _Build(n, def_ph)
    if kind == 'dest':
        want = {'file:append': 'f', 'dir:add': 'd'}.get(site, 'new')
    else:
        want = READ_WANT.get(real_site, 'f')
    # base: -rel-cd . | default relativity of def (= current directory)
    e = [{'rel': 'cd', 'lead': None, 'name': [['l', '.']], 'q': 0},
         {'rel': None, 'lead': None, 'name': [['l', '.']], 'q': 0}][(n // 2) % 2]
    sym = b.newpath(e, inc=[0, 1, 0, 2][n % 4])
    pos = 0
    for j, link in enumerate(links):
        if link == 'plain':
            e = {'rel': None, 'lead': sym, 'name': [], 'q': 0}
        else:
            e = b.expr(sym, link, COMPS[pos], n + j, True)
            pos += 1
        sym = b.newpath(e, inc=0)
    ops = b.ops
    for e in CD_MOVES[n % len(CD_MOVES)]:
        ops.append({'k': 'cd', 'ph': cd_ph, 'expr': e})
    b.def_ph = cd_ph  # (string symbols needed by the use are defined after the cd)
    leaf, is_dir = _leaf(want, pos, (n // 3) % 2 == 1 and not site.startswith('file:'))
    if real_site == 'copy_src' and not leaf:
        leaf, is_dir = '../d2', True
    if use == 'opt':
        # no symbol: `-rel-cd LEAF`, or LEAF alone where the default relativity is the current directory
        default_cd = kind == 'dest' or SITES[real_site]['default'] == 'cd'
        expr = {'rel': None if (default_cd and n % 2) else 'cd', 'lead': None,
                'name': b.frags(leaf or '.', n, is_dir or '/' in leaf), 'q': 0}
    else:
        expr = b.use(sym, pos, use, leaf, is_dir, n // 5)
    act = {'k': 'plain'}
    if kind == 'dest':
        s, sub = (site.split(':') + [None])[:2]
        if s == 'file':
            ops.append({'k': 'file', 'ph': use_ph, 'expr': expr, 'form': sub})
        elif s == 'dir':
            ops.append({'k': 'dir', 'ph': use_ph, 'expr': expr, 'form': sub})
        else:
            ops.append({'k': 'copy', 'ph': use_ph, 'src': {'rel': 'home', 'lead': None, 'name': [['l', 'f1']], 'q': 0},
                        'dst': expr})
    elif site in ACT_KIND:
        act = {'k': ACT_KIND[site], 'expr': expr}
    elif site == 'copy_src':
        ops.append({'k': 'copy', 'ph': use_ph, 'src': expr,
                    'dst': {'rel': 'tmp', 'lead': None, 'name': [['l', 'o/c']], 'q': 0}})
    elif site == 'cd':
        ops.append({'k': 'cd', 'ph': use_ph, 'expr': expr})
    else:
        op = {'k': 'read', 'ph': use_ph, 'site': site, 'expr': expr}
        if site == 'existing':
            op['etype'] = ['p', 'd' if want == 'd' else 'f'][n % 2]
        ops.append(op)
        if site == 'stdin':
            act = {'k': 'cat'}
    return {'conf': _conf(n), 'act': act, 'ops': ops, 'irr': 'cd-matrix'}
