"""C18 mutation operators over the token lists of vlib/gen/c18_grammar.py, the DSL dictionary and the vocabularies of
extreme / ill-formed INTEGER, REGEX, replacement, GLOB and range arguments.

Independent of the code under test.  Harmless by construction (BUILDING.md): the vocabulary is closed (grammar
tokens + the words below: no absolute path, no `..`, no program name; `$ % @ -python sh` are not in the dictionary),
the token after `$` / `%` (the program) and those two tokens themselves are never deleted / replaced / moved by a
token-level operator, character-level operators never touch shell / source text, and `gate()` refuses the few texts
that could make Python's eval() of an INTEGER argument expensive or reach outside (`**` next to a big number, a
call of print / input / open / exec / ...).

A *mutant* is a list of ops; an op is {'op': name, 'f': file (0 main, 1 included), 'p': position selector,
'q': variant selector, 'w': vocabulary selector} - all small integers, interpreted modulo the number of eligible
positions, so that an op stays applicable while Hypothesis shrinks the document.
"""
import re

from hypothesis import strategies as st

from vlib.gen import c18_grammar as G

NL = G.NL

# ---- the DSL dictionary ----------------------------------------------------------------------------------------------
INSTRUCTION_NAMES = ['file', 'dir', 'cd', 'copy', 'env', 'run', 'stdin', 'timeout', 'def', 'including', 'contents',
                     'dir-contents', 'exists', 'exit-code', 'stdout', 'stderr', 'status', 'home', 'act-home', 'actor']
OPTIONS = ['-rel-act', '-rel-tmp', '-rel-home', '-rel-cd', '-rel-result', '-rel-here', '-rel-act-home', '-rel',
           '-contents-of', '-stdout-from', '-stderr-from', '-from', '-transformed-by', '-stdin', '-ignore-exit-code',
           '-ignore-case', '-full', '-at', '-preserve-new-lines', '-line-nums', '-recursive', '-min-depth',
           '-max-depth', '-selection', '-with-pruned', '-existing-file', '-existing-dir', '-existing-path',
           '-path-arg-last', '-path-arg-marker', '-of', '-to-upper', '-to-lower', '-trailing-space',
           '-trailing-new-lines', '-c', '-no-such-option', '-', '--']
RESERVED = ['(', ')', '[', ']', '{', '}', '=', '+=', '|', ':', '!', '&&', '||', '~', '==', '!=', '<', '<=', '>', '>=',
            ':>', '<<EOF', 'EOF', '<<', '<<-', '\\']
PRIMITIVES = ['constant', 'true', 'false', 'is-empty', 'matches', 'equals', 'num-lines', 'every', 'any', 'line',
              'line-num', 'type', 'symlink', 'name', 'path', 'stem', 'suffixes', 'suffix', 'num-files', 'identity',
              'char-case', 'strip', 'grep', 'replace', 'replace-test-case-dirs', 'filter', 'dir-contents-of', 'unset',
              'act', '!act', 'none', 'command', 'null', 'source', 'PASS', 'FAIL', 'SKIP']
NUMBERS = ['0', '1', '-1', '2', '10**100', '1/0', '2.5', '007']
QUOTES = ["'", '"', '`', "''", '""', "'a", 'a"', '"a \'b"']
SYMBOLS = ['S', 'L', 'P', 'IM', 'LM', 'FM', 'FSM', 'FC', 'FSRC', 'TS', 'TM', 'TT', 'PGM', 'N', 'PD', 'UNDEFINED',
           '@[S]@', '@[UNDEFINED]@', '@[EXACTLY_ACT]@', '@[EXACTLY_HOME]@', '@[TM]@', '@[PGM]@', '@[', ']@', '@[]@',
           '@[S', '"@[L]@"']
OTHER = ['#', '[setup]', '[assert]', '[nophase]', 'no-such-instruction', 'é', 'data.txt', 'nofile', 'f.txt', 'd']
DICT = INSTRUCTION_NAMES + G.TYPES + OPTIONS + RESERVED + PRIMITIVES + NUMBERS + QUOTES + SYMBOLS + OTHER

HEADERS = ['[setup]', '[act]', '[assert]', '[before-assert]', '[cleanup]', '[conf]', '[nophase]', '[]', '[setup',
           'setup]', '[ setup ]', '[setup] x', '[SETUP]', '[setup][act]', '[[setup]]', ' [assert] ', '[assert]]',
           '[before_assert]', '[-]', '[é]']

# characters inserted by the character-level operators (no `.` `/` `~` `*`: nothing that can build a path or `**`)
CHARS_COMMON = ["'", '"', '`', '\\', '@', '[', ']', '{', '}', '(', ')', '<', '!', ':', '=', '#', '\t', ' ', '\r', '-',
                '|', '&', 'é', '✓', ',', '?', '+']
# thorough tier only
CHARS_EXOTIC = ['\U0001f600', '\x0c', '\x00', '\x1b', chr(0x2028), '\x85', chr(0xfeff), chr(0x301), '\x7f']
CHARS = CHARS_COMMON + CHARS_EXOTIC
CHARS_QUICK = len(CHARS_COMMON)

# ---- vocabularies of ill-formed / extreme values: (token text, effective string) ----------------------------------------
# effective string = what the token denotes after Exactly's quote removal ('..' literal, ".." soft, naked as is)
INT_BAD = [('1/0', '1/0'), ('1//0', '1//0'), ('1%0', '1%0'), ('"1/ 0"', '1/ 0'), ('0**-1', '0**-1'),
           ('2.5', '2.5'), ('1.0', '1.0'), ('1e3', '1e3'), ('()', '()'), ('"\'a\'"', "'a'"), ('a', 'a'),
           ('"1 if"', '1 if'), ('0x', '0x'), ('""', ''), ("''", ''), ('1,2', '1,2'), ('[1]', '[1]'), ('None', 'None'),
           ('007', '007'), ('"1 +"', '1 +'), ('1-', '1-'), ('[][0]', '[][0]'), ('{}[1]', '{}[1]'),
           ('"(1).x"', '(1).x'), ('"1 2"', '1 2'), ('é', 'é'), ('"(1,2)[5]"', '(1,2)[5]'), ('2**-1', '2**-1'),
           ('1e400', '1e400'), ('"1 == 1 == "', '1 == 1 == '), ('"lambda: 1"', 'lambda: 1'),
           # one expression per exception class Python can raise from eval() of harmless text
           ('2.0**10000', '2.0**10000'),  # OverflowError
           ('[0]*10**15', '[0]*10**15'),  # MemoryError (refused at once: larger than the address space)
           ('"(lambda f: f(f))(lambda f: f(f))"', '(lambda f: f(f))(lambda f: f(f))'),  # RecursionError
           ('next(iter([]))', 'next(iter([]))'),  # StopIteration
           ('"\'\'.encode(\'nocodec\')"', "''.encode('nocodec')"),  # LookupError
           ('"\'\\ud800\'.encode()"', "'\\ud800'.encode()"),  # UnicodeEncodeError
           ('"b\'\\xff\'.decode()"', "b'\\xff'.decode()"),  # UnicodeDecodeError
           ('"int(\'9\' * 5000)"', "int('9' * 5000)"),  # ValueError: int <- str digit limit
           ('"f\'{10**4300}\'"', "f'{10**4300}'"),  # ValueError: str <- int digit limit
           ('exit(3)', 'exit(3)'), ('quit()', 'quit()'), ('"exit()"', 'exit()'),  # SystemExit (no Exception)
           ('[].pop()', '[].pop()'), ('{}.popitem()', '{}.popitem()'), ('divmod(1,0)', 'divmod(1,0)'),
           ('int()()', 'int()()'), ('"1 if [][0] else 2"', '1 if [][0] else 2'), ('"(yield)"', '(yield)'),
           ('1j', '1j'), ("b'1'", "b'1'"), ('...', '...'), ('int', 'int'), ('NotImplemented', 'NotImplemented'),
           ('"1;2"', '1;2'), ('"x = 1"', 'x = 1'), ('"import os"', 'import os'), ('"\\n1"', '\\n1'),
           ('"1\\"', '1\\'), ('١٢', '١٢'), ("'\"1'", '"1'), ('١', '١'), ('²', '²'), ('1__0', '1__0'),
           ('0_', '0_'), ('09', '09'), ('1L', '1L'), ('0x_', '0x_'), ('1e', '1e'), ('.', '.'), ('-', '-'),
           ('"not"', 'not'), ('"1 is"', '1 is'), ('"*1"', '*1'), ('"**{}"', '**{}'),
           ('(' * 300 + '1' + ')' * 300, '(' * 300 + '1' + ')' * 300),  # too many nested parentheses
           ('-' * 3000 + '1', '-' * 3000 + '1'),
           # values that depend on a directory of the sandbox / of the home directory structure (validated late)
           ('@[EXACTLY_ACT]@', '@[EXACTLY_ACT]@'), ('"1 + @[EXACTLY_TMP]@"', '1 + @[EXACTLY_TMP]@'),
           ('"len(@[EXACTLY_ACT]@)"', 'len(@[EXACTLY_ACT]@)'), ('"\'@[EXACTLY_RESULT]@\'"', "'@[EXACTLY_RESULT]@'"),
           ('@[EXACTLY_HOME]@', '@[EXACTLY_HOME]@'), ('"1/len(\'@[EXACTLY_ACT]@\'[:0])"', "1/len('@[EXACTLY_ACT]@'[:0])")]
INT_EXTREME = [('10**100', '10**100'), ('-10**100', '-10**100'), ('2**64', '2**64'), ('-2**63', '-2**63'),
               ('1_000', '1_000'), ('True', 'True'), ('0b11', '0b11'), ('0o17', '0o17'), ('"  3"', '  3'),
               ('-0', '-0'), ('+1', '+1'), ('~0', '~0'), ('"3 "', '3 '), ('(((1)))', '(((1)))'),
               ('99999999999999999999', '99999999999999999999'), ('"1 if 1 else 2"', '1 if 1 else 2'),
               ('1<<70', '1<<70'), ('"len(\'abc\')"', "len('abc')"), ('-1', '-1'), ('256', '256'), ('1e0', '1e0'),
               # just below / beyond the limit of Python's int -> str conversion (4300 digits)
               ('10**4299', '10**4299'), ('10**4300', '10**4300'), ('-10**4300', '-10**4300'),
               ('10**5000', '10**5000'), ('10**400', '10**400'), ('-10**400', '-10**400'),
               ('"0 if 1 else 1/0"', '0 if 1 else 1/0'), ('"not 1"', 'not 1'), ('"1 and 2"', '1 and 2'),
               ('0_0', '0_0'), ('"\t1"', '\t1'), ('"1\n"', '1\n'), ('"(1)"', '(1)'), ('"-(-1)"', '-(-1)'),
               ('0x7fffffffffffffff', '0x7fffffffffffffff'), ('2147483648', '2147483648'),
               ('-' * 100 + '1', '-' * 100 + '1'), ('(' * 50 + '1' + ')' * 50, '(' * 50 + '1' + ')' * 50),
               ('"len(\'@[EXACTLY_ACT]@\')"', "len('@[EXACTLY_ACT]@')"), ('"len(\'@[EXACTLY_HOME]@\')"', "len('@[EXACTLY_HOME]@')"),
               ('" 1"', ' 1'), ('"1 # c"', '1 # c'), ('"[1][0]"', '[1][0]'), ('"{1: 2}[1]"', '{1: 2}[1]')]
REGEX_BAD = [("'('", '('), ("'['", '['), ("'*a'", '*a'), ("'(?P<'", '(?P<'), ("'a{2,1}'", 'a{2,1}'), ("')'", ')'),
             ("'a**'", 'a**'), ("'(?P<n>a)(?P<n>b)'", '(?P<n>a)(?P<n>b)'), ("'\\'", '\\'), ("'(?<=a+)b'", '(?<=a+)b'),
             ("'[b-a]'", '[b-a]'), ("'(?z)'", '(?z)'), ("'\\g'", '\\g'), ('"("', '('), ('*a', '*a'), ("'(a'", '(a'),
             ("'a)'", 'a)'), ("'+'", '+'), ("'?'", '?'), ("'(?P=x)'", '(?P=x)'), ("'\\1'", '\\1'),
             ("'(?'", '(?'), ("'[[:alpha:]'", '[[:alpha:]'), ("'a{1,2}{3}'", 'a{1,2}{3}'), ("'(?i'", '(?i'),
             ("'\\N{x}'", '\\N{x}'), ("'\\x1'", '\\x1'), ("'(?P<1a>x)'", '(?P<1a>x)'),
             ("'a{4294967296}'", 'a{4294967296}'), ("'a{99999999999999999999}'", 'a{99999999999999999999}'),
             ("'(?<!a*)b'", '(?<!a*)b'), ("'[a-\\d]'", '[a-\\d]'), ("'\\8'", '\\8'), ("'(?(1)a|b)'", '(?(1)a|b)'),
             ("'(a)(?(1)b|c|d)'", '(a)(?(1)b|c|d)'), ("'a{2}{3}'", 'a{2}{3}'), ("'(?Lu)a'", '(?Lu)a'),
             ("'(?P<n>'", '(?P<n>'), ("'(?P<n>a'", '(?P<n>a'), ("'(?P<é-1>a)'", '(?P<é-1>a)'), ("'\\p{L}'", '\\p{L}'),
             ("'(?-i)a'", '(?-i)a'), ("'a(?i)b'", 'a(?i)b'), ("'[\\'", '[\\'), ("'(?#'", '(?#'), ("'\\u12'", '\\u12'),
             ("'\\U00110000'", '\\U00110000'), ("'(?P=1)'", '(?P=1)'), ("'(?<a>b)'", '(?<a>b)'), ("'a++b{'", 'a++b{'),
             ("'" + '(' * 1200 + 'a' + ')' * 1200 + "'", '(' * 1200 + 'a' + ')' * 1200),
             # ill-formed, and the value depends on a directory (validated when the sandbox exists)
             ('"(@[EXACTLY_ACT]@"', '(@[EXACTLY_ACT]@'), ('"@[EXACTLY_TMP]@["', '@[EXACTLY_TMP]@['),
             ('"*@[EXACTLY_RESULT]@"', '*@[EXACTLY_RESULT]@'), ('"(@[EXACTLY_HOME]@"', '(@[EXACTLY_HOME]@'),
             ('"@[EXACTLY_ACT_HOME]@(?P<"', '@[EXACTLY_ACT_HOME]@(?P<'), ('"@[EXACTLY_ACT]@{2,1}"', '@[EXACTLY_ACT]@{2,1}')]
REGEX_EXTREME = [("''", ''), ("'(?i)a'", '(?i)a'), ("'a{0,65535}'", 'a{0,65535}'), ("'\\Z'", '\\Z'), ("'(?s).'", '(?s).'),
                 ("'[]]'", '[]]'), ("'{'", '{'), ("'a{,}'", 'a{,}'), ("'(?#c)'", '(?#c)'), ("'\\x00'", '\\x00'),
                 ("'é+'", 'é+'), ("'(?a)\\w'", '(?a)\\w'), ("'()'", '()'), ("'(?:)'", '(?:)'), ("'$^'", '$^'),
                 ("'\\\\'", '\\\\'), ("' '", ' '), ("'a|'", 'a|'), ("'(?P<n>a)(?P=n)'", '(?P<n>a)(?P=n)'),
                 ("'" + '(' * 90 + 'a' + ')' * 90 + "'", '(' * 90 + 'a' + ')' * 90), ("'a{65535}'", 'a{65535}'),
                 ("'(?x) a b # c'", '(?x) a b # c'), ("'\\N{DIGIT ONE}'", '\\N{DIGIT ONE}'), ("'[\\s\\S]'", '[\\s\\S]'),
                 ("'(?s:.)'", '(?s:.)'), ("'\\A\\Z'", '\\A\\Z'), ("'(a)|b'", '(a)|b'), ("'(?=a)'", '(?=a)'),
                 ("'(?<=a)b'", '(?<=a)b'), ("'" + 'a?' * 20 + 'a' * 20 + "'", 'a?' * 20 + 'a' * 20),
                 ("'\\000'", '\\000'), ("'[^\\n]'", '[^\\n]'), ("'\\.'", '\\.'), ("'" + 'é' * 300 + "'", 'é' * 300)]
REPL_BAD = [("'\\1'", '\\1'), ("'\\g<'", '\\g<'), ("'\\g<9>'", '\\g<9>'), ("'\\g<n>'", '\\g<n>'), ("'\\'", '\\'),
            ("'\\q'", '\\q'), ("'\\400'", '\\400'), ("'\\g<1'", '\\g<1'), ("'\\g<-1>'", '\\g<-1>'), ("'\\6'", '\\6'),
            ("'x\\2y'", 'x\\2y'), ("'\\g<1a>'", '\\g<1a>'), ("'\\c'", '\\c'), ('"\\1"', '\\1'), ("'\\g<>'", '\\g<>'),
            ("'\\99'", '\\99'), ("'a\\'", 'a\\'), ("'\\g'", '\\g'), ("'\\Z'", '\\Z'),
            ("'\\g<99999999999999999999>'", '\\g<99999999999999999999>'), ("'\\g<0'", '\\g<0'),
            ("'\\g< 1>'", '\\g< 1>'), ("'\\g<+1>'", '\\g<+1>'), ("'\\8'", '\\8'), ("'\\x'", '\\x'), ("'\\U'", '\\U'),
            ("'\\N{DASH}'", '\\N{DASH}'), ("'\\g<1>\\g<2>'", '\\g<1>\\g<2>'), ("'\\g<é>'", '\\g<é>'),
            ("'\\g<a b>'", '\\g<a b>'), ("'\\1\\'", '\\1\\'), ("'\\d'", '\\d'), ("'\\A'", '\\A'), ("'\\w+'", '\\w+'),
            ("'\\x41'", '\\x41'), ("'\\u00e9'", '\\u00e9'), ("'\\g<_>'", '\\g<_>'), ("'\\g<1>0\\2'", '\\g<1>0\\2'), ('"x\\"', 'x\\'),
            ('"@[EXACTLY_ACT]@\\1"', '@[EXACTLY_ACT]@\\1'), ('"\\g<@[EXACTLY_TMP]@>"', '\\g<@[EXACTLY_TMP]@>'),
            ('"\\9@[EXACTLY_HOME]@"', '\\9@[EXACTLY_HOME]@'), ('"@[EXACTLY_RESULT]@\\"', '@[EXACTLY_RESULT]@\\')]
REPL_EXTREME = [("'\\g<0>'", '\\g<0>'), ("'\\0'", '\\0'), ("'\\n'", '\\n'), ("'\\\\'", '\\\\'), ("'\\&'", '\\&'),
                ("'\\t\\r'", '\\t\\r'), ("'\\100'", '\\100'), ("''", ''), ("'\\g<0>\\g<0>'", '\\g<0>\\g<0>'),
                ("'\\\\1'", '\\\\1'), ("'\\.'", '\\.'), ('\\1', '1'), ("'\\g<00>'", '\\g<00>'), ("'\\a\\b\\f\\v'", '\\a\\b\\f\\v'),
                ("'\\377'", '\\377'), ("'\\00'", '\\00'),
                ("'" + '\\g<0>' * 200 + "'", '\\g<0>' * 200), ("'é✓'", 'é✓'), ("' '", ' '), ("'\\ '", '\\ '),
                ("'\\\\g<1>'", '\\\\g<1>'), ("'\\\\\\n'", '\\\\\\n')]
GLOB_EXTREME = [("'['", '['), ("'[!'", '[!'), ("'[]'", '[]'), ("'[a'", '[a'), ("'[!]'", '[!]'), ("'***'", '***'),
                ("'?'", '?'), ("''", ''), ("'a/'", 'a/'), ("'\\'", '\\'),
                ("'[z-a]'", '[z-a]'), ("'[[]'", '[[]'), ("'**'", '**'), ("'**/*'", '**/*'), ("'a//b'", 'a//b'),
                ("'{a,b}'", '{a,b}'), ("'é*'", 'é*'), ("'[^a]'", '[^a]'), ("'*/'", '*/'), ("'./x'", './x'),
                ("'[\\]'", '[\\]'), ("'[!-]'", '[!-]'), ("'.'", '.'), ("'./'", './'), ('""', ''), ("'a/./b'", 'a/./b'),
                ("' '", ' '), ("'" + '[' * 300 + "'", '[' * 300), ("'" + '*a' * 40 + "'", '*a' * 40), ("'[a-]'", '[a-]'),
                ("'[--0]'", '[--0]'), ("'[]-]'", '[]-]'), ("'[!]a]'", '[!]a]'), ("'\\*'", '\\*'), ("'a\nb'", 'a\nb'),
                ("'" + 'a' * 300 + "*'", 'a' * 300 + '*'), ("'(a|b)'", '(a|b)'), ("'a$'", 'a$'), ("'^a'", '^a'),
                ("'[[:alpha:]]'", '[[:alpha:]]'), ("'.*'", '.*'), ("'*.*.*'", '*.*.*'), ("'@[UNDEFINED]@'", '@[UNDEFINED]@')]
RANGE_BAD = [('1:2:3', '1:2:3'), ('a', 'a'), ('1:b', '1:b'), ('2.5', '2.5'), ('1/0', '1/0'), ('"1 2"', '1 2'),
             ('1:2.5', '1:2.5'), ('a:', 'a:'), (':b', ':b'), ('1:1/0', '1:1/0'), ('::', '::'), ('1::2', '1::2'),
             ("''", ''), ('1:()', '1:()'), ('0x:', '0x:'), ('1//0:', '1//0:'), ('1:2:', '1:2:'), (':', ':'),
             ('1-2:x', '1-2:x'), ('1..2', '1..2'), ('1,2', '1,2'), ('[][0]:', '[][0]:'), (':{}[1]', ':{}[1]'),
             ('2.0**10000:', '2.0**10000:'), ('"(1:2)"', '(1:2)'), ('1;2', '1;2'), ('é', 'é'),
             ('None:', 'None:'), (':1.0', ':1.0'), ('"-"', '-'), ('1:2:3:4', '1:2:3:4'), ('"lambda:1"', 'lambda:1')]
RANGE_EXTREME = [('0', '0'), ('0:0', '0:0'), ('3:1', '3:1'), ('-1:1', '-1:1'), ('10**100', '10**100'),
                 (':10**100', ':10**100'), ('-10**100:', '-10**100:'), ('1:-1', '1:-1'), ('"1:2"', '1:2'),
                 ('-0:', '-0:'), ('" 1 : 2 "', ' 1 : 2 '), ('True:', 'True:'), ('1_0:', '1_0:'), ("'2':'3'", '2:3'),
                 ('10**4300', '10**4300'), ('-10**4300:', '-10**4300:'), (':10**4300', ':10**4300'),
                 ('10**4300:10**4300', '10**4300:10**4300'), ('0:', '0:'), (':0', ':0'), ('-1:-1', '-1:-1'),
                 ('2:2', '2:2'), ('1-2', '1-2'), ('"1: "', '1: '), ('(1):(2)', '(1):(2)'), ('0x1:0x2', '0x1:0x2'), ('1+1:2*2', '1+1:2*2')]
# relative names only: an absolute name could make an instruction write outside the work directory (see gate())
PATH_EXTREME = [('""', ''), ("''", ''), ("'.'", '.'), ("'./'", './'), ("'a/'", 'a/'), ("'a//b'", 'a//b'),
                ("'a/./b'", 'a/./b'), ("' '", ' '), ("'a b'", 'a b'), ('"*"', '*'), ("'-rel-act'", '-rel-act'),
                ('a' * 300, 'a' * 300), ("'f.txt/x'", 'f.txt/x'), ("'d/e/'", 'd/e/'), ("'é/ü'", 'é/ü'), ("'@'", '@'),
                ("'a\\b'", 'a\\b'), ("'~'", '~'), ("'$HOME'", '$HOME'), ("'%s'", '%s'), ("'{x}'", '{x}'),
                ('a/' * 2100 + 'b', 'a/' * 2100 + 'b'), ('a/' * 300 + 'b', 'a/' * 300 + 'b'), ('é' * 200, 'é' * 200),
                ('a' * 255, 'a' * 255), ('a' * 256, 'a' * 256), ("'a\nb'", 'a\nb'), ("'\t'", '\t'), ("'-'", '-'),
                ("'--'", '--'), ("'f.txt/'", 'f.txt/'), ("'f.txt/.'", 'f.txt/.'), ("'d/e/f/g/h'", 'd/e/f/g/h'),
                ("'?'", '?'), ("'con'", 'con'), ("'a:b'", 'a:b'), ('"\\"', '\\'), ("'@[UNDEFINED]@'", '@[UNDEFINED]@'),
                ("'@[EXACTLY_ACT'", '@[EXACTLY_ACT'), ('@[S]@@[S]@', '@[S]@@[S]@'), ('@[PGM]@', '@[PGM]@'),
                ('@[EXACTLY_HOME]@', '@[EXACTLY_HOME]@'), ("'a\x00b'", 'a\x00b'), ("'\x00'", '\x00')]
# `timeout = INTEGER`: what is not a Python int / what is an int the manual says nothing about
TMO_BAD = [('1.5', '1.5'), ('1/0', '1/0'), ('a', 'a'), ("''", ''), ('"1 2"', '1 2'), ('None', 'None'), ('1e3', '1e3'),
           ('nones', 'nones'), ('"none "', 'none '), ('[][0]', '[][0]'), ('2.0**10000', '2.0**10000'), ('1s', '1s'),
           ('0x', '0x'), ('{}[1]', '{}[1]'), ('"(1).x"', '(1).x'), ('[0]*10**15', '[0]*10**15'), ('1:2', '1:2')]
TMO_EXTREME = [('0', '0'), ('-1', '-1'), ('-0', '-0'), ('-10**100', '-10**100'), ('10**100', '10**100'),
               ('10**400', '10**400'), ('10**4300', '10**4300'), ('2**31', '2**31'), ('2**63', '2**63'), ('True', 'True'),
               ('NONE', 'NONE'), ('"none"', 'none'), ('99999999999999999999', '99999999999999999999'), ('1_0', '1_0'),
               ('10**19', '10**19'), ('-10**400', '-10**400'), ('4294967296', '4294967296')]
# NAME of `env`: a STRING (no further condition in the manual)
ENVNAME_EXTREME = [("''", ''), ('""', ''), ("'A=B'", 'A=B'), ("'='", '='), ("'a b'", 'a b'), ('é', 'é'), ("'A\nB'", 'A\nB'),
                   ('1', '1'), ("'${VAR1}'", '${VAR1}'), ('A' * 300, 'A' * 300), ('A' * 5000, 'A' * 5000), ('@[S]@', '@[S]@'),
                   ('@[UNDEFINED]@', '@[UNDEFINED]@'), ('@[L]@', '@[L]@'), ('@[TM]@', '@[TM]@'), ("'-of'", '-of'),
                   ('unset', 'unset'), ('PATH', 'PATH'), ('HOME', 'HOME'), ("' '", ' '), ("'\t'", '\t'), ('-', '-'),
                   ("'a\x00b'", 'a\x00b')]
# SYMBOL-NAME: "A combination of alphanumeric characters and underscores."
NAME_BAD = [('a-b', 'a-b'), ('a.b', 'a.b'), ('"a b"', 'a b'), ('@[S]@', '@[S]@'), ('a=', 'a='), ('-x', '-x'), ('S!', 'S!'),
            ('(', '('), ('{', '{'), ('a/b', 'a/b'), ('a:b', 'a:b'), ('a+b', 'a+b'), ('$a', '$a'), ('a,b', 'a,b'), ('[a]', '[a]'),
            ('a*', 'a*'), ('@', '@'), ('#a', '#a'), ('a#', 'a#'), ('~', '~'), ('a|b', 'a|b'), ('"a\tb"', 'a\tb')]
NAME_EXTREME = [('_', '_'), ('1', '1'), ('é', 'é'), ('A' * 300, 'A' * 300), ('A' * 5000, 'A' * 5000), ('EXACTLY_HOME', 'EXACTLY_HOME'),
                ('EXACTLY_ACT', 'EXACTLY_ACT'), ('__', '__'), ('S', 'S'), ('def', 'def'), ('string', 'string'),
                ('true', 'true'), ("'S'", 'S'), ('"S2"', 'S2'), ('١', '١'), ('²', '²'), ('a\u0301', 'a\u0301'), ('ß', 'ß'),
                ('x' + chr(0x200d) + 'y', 'x' + chr(0x200d) + 'y'), ('ａ', 'ａ'), ("''", ''), ('=', '='), ('L', 'L'), ('PGM', 'PGM')]
# relativity options
REL_EXTREME = [('-rel-nope', '-rel-nope'), ('-rel-', '-rel-'), ('-REL-ACT', '-REL-ACT'), ('-rel-home-x', '-rel-home-x'),
               ('--rel-act', '--rel-act'), ('-rel_act', '-rel_act'), ('-rel', '-rel'), ("'-rel-act'", '-rel-act'),
               ('-rel-result', '-rel-result'), ('-rel-here', '-rel-here'), ('-rel-tmp', '-rel-tmp'), ('-rel-cd', '-rel-cd'),
               ('-rel-home', '-rel-home'), ('-rel-act-home', '-rel-act-home'), ('-rel-act', '-rel-act'),
               ('-rel-act -rel-tmp', '-rel-act -rel-tmp'), ('-rel UNDEFINED', '-rel UNDEFINED'), ('-rel S', '-rel S'),
               ('-rel P', '-rel P'), ('-rel PD', '-rel PD'), ('-rel PGM', '-rel PGM'), ('-rel EXACTLY_HOME', '-rel EXACTLY_HOME'),
               ('-rel EXACTLY_RESULT', '-rel EXACTLY_RESULT'), ('-rel @[PD]@', '-rel @[PD]@'), ("-rel ''", "-rel ''"),
               ('-rel -rel-act', '-rel -rel-act'), ('-rel =', '-rel ='), ('-relact', '-relact'), ('-r', '-r'),
               ('-rel-ACT', '-rel-ACT'), ('–rel-act', '–rel-act')]
# the start of a here-document (<<MARKER, the last token of its line) and the line that ends it
HEREDOC_EXTREME = [('<<', '<<'), ('<<-EOF', '<<-EOF'), ('<<EOF x', '<<EOF x'), ('<< EOF', '<< EOF'), ("<<'EOF'", "<<'EOF'"),
                   ('<<"EOF"', '<<"EOF"'), ('<<é', '<<é'), ('<<EOF<<EOF', '<<EOF<<EOF'), ('<<<EOF', '<<<EOF'), ('<EOF', '<EOF'),
                   ('<<E O F', '<<E O F'), ('<<@[S]@', '<<@[S]@'), ('<<' + 'M' * 300, '<<' + 'M' * 300), ('<<1', '<<1'),
                   ('<<-', '<<-'), ('<<_', '<<_'), ('<<EOF ', '<<EOF '), ('<<eof', '<<eof'), ('<<END', '<<END'),
                   ('<<[setup]', '<<[setup]'), ('<<#', '<<#'), ('<<:>', '<<:>'), ('<<EOF\\', '<<EOF\\')]
MARKER_BAD = [('EOFX', 'EOFX'), ('XEOF', 'XEOF'), ('E0F', 'E0F'), ('EO', 'EO'), ('EOF EOF', 'EOF EOF'), ('EOF x', 'EOF x'),
              ('"EOF"', '"EOF"'), ("'EOF'", "'EOF'"), ('<<EOF', '<<EOF'), ('EOF;', 'EOF;'), ('E OF', 'E OF'),
              ('# EOF', '# EOF'), ('[EOF]', '[EOF]'), ('EOF\\', 'EOF\\')]
MARKER_EXTREME = [(' EOF', ' EOF'), ('EOF ', 'EOF '), ('\tEOF', '\tEOF'), ('eof', 'eof'), ('EOF\r', 'EOF\r'), ('END', 'END'),
                  ('MARKER_1', 'MARKER_1'), ('eof-2', 'eof-2'), ('[setup]', '[setup]'), ('[assert]', '[assert]'), ('', ''),
                  ('EOF\x0c', 'EOF\x0c'), ('EOF' + chr(0xa0), 'EOF' + chr(0xa0)), ('EOF' + chr(0x2028), 'EOF' + chr(0x2028))]
# a word of a closed set (status value, file type, true/false, act/!act, char-case option) replaced by a word
# that is in none of those sets / by a word the manual does not name but that is close to one it names
ENUM_BAD = [('maybe', 'maybe'), ('NOPE', 'NOPE'), ('-', '-'), ('1', '1'), ('é', 'é'), ('-to-title', '-to-title'),
            ('socket', 'socket'), ('xfail', 'xfail'), ('!', '!'), ('=', '='), ('(', '('), ('@[UNDEFINED]@', '@[UNDEFINED]@'),
            ('no', 'no'), ('0', '0'), ('-of', '-of'), ('all', 'all'), ('!!act', '!!act'), ('regular', 'regular')]
ENUM_EXTREME = [('TRUE', 'TRUE'), ('True', 'True'), ('False', 'False'), ('pass', 'pass'), ('Fail', 'Fail'), ('skip', 'skip'),
                ('File', 'File'), ('DIR', 'DIR'), ('ACT', 'ACT'), ('!ACT', '!ACT'), ('! act', '! act'), ("'true'", 'true'),
                ('"PASS"', 'PASS'), ("'file'", 'file'), ('"act"', 'act'), ('-TO-UPPER', '-TO-UPPER'), ("''", ''),
                ('@[S]@', '@[S]@'), ('true', 'true'), ('file', 'file'), ('PASS', 'PASS'), ('act', 'act'),
                ('-to-upper', '-to-upper'), ('XFAIL', 'XFAIL'), ('XPASS', 'XPASS'), ('HARD_ERROR', 'HARD_ERROR')]
# values that are of a kind of their own are tried more often than one in len(vocabulary)
INT_BAD = INT_BAD + [e for e in INT_BAD if e[1].startswith(('exit(', 'quit('))] * 2
TMO_BAD = TMO_BAD + [('exit(3)', 'exit(3)'), ('"quit()"', 'quit()')]
TMO_EXTREME = TMO_EXTREME + [e for e in TMO_EXTREME if e[1].lstrip('-') in ('10**400', '10**4300')]
# the patterns / names without any component are tried more often
GLOB_EXTREME = GLOB_EXTREME + [e for e in GLOB_EXTREME if e[1] in ('', '.', './')] * 3
PATH_EXTREME = PATH_EXTREME + [e for e in PATH_EXTREME if e[1] in ('', '.', 'a' * 300)] * 2
BAD = {'int': INT_BAD, 'regex': REGEX_BAD, 'repl': REPL_BAD, 'glob': [], 'range': RANGE_BAD, 'path': [],
       'tmo': TMO_BAD, 'envname': [], 'name': NAME_BAD, 'rel': [], 'heredoc': [], 'marker': MARKER_BAD, 'enum': ENUM_BAD}
EXTREME = {'int': INT_EXTREME, 'regex': REGEX_EXTREME, 'repl': REPL_EXTREME, 'glob': GLOB_EXTREME,
           'range': RANGE_EXTREME, 'path': PATH_EXTREME, 'tmo': TMO_EXTREME, 'envname': ENVNAME_EXTREME,
           'name': NAME_EXTREME, 'rel': REL_EXTREME, 'heredoc': HEREDOC_EXTREME, 'marker': MARKER_EXTREME,
           'enum': ENUM_EXTREME}
VALUE_KINDS = ['int', 'regex', 'repl', 'glob', 'range', 'path', 'tmo', 'envname', 'name', 'rel', 'heredoc', 'marker',
               'enum']
ENUM_SETS = {'status': ['PASS', 'FAIL', 'SKIP'], 'ftype': ['file', 'dir', 'symlink'], 'bool': ['true', 'false'],
             'of': ['act', '!act'], 'case': ['-to-upper', '-to-lower']}

def vkind(kind):
    """the vocabulary a token kind belongs to (None: the token is no value of a vocabulary)"""
    k = kind.split(':')[0] if kind.startswith('enum:') else kind
    return k if k in EXTREME else None

GOOD = {'int': G.INTS_GOOD, 'regex': G.REGEX_GOOD, 'repl': G.REPL_GOOD, 'glob': G.GLOB_GOOD, 'range': G.RANGE_GOOD,
        'str': ['a', '"a b"', "'x'"], 'path': ['f.txt', 'd', 'data.txt', 'nofile'], 'tmo': ['5', 'none'],
        'envname': ['VAR1'], 'name': ['Y1'], 'rel': ['-rel-act', '-rel-home'], 'heredoc': ['<<EOF'], 'marker': ['EOF'],
        'enum:status': ['PASS'], 'enum:ftype': ['file'], 'enum:bool': ['true'], 'enum:of': ['act'],
        'enum:case': ['-to-upper']}

ALL_SYMBOL_NAMES = sorted(set(G.SYM.values())) + ['UNDEFINED', 'INC']

# ---- ops --------------------------------------------------------------------------------------------------------------
GENERIC_OPS = ['del', 'dup', 'swap', 'rep', 'ins', 'join', 'split', 'delline', 'dupline', 'swapline', 'hdr', 'hdrins',
               'quote', 'charins', 'chardel', 'wrongkind', 'badany', 'trunc', 'layout', 'moveline']
TARGETED_OPS = ['badval', 'extreme', 'wrongref', 'badhdr', 'badinstr', 'actbad']
# lines for the act phase (it is read by the parser of the actor, not by the parser of instructions); the only
# programs are echo / true / the files of the case
ACT_BAD = ['""', "''", '%', '$', '@', '@ UNDEFINED', '@ S', '@ TM', '@ PGM x', '-python', '-python -c', '-python -c pass x',
           '-rel', '-rel-home', '-rel UNDEFINED x', '-rel S prog.sh', '-rel-act prog.sh', '-rel-result x', '-rel-here prog.sh',
           "% echo 'a", '% echo "a', '% true\n-stdin', '% true\n-transformed-by', '% true\n-stdin x\n-stdin y',
           '% true\n-transformed-by identity\n-transformed-by', '( % true', '% true\n)', '( % true\n) x', '(', ')',
           '% echo <<EOF\nx', '% echo <<EOF', '% echo <<', '% echo :>', '-existing-file nofile', '% echo -existing-file nofile',
           '% echo -existing-file', '% echo -existing-dir data.txt', '% echo -existing-path', '% echo @[UNDEFINED]@',
           '% echo @[TM]@', '% echo "@[L]@"', '% echo @[', '% echo ]@', '[', ']', '=', '!', '-', '--', '% echo \\', 'prog.sh \\',
           'a' * 300, 'a/' * 2100 + 'b', '-python -existing-file nofile', '% true -stdin x', 'nofile', 'data.txt', 'hd', '.',
           'prog.sh\nprog.sh', '% true\n% true', 'prog.sh -existing-file nofile', "prog.sh 'a", '#', '# c\n# d', ' ', '\t',
           '% echo é\x00', "'a\x00'", '% ', '%echo', '$echo hi', '@S', '`x`', '`x', ':> x', '<<EOF\nEOF', 'including x',
           '% echo -rel-home', '% echo -rel UNDEFINED a', '% echo -existing-file -rel UNDEFINED a', '% true\n-stdin -contents-of nofile',
           '% true\n-stdin -contents-of', "% true\n-transformed-by replace a '\\1'", "% true\n-transformed-by grep '('",
           '% true\n-transformed-by filter -line-nums 1/0', '% true\n-transformed-by filter line-num == [][0]',
           '% true\n-transformed-by UNDEFINED', '% true\n-transformed-by run % true\n-transformed-by', '-python -c "pass" -stdin',
           '% true\n-stdin -stdout-from %', '% true\n-stdin -stdout-from @ UNDEFINED']
# lines that begin with `[` but are no phase header (the manual: `[` NAME `]`, NAME one of the six phases)
BAD_HEADERS = ['[nophase]', '[]', '[setup', '[ setup ]', '[setup] x', '[SETUP]', '[setup][act]', '[[setup]]', '[assert]]',
               '[before_assert]', '[-]', '[é]', '[setup ]', '[ act]', '[before assert]', '[configuration]', '[a.b]']
UNKNOWN_INSTRUCTIONS = ['no-such-instruction', 'fil', 'File', 'exit-cod', 'é', 'def-x', 'stdout2', '=', '-rel-act', '!',
                        "'file'", 'file=', 'dir:', '@[S]@']
NOT_INSTRUCTION_ELEMENTS = ('(comment)', '(description)', '(header)', '(blank)')
N_LAYOUTS = 8


def _protected(toks):
    """indices of the tokens that token-level operators leave alone: `$`, `%` and the program after them; `sh`"""
    prot = set()
    for i, (text, kind) in enumerate(toks):
        if kind == 'kw' and text in ('$', '%', '@'):
            prot.add(i)
            if i + 1 < len(toks) and toks[i + 1][1] != 'nl':
                prot.add(i + 1)
        elif text == 'sh' and kind == 'str':
            prot.add(i)
    return prot


def _shell_text(toks):
    """indices of tokens on the rest of a `$` line (shell text) and of python source tokens"""
    out = set()
    in_shell = False
    for i, (text, kind) in enumerate(toks):
        if kind == 'nl':
            in_shell = False
        elif in_shell:
            out.add(i)
        elif kind == 'kw' and text == '$':
            in_shell = True
        if kind == 'text':
            out.add(i)
    return out


def _lines(toks):
    """-> list of lines (each a list of tokens, without the NL tokens)"""
    lines, cur = [], []
    for t in toks:
        if t[1] == 'nl':
            lines.append(cur)
            cur = []
        else:
            cur.append(t)
    if cur:
        lines.append(cur)
    return lines


def _unlines(lines):
    toks = []
    for l in lines:
        toks.extend(l)
        toks.append(list(NL))
    return toks


def line_of_token(toks, i):
    """1-based line number of token i in the rendered text"""
    return 1 + sum(1 for t in toks[:i] if t[1] == 'nl')


def apply_op(toks, owner, op, tier_chars=None, elems=None):
    """-> (new tokens, info) ; info describes a targeted replacement (for the strict oracle) or is None.
    `toks` is not modified.  An op that has no eligible position is the identity."""
    name, p, q, w = op['op'], op['p'], op['q'], op['w']
    toks = [list(t) for t in toks]
    prot = _protected(toks)
    movable = [i for i, t in enumerate(toks) if t[1] != 'nl' and i not in prot]
    info = None

    def pick(seq):
        return seq[p % len(seq)] if seq else None

    def prefer_instructions(cands):
        """targeted ops: 3 of 4 go to an instruction that is not a definition, if there is one"""
        if owner and elems and op.get('k') in ('path', 'rel') and q % 4 == 1:
            # the act phase is read by its own parser: a path there is a place of its own
            pref = [i for i in cands if elems[owner[i]]['ph'] in ('act', 'conf')]
            if pref:
                return pref
        if owner and elems and q % 4 != 0:
            pref = [i for i in cands if elems[owner[i]]['name'] != 'def']
            return pref or cands
        return cands

    if name == 'del':
        i = pick(movable)
        if i is not None:
            del toks[i]
    elif name == 'dup':
        i = pick(movable)
        if i is not None:
            toks.insert(i, list(toks[i]))
    elif name == 'swap':
        mset = set(movable)
        pairs = [i for i in movable if (i + 1) in mset]
        i = pick(pairs)
        if i is not None:
            toks[i], toks[i + 1] = toks[i + 1], toks[i]
    elif name == 'rep':
        i = pick(movable)
        if i is not None:
            toks[i] = [DICT[w % len(DICT)], 'mut']
    elif name == 'ins':
        # not directly after `$` / `%` (that would make the inserted word the program)
        cands = [i for i in range(len(toks) + 1)
                 if not (i > 0 and toks[i - 1][1] == 'kw' and toks[i - 1][0] in ('$', '%', '@'))]
        i = pick(cands)
        if i is not None:
            toks.insert(i, [DICT[w % len(DICT)], 'mut'])
    elif name == 'join':
        nls = [i for i, t in enumerate(toks) if t[1] == 'nl']
        i = pick(nls)
        if i is not None:
            del toks[i]
    elif name == 'split':
        i = pick(movable)
        if i is not None:
            toks.insert(i, list(NL))
    elif name in ('delline', 'dupline', 'swapline', 'moveline'):
        lines = _lines(toks)
        if lines:
            i = p % len(lines)
            if name == 'delline':
                del lines[i]
            elif name == 'dupline':
                lines.insert(i, [list(t) for t in lines[i]])
            elif name == 'swapline':
                if i + 1 < len(lines):
                    lines[i], lines[i + 1] = lines[i + 1], lines[i]
            else:
                l = lines.pop(i)
                lines.insert(w % (len(lines) + 1), l)
            toks = _unlines(lines)
    elif name == 'hdr':
        hs = [i for i, t in enumerate(toks) if t[1] == 'hdr']
        i = pick(hs)
        if i is not None:
            toks[i] = [HEADERS[w % len(HEADERS)], 'mut']
    elif name == 'hdrins':
        lines = _lines(toks)
        lines.insert(p % (len(lines) + 1), [[HEADERS[w % len(HEADERS)], 'mut']])
        toks = _unlines(lines)
    elif name in ('quote', 'charins', 'chardel'):
        shell = _shell_text(toks)
        cands = [i for i in movable if i not in shell]
        i = pick(cands)
        if i is not None:
            text = toks[i][0]
            if name == 'quote':
                v = q % 8
                mid = (w % (len(text) + 1))
                if v == 0:
                    text = "'" + text
                elif v == 1:
                    text = text + "'"
                elif v == 2:
                    text = '"' + text
                elif v == 3:
                    text = text + '"'
                elif v == 4:
                    m = re.search('[\'"]', text)
                    text = text[:m.start()] + text[m.end():] if m else '"' + text
                elif v == 5:
                    text = text[:mid] + "'" + text[mid:]
                elif v == 6:
                    text = text[:mid] + '"' + text[mid:]
                else:
                    k = max(text.rfind("'"), text.rfind('"'))
                    text = text[:k] + text[k + 1:] if k >= 0 else text + "'"
            elif name == 'charins':
                chars = CHARS[:tier_chars] if tier_chars else CHARS
                off = q % (len(text) + 1)
                text = text[:off] + chars[w % len(chars)] + text[off:]
            else:
                if text:
                    off = q % len(text)
                    text = text[:off] + text[off + 1:]
            toks[i] = [text, 'mut']
    elif name == 'wrongkind':
        # an argument of the wrong type: a value token replaced by a good value of another kind
        cands = [i for i in movable if toks[i][1] in GOOD]
        i = pick(cands)
        if i is not None:
            kinds = [k for k in sorted(GOOD) if k != toks[i][1]]
            k = kinds[q % len(kinds)]
            toks[i] = [GOOD[k][w % len(GOOD[k])], 'mut']
    elif name == 'badany':
        # an ill-formed / extreme value of any kind in place of any token
        i = pick(movable)
        if i is not None:
            k = VALUE_KINDS[q % len(VALUE_KINDS)]
            voc = BAD[k] + EXTREME[k]
            toks[i] = [voc[w % len(voc)][0], 'mut']
    elif name in ('badval', 'extreme'):
        cands = [i for i in movable if vkind(toks[i][1]) and (name == 'extreme' or BAD[vkind(toks[i][1])])]
        if op.get('k'):
            # the op is directed at one vocabulary (bad_values with a focus)
            cands = [i for i in cands if vkind(toks[i][1]) == op['k']] or cands
        i = pick(prefer_instructions(cands))
        if i is not None:
            kind = toks[i][1]
            voc = BAD[vkind(kind)] if name == 'badval' else EXTREME[vkind(kind)]
            tok_text, eff = voc[w % len(voc)]
            prev = toks[i - 1] if i > 0 else ['', '']
            info = {'op': name, 'kind': kind, 'index': i, 'elem': owner[i] if owner else None,
                    'line': line_of_token(toks, i), 'token': tok_text, 'effective': eff, 'old': toks[i][0],
                    'prev': prev[0], 'prev_kind': prev[1],
                    'literal_ctx': prev[0] == ':>' or ':>' in [t[0] for t in _line_before(toks, i)]}
            toks[i] = [tok_text, 'mut']
    elif name == 'wrongref':
        cands = [i for i in movable if toks[i][1].startswith('ref:') or
                 (toks[i][1].startswith('sref:') and re.fullmatch(r'@\[[A-Za-z0-9_]+\]@', toks[i][0]))]
        i = pick(prefer_instructions(cands))
        if i is not None:
            old, kind = toks[i]
            old_name = old[2:-2] if old.startswith('@[') else old
            names = [n for n in ALL_SYMBOL_NAMES if n != old_name]
            new_name = names[w % len(names)]
            new = '@[%s]@' % new_name if old.startswith('@[') else new_name
            info = {'op': name, 'kind': kind, 'index': i, 'elem': owner[i] if owner else None,
                    'line': line_of_token(toks, i), 'token': new, 'old': old, 'old_name': old_name,
                    'new_name': new_name}
            toks[i] = [new, 'mut']
    elif name == 'badhdr':
        hs = [i for i, t in enumerate(toks) if t[1] == 'hdr']
        i = pick(hs)
        if i is not None:
            new = BAD_HEADERS[w % len(BAD_HEADERS)]
            info = {'op': name, 'kind': 'hdr', 'index': i, 'elem': owner[i] if owner else None,
                    'line': line_of_token(toks, i), 'token': new, 'old': toks[i][0]}
            toks[i] = [new, 'mut']
    elif name == 'badinstr':
        cands = []
        if owner and elems:
            for i in movable:
                e = elems[owner[i]]
                if (i == 0 or owner[i - 1] != owner[i]) and e['name'] not in NOT_INSTRUCTION_ELEMENTS \
                        and e['ph'] != 'act':
                    cands.append(i)
        i = pick(cands)
        if i is not None:
            new = UNKNOWN_INSTRUCTIONS[w % len(UNKNOWN_INSTRUCTIONS)]
            info = {'op': name, 'kind': 'instr', 'index': i, 'elem': owner[i], 'line': line_of_token(toks, i),
                    'token': new, 'old': toks[i][0]}
            toks[i] = [new, 'mut']
    elif name == 'actbad':
        if owner and elems:
            act_elems = sorted({owner[i] for i in range(len(toks)) if elems[owner[i]]['ph'] == 'act'
                                and elems[owner[i]]['name'] != '(header)'})
            e = pick(act_elems)
            if e is not None:
                idx = [i for i in range(len(toks)) if owner[i] == e and toks[i][1] != 'nl']
                new = ACT_BAD[w % len(ACT_BAD)]
                if idx:
                    info = {'op': name, 'kind': 'act', 'index': idx[0], 'elem': e, 'line': line_of_token(toks, idx[0]),
                            'token': new, 'effective': new, 'old': ' '.join(toks[i][0] for i in idx)}
                    # the inner line breaks of the element go too: the element becomes the one new line
                    last = max(i for i in range(len(toks)) if owner[i] == e)
                    toks[idx[0]:last] = [[new, 'mut']]
    elif name in ('trunc', 'layout'):
        pass  # text level, see apply_text_op
    else:
        raise ValueError('unknown op ' + name)
    return toks, info


def _line_before(toks, i):
    """tokens of the same line before token i"""
    j = i
    while j > 0 and toks[j - 1][1] != 'nl':
        j -= 1
    return toks[j:i]


def apply_text_op(text, op):
    name, p, q = op['op'], op['p'], op['q']
    if name == 'trunc':
        # p selects the cut: 0 .. len(text)-1 characters are kept
        if text:
            return text[:(p * 7919 + q) % len(text)]
        return text
    if name == 'layout':
        v = q % N_LAYOUTS
        if v == 0:
            return text.rstrip('\n')
        if v == 1:
            return text.replace('\n', '\r\n')
        if v == 2:
            return chr(0xfeff) + text
        if v == 3:
            return text.replace(' ', '  ')
        if v == 4:
            return text.replace(' ', '\t')
        if v == 5:
            return '\n\n' + text + '\n\n'
        if v == 6:
            return '\n'.join('  ' + l if l else l for l in text.split('\n'))
        return '\n'.join(l + '  ' if l else l for l in text.split('\n'))
    return text


def mutate(doc, mutant, tier_chars=None):
    """-> ({'t.case': text, 'inc.xly': text?}, infos: list of (file index, info) for targeted ops, ops applied)"""
    files = [G.flatten(doc['elems'])]
    if doc.get('inc') is not None:
        files.append(G.flatten(doc['inc']))
    toks = [f[0] for f in files]
    owners = [f[1] for f in files]
    names = [doc['elems']]
    if doc.get('inc') is not None:
        names.append(doc['inc'])
    infos = []
    text_ops = []
    structure_kept = True
    for op in mutant:
        f = op['f'] % len(files) if op['f'] else 0
        if op['op'] in ('trunc', 'layout'):
            text_ops.append((f, op))
            structure_kept = False
            continue
        new, info = apply_op(toks[f], owners[f] if structure_kept else None, op, tier_chars, names[f])
        if info is not None:
            infos.append((f, info))
        else:
            structure_kept = False
            owners[f] = None
        toks[f] = new
    texts = [G.render(t) for t in toks]
    for f, op in text_ops:
        texts[f] = apply_text_op(texts[f], op)
    out = {'t.case': texts[0]}
    if len(texts) > 1:
        out[G.INC_NAME] = texts[1]
    return out, infos


def parent_texts(doc):
    out = {'t.case': G.render(G.flatten(doc['elems'])[0])}
    if doc.get('inc') is not None:
        out[G.INC_NAME] = G.render(G.flatten(doc['inc'])[0])
    return out


# ---- the harmlessness gate ---------------------------------------------------------------------------------------------
_BIG = re.compile(r'10\*\*100|2\*\*6[34]|1<<70|9{20}')
_POW_OK = re.compile(r'-?10\*\*100|-?2\*\*6[34]|0\*\*-1|2\*\*-1')
# (exit() / quit() raise SystemExit, which the in-process driver catches like any other exception)
_CALL = re.compile(r'(?<![.\w])(print|input|open|exec|eval|compile|__import__|help|breakpoint)\s*\(')
_POW1 = re.compile('\x01[\'"\\s]*\\*[\'"\\s]*\\*')
_POW2 = re.compile('\\*[\'"\\s]*\\*[\'"\\s]*\x01')


def gate(text):
    """None if the text may be given to Exactly, else the reason it is refused (never expected for generated cases;
    counted by the check)"""
    if len(text) > 60000:
        return 'too-long'
    if _CALL.search(text):
        return 'call'
    # `**` built by a mutation next to a big number: eval() could run for ever
    rest = _BIG.sub('\x01', _POW_OK.sub('\x01', text))
    if _POW1.search(rest) or _POW2.search(rest):
        return 'pow'
    if re.search(r'(^|[\s\'"=>])\.\.(/|[\s\'"]|$)', text):
        return 'dotdot'
    # no absolute file name (an instruction could write outside the work directory); `1/ 0`, `1//0` are divisions
    if re.search(r'(^|[\s\'"=:(<>])/(?![0-9/])', text):
        return 'absolute'
    return None


# ---- strategies ---------------------------------------------------------------------------------------------------------
def _mix(x, k):
    """a fixed 32-bit mixing function (Hypothesis favours small integers and index 0; the fields of an op should not)"""
    x = (x + 0x9e3779b9 * (k + 1)) & 0xffffffff
    x = ((x ^ (x >> 16)) * 0x45d9f3b) & 0xffffffff
    x = ((x ^ (x >> 16)) * 0x45d9f3b) & 0xffffffff
    return x ^ (x >> 16)


def op_strategy(names, weights=None):
    if weights:
        pool = []
        for n in names:
            pool.extend([n] * weights.get(n, 1))
    else:
        pool = list(names)

    def decode(abc):
        x = _mix(abc[0], 11) ^ _mix(abc[1], 12) ^ _mix(abc[2], 13)
        return {'op': pool[_mix(x, 0) % len(pool)], 'f': 1 if _mix(x, 1) % 4 == 3 else 0, 'p': _mix(x, 2) % 4096,
                'q': _mix(x, 3) % 64, 'w': _mix(x, 4) % 4096}

    i32 = st.integers(0, 2 ** 32 - 1)
    return st.tuples(i32, i32, i32).map(decode)


def choice_op(nxt, names):
    """an op from an explicit choice function (fuzzer bytes)"""
    return {'op': names[nxt(len(names))], 'f': 1 if nxt(4) == 3 else 0, 'p': nxt(4096), 'q': nxt(64), 'w': nxt(4096)}
