"""C14 generators: texts (with the characters some line-splitting routines treat as line breaks, CR / CR LF,
multi-byte characters, lengths around the memory-buffer size), source trees (see vlib/ref/c14_model.py), access
sequences, and the renderer from a source tree / transformer to Exactly syntax.  Never imports exactly_lib.

Texts never contain ' " @ # { } \\ so that every text without \\r can be written as one hard-quoted STRING or as a
here-document (the marker line never occurs in a text: texts have no upper-case E-O-F line).
"""
from hypothesis import strategies as st

from vlib.ref import c14_model as model

BUFFS = [1, 2, 3, 5, 8, 16, 64, 8192]
# "every memory-buffer size from 1 upwards": mostly the small sizes that the generated texts are fitted to, sometimes
# any size up to 70, a size around a power of two, or the default; see also `buff_near_text`
_buff = st.one_of(st.sampled_from([1, 2, 2, 3, 3, 5, 5, 8, 8, 8, 16, 16, 64, 64, 8192]),
                  st.sampled_from([1, 2, 2, 3, 3, 5, 5, 8, 8, 8, 16, 16, 64, 64, 8192]),
                  st.sampled_from([1, 2, 2, 3, 3, 5, 5, 8, 8, 8, 16, 16, 64, 64, 8192]),
                  st.integers(1, 70),
                  st.sampled_from([4, 7, 9, 15, 17, 31, 32, 33, 63, 65, 127, 128, 129, 255, 256, 1000, 4096, 8191,
                                   8193]))


def buff_label(buff):
    for name, hi in (('1', 1), ('2', 2), ('3', 3), ('4-7', 7), ('8-15', 15), ('16-63', 63), ('64-255', 255),
                     ('256-8191', 8191), ('8192', 8192)):
        if buff <= hi:
            return 'B:' + name
    return 'B:>8192'


def buff_near_text(draw, buff, texts):
    """With some probability: a buffer size at the length (in characters or in bytes) of one of the texts, or one
    off - the sizes at which the representation of a cached text changes."""
    texts = [t for t in texts if t]
    if not texts or draw(_pct) >= 25:
        return buff
    t = draw(st.sampled_from(texts))
    n = len(t) if draw(_bool) else len(t.encode('utf-8'))
    return max(1, n + draw(st.sampled_from([-1, 0, 0, 1])))
_pct = st.integers(0, 99)
_bool = st.booleans()

PLAIN = list('abAB c')
BREAK_CHARS = list(model.BREAKS)
MULTIBYTE = ['é', '€', '\U0001F600', 'ß']

_plain_ch = st.sampled_from(PLAIN)
_break_ch = st.sampled_from(BREAK_CHARS)
_multi_ch = st.sampled_from(MULTIBYTE)
_line_len = st.sampled_from([0, 1, 1, 2, 2, 3, 3, 4, 5, 7])
_n_lines = st.sampled_from([0, 1, 1, 2, 2, 2, 3, 3, 4, 5, 6])
_flavour = st.sampled_from(['plain', 'plain', 'plain', 'breaks', 'breaks', 'breaks', 'cr', 'cr', 'multi', 'multi',
                            'multi', 'mixed', 'mixed'])


def _pick(draw, weighted):
    total = sum(w for _, w in weighted)
    k = draw(st.integers(0, total - 1))
    for name, w in weighted:
        if k < w:
            return name
        k -= w
    raise AssertionError


_ALPHABETS = {
    'plain': PLAIN,
    'breaks': PLAIN * 2 + BREAK_CHARS,
    'cr': PLAIN * 2 + ['\r'] * 5,
    'multi': PLAIN * 2 + MULTIBYTE * 2,
    'mixed': PLAIN + BREAK_CHARS + ['\r'] * 3 + MULTIBYTE,
}
_LINES = {}
for _f, _a in _ALPHABETS.items():
    for _cr in (True, False):
        _alph = [c for c in _a if _cr or c != '\r']
        _LINES[(_f, _cr)] = st.lists(st.text(alphabet=st.sampled_from(_alph), min_size=0, max_size=7), min_size=0,
                                     max_size=6)
_eol = st.sampled_from(['\n', '\n', '\r\n'])


def _fit(text, target, unit, filler):
    """Cut / extend ``text`` to exactly ``target`` characters (unit 'c') or UTF-8 bytes (unit 'b')."""
    if target <= 0:
        return ''
    src = text or filler
    if unit == 'c':
        while len(src) < target:
            src = src + (text or filler)
        return src[:target]
    while len(src.encode('utf-8')) < target:
        src = src + (text or filler)
    out = ''
    n = 0
    for ch in src:
        k = len(ch.encode('utf-8'))
        if n + k > target:
            break
        out += ch
        n += k
    return out + 'a' * (target - n)


def draw_text(draw, buff, allow_cr=True, max_lines=6):
    flavour = draw(_flavour)
    lines = draw(_LINES[(flavour, allow_cr)])[:max_lines]
    n = len(lines)
    eol = draw(_eol) if (allow_cr and flavour in ('cr', 'mixed')) else '\n'  # CR LF line ends
    text = eol.join(lines)
    if n and draw(_pct) < 70:
        text += eol
    r = draw(_pct)
    if r < 40 and (buff <= 64 or r < 3):
        # lengths around the buffer size, in characters and in bytes
        target = max(0, buff + draw(st.sampled_from([-1, 0, 0, 1, 1, 2, buff, buff + 1])))
        unit = draw(st.sampled_from(['c', 'c', 'b']))
        text = _fit(text, target, unit, 'ab\n')
    elif r >= 97:
        text = text * draw(st.integers(2, 12))
    return text


def flavour_labels(text, buff):
    out = []
    if model.has_break_chars(text):
        out.append('text:break-chars')
    if '\r\n' in text:
        out.append('text:crlf')
    if '\r' in text.replace('\r\n', ''):
        out.append('text:lone-cr')
    if not text.isascii():
        out.append('text:non-ascii')
    if text and not text.endswith('\n'):
        out.append('text:no-final-newline')
    if text == '':
        out.append('text:empty')
    n, b = len(text), len(text.encode('utf-8'))
    out.append('len-chars:' + ('<B' if n < buff else '=B' if n == buff else '=B+1' if n == buff + 1 else '>B'))
    out.append('len-bytes:' + ('<B' if b < buff else '=B' if b == buff else '=B+1' if b == buff + 1 else '>B'))
    if len(out) == 2:
        out.append('text:plain')
    return out


def is_special(text, buff):
    return model.has_break_chars(text) or '\r' in text or len(text) >= buff


# ---- transformers ----------------------------------------------------------------------------------------------
_op = st.sampled_from(['==', '!=', '<', '<=', '>', '>='])
_small = st.integers(0, 5)
_ch = st.sampled_from(['a', 'b', 'c', 'A'])


def _draw_range(draw, n_lines):
    b = st.integers(-(n_lines + 1), n_lines + 1).filter(lambda x: x != 0)
    form = draw(st.sampled_from(['single', 'upto', 'from', 'range']))
    if form == 'single':
        return [draw(b)]
    if form == 'upto':
        return [None, draw(b)]
    if form == 'from':
        return [draw(b), None]
    return [draw(b), draw(b)]


def draw_tr(draw, n_lines, allow_programs=True, depth=0):
    kind = _pick(draw, [('identity', 6), ('tcds', 2), ('upper', 5), ('lower', 2), ('strip', 7), ('filter', 22),
                        ('nums', 16), ('grep', 4), ('replace', 12), ('run', 14 if allow_programs else 0),
                        ('seq', 10 if depth == 0 else 0)])
    if kind in ('identity', 'tcds', 'upper', 'lower'):
        return [kind]
    if kind == 'strip':
        return ['strip', draw(st.sampled_from([None, 'space', 'nl']))]
    if kind == 'filter':
        lm = _pick(draw, [('true', 5), ('ln', 4), ('has', 2)])
        if lm == 'true':
            return ['filter', ['true']]
        if lm == 'ln':
            return ['filter', ['ln', draw(_op), draw(st.integers(0, n_lines + 1))]]
        return ['filter', ['has', draw(_ch)]]
    if kind == 'nums':
        return ['nums', [_draw_range(draw, n_lines) for _ in range(draw(st.sampled_from([1, 1, 2, 2, 3])))]]
    if kind == 'grep':
        return ['grep', draw(_ch)]
    if kind == 'replace':
        tr = ['replace', draw(st.sampled_from(sorted(model.REPLACEMENTS))), draw(_bool)]
        if draw(_pct) < 35:  # -at LINE-MATCHER
            if draw(_bool):
                tr.append(['ln', draw(_op), draw(st.integers(0, n_lines + 1))])
            else:
                tr.append(['has', draw(_ch)])
        return tr
    if kind == 'run':
        stdin = None
        if draw(_pct) < 35:
            stdin = draw(st.sampled_from(['P', 'pre\n', 'é\n', 'x\x0cy\n', 'é€é€\nq']))
        return ['run', draw(st.sampled_from(['cat', 'cat', 'tr'])), stdin]
    return ['seq'] + [draw_tr(draw, n_lines, allow_programs, depth + 1) for _ in range(draw(st.sampled_from([2, 2, 3])))]


# ---- source trees ------------------------------------------------------------------------------------------------
def _draw_leaf(draw, buff, allow_programs, text=None):
    kind = _pick(draw, [('str', 30), ('lit', 15), ('file', 25), ('prog', 30 if allow_programs else 0)])
    if text is None:
        text = draw_text(draw, buff, allow_cr=(kind != 'lit'))
    elif kind == 'lit' and '\r' in text:
        kind = 'str'
    if kind == 'str':
        return ['str', text]
    if kind == 'lit':
        form = 'here' if (text.endswith('\n') and draw(_bool)) else 'q'
        return ['lit', text, form]
    if kind == 'file':
        return ['file', text]
    chan = draw(st.sampled_from(['out', 'out', 'err']))
    return ['prog', text, chan, draw(_pct) < 30]


def draw_source(draw, buff, allow_programs=True, max_tr=3, allow_concat=True):
    def chain(src, n):
        for _ in range(n):
            n_lines = model.ref_text(src).count('\n') + 1
            src = ['tr', draw_tr(draw, n_lines, allow_programs), src]
        return src

    if allow_concat and draw(_pct) < 18:
        # parts stay well below the size of a file object's buffer (defect model D4 is exact only then)
        parts = [chain(_draw_leaf(draw, min(buff, 64), allow_programs), draw(st.sampled_from([0, 0, 1])))
                 for _ in range(draw(st.sampled_from([2, 2, 3])))]
        base = ['concat', parts]
    else:
        base = _draw_leaf(draw, buff, allow_programs)
    return chain(base, draw(st.sampled_from([k for k in [0, 1, 1, 1, 2, 2, 2, 3, 3, 4, 5] if k <= max_tr])))


# ---- access sequences (layer A) ------------------------------------------------------------------------------------
ACCESS_OPS = ['str', 'lines', 'lines_k', 'file', 'write', 'head']


def draw_ops(draw, n_nodes):
    n = draw(st.integers(2, 8))
    ops = []
    for _ in range(n):
        op = _pick(draw, [('str', 18), ('lines', 20), ('lines_k', 6), ('file', 14), ('write', 14),
                          ('head', 5), ('freeze', 17), ('ext', 5)])
        target = 0 if (n_nodes == 1 or draw(_pct) < 75) else draw(st.integers(1, n_nodes - 1))
        arg = draw(st.integers(0, 3)) if op == 'lines_k' else draw(st.integers(1, 6)) if op == 'head' else None
        ops.append([target, op, arg])
    return ops


def _enlarge(draw, node):
    """The same tree with its first leaf text repeated up to 20 000 - 140 000 characters (a concatenation stays as
    it is)."""
    if node[0] == 'tr':
        return ['tr', node[1], _enlarge(draw, node[2])]
    if node[0] in ('str', 'lit', 'file', 'prog') and node[1]:
        target = draw(st.sampled_from([20000, 65535, 65536, 65537, 70000, 131073]))
        node = list(node)
        node[1] = node[1] * (target // len(node[1]) + 1)
    return node


@st.composite
def api_cases(draw, allow_programs=True, big=False):
    buff = draw(_buff)
    src = draw_source(draw, buff, allow_programs, max_tr=5 if big else 3)
    if draw(st.integers(0, 999)) < (20 if big else 2):
        # a text larger than any internal read buffer (65536) and than the buffer of a file object
        src = _enlarge(draw, src)
    else:
        nodes = model.nodes_preorder(src)
        buff = buff_near_text(draw, buff, [model.ref_text(n) for n in nodes])
    ops = draw_ops(draw, len(model.nodes_preorder(src)))
    return {'buff': buff, 'src': src, 'ops': ops}


# ---- every order of the access methods and freeze (layer A, enumerated) ----------------------------------------------
_T1 = 'a\x0cb\n\u00e9\u00e9a\n\u2028b'  # form feed, line separator, 2-byte characters, no final new-line
_T2 = 'ab\n\x85a\n\u20ac\n'  # NEL, a 3-byte character
_T3 = 'x\x1cy\nab'
ORDER_SOURCES = [
    ['tr', ['filter', ['true']], ['file', _T1]],  # lines-filter over a file
    ['tr', ['run', 'cat', None], ['str', _T2]],  # transformer program
    ['prog', _T1, 'out', False],  # program output (written by the program)
    ['prog', _T3, 'err', False],  # stderr, exit code relevant (a file made by the program)
    ['prog', _T1, 'err', True],
    ['concat', [['str', 'a'], ['file', 'b\x0cc\nd'], ['prog', '\u00e9\n', 'out', False]]],
    ['tr', ['nums', [[-1], [1]]], ['prog', _T1, 'out', False]],  # ranges that need the number of lines
    ['tr', ['strip', None], ['tr', ['grep', 'a'], ['file', _T1]]],
    ['tr', ['run', 'tr', 'P\u20ac'], ['tr', ['upper'], ['lit', 'ab\nab\n', 'here']]],  # stdin + model
    ['tr', ['replace', 'bFF', False], ['tr', ['filter', ['ln', '>=', 2]], ['str', _T2]]],
    ['tr', ['nums', [[2, -1]]], ['tr', ['run', 'cat', None], ['file', _T1]]],
    ['tr', ['replace', 'NLdel', False, ['ln', '==', 1]], ['tr', ['filter', ['has', 'a']], ['prog', _T2, 'out', True]]],
]


def order_cases(tier):
    """Every order of as_str / as_lines / as_file / write_to / freeze (thorough: and a partial as_lines) on the
    root of each ORDER_SOURCES tree, with buffer sizes around the length of the text in characters and in bytes."""
    import itertools
    ops = ['str', 'lines', 'file', 'write', 'freeze'] + (['lines_k'] if tier == 'thorough' else [])
    for src in ORDER_SOURCES:
        t = model.ref_text(src)
        n, nb = len(t), len(t.encode('utf-8'))
        sizes = {n - 1, n, n + 1, nb}
        if tier == 'thorough':
            sizes |= {nb - 1, nb + 1, 1, 2, 8192}
        for buff in sorted(x for x in sizes if x >= 1):
            for perm in itertools.permutations(ops):
                yield {'buff': buff, 'src': src, 'ops': [[0, op, 1 if op == 'lines_k' else None] for op in perm]}


def small_text_cases(tier):
    """Every text of <= 3 (thorough: <= 4) characters over a small alphabet (letter, new-line, form feed, a 2-byte
    character; thorough: + line separator) x every buffer size 1..4 (1..6) x one source per caching kind, under one
    fixed access sequence that uses every access method before and after freeze."""
    import itertools
    alphabet = ['a', '\n', '\x0c', '\u00e9'] + (['\u2028'] if tier == 'thorough' else [])
    max_len = 4 if tier == 'thorough' else 3
    ops = [[0, 'str', None], [0, 'lines', None], [0, 'file', None], [0, 'write', None], [0, 'freeze', None],
           [0, 'lines', None], [0, 'str', None], [0, 'file', None], [0, 'write', None], [0, 'head', 2],
           [0, 'lines_k', 1]]
    for n in range(max_len + 1):
        for chars in itertools.product(alphabet, repeat=n):
            t = ''.join(chars)
            srcs = [['tr', ['filter', ['true']], ['file', t]], ['tr', ['run', 'cat', None], ['str', t]],
                    ['concat', [['str', 'a'], ['file', t]]], ['concat', [['file', t], ['str', 'a\n'], ['str', t]]],
                    ['tr', ['nums', [[-1], [None, -2]]], ['str', t]]]
            if tier == 'thorough':
                srcs += [['prog', t, 'out', False], ['prog', t, 'err', False]]
            for buff in range(1, 7 if tier == 'thorough' else 5):
                for src in srcs:
                    yield {'buff': buff, 'src': src, 'ops': ops}


# ---- bytes -> layer A case (for the coverage-guided campaign) -------------------------------------------------------
_F_BUFFS = [1, 2, 3, 4, 5, 7, 8, 9, 15, 16, 17, 32, 64, 8192]
_F_CHARS = ['a', 'b', 'A', ' ', 'c', 'a', 'b', '\x0c', '\x85', '\u2028', '\x1c', '\u00e9', '\u20ac', '\U0001F600', '\r', 'B']
_F_OPS = ['str', 'str', 'str', 'lines', 'lines', 'lines', 'file', 'file', 'write', 'write', 'freeze', 'freeze', 'freeze',
          'lines_k', 'head', 'ext']
_F_STDIN = [None, None, None, 'P', 'pre\n', '\u00e9\n']


def decode_api_case(data: bytes):
    """bytes -> {'buff', 'src', 'ops'}: a byte-driven recursive builder (every byte selects a production / token of
    the fixed vocabulary of this module; programs are `cat` / `tr a X` only)."""
    if len(data) < 6:
        return None
    it = iter(data)

    def nxt():
        return next(it, 0)

    buff = _F_BUFFS[nxt() % len(_F_BUFFS)]

    def text():
        n = nxt() % 5
        lines = [''.join(_F_CHARS[nxt() % len(_F_CHARS)] for _ in range(nxt() % 5)) for _ in range(n)]
        t = '\n'.join(lines)
        if n and nxt() % 4:
            t += '\n'
        return t

    def leaf():
        k = nxt() % 16
        t = text()
        if k < 6:
            return ['str', t]
        if k < 8 and '\r' not in t:
            return ['lit', t, 'here' if (k == 7 and t.endswith('\n')) else 'q']
        if k < 13:
            return ['file', t]
        return ['prog', t, 'out' if k < 15 else 'err', bool(nxt() & 1)]

    def bound(default):
        return ((nxt() % 9) - 4) or default

    def rng():
        f = nxt() % 4
        a, b = bound(1), bound(-1)
        return [[a], [None, a], [a, None], [a, b]][f]

    def lm():
        k = nxt() % 3
        if k == 0:
            return ['true']
        if k == 1:
            return ['ln', ['==', '!=', '<', '<=', '>', '>='][nxt() % 6], nxt() % 6]
        return ['has', 'abcA'[nxt() % 4]]

    def tr(depth):
        k = nxt() % 24
        if k < 2:
            return ['identity']
        if k < 3:
            return ['upper']
        if k < 4:
            return ['lower']
        if k < 6:
            return ['strip', [None, 'space', 'nl'][nxt() % 3]]
        if k < 10:
            return ['filter', lm()]
        if k < 15:
            return ['nums', [rng() for _ in range(1 + nxt() % 3)]]
        if k < 16:
            return ['grep', 'abcA'[nxt() % 4]]
        if k < 19:
            t = ['replace', sorted(model.REPLACEMENTS)[nxt() % len(model.REPLACEMENTS)], bool(nxt() & 1)]
            if nxt() % 3 == 0:
                t.append(lm() if nxt() & 1 else ['ln', '>=', 2])
                if t[3] == ['true']:
                    t.pop()
            return t
        if k < 21:
            return ['run', 'cat' if nxt() & 1 else 'tr', _F_STDIN[nxt() % len(_F_STDIN)]]
        if depth > 0:
            return ['seq'] + [tr(depth - 1) for _ in range(2 + nxt() % 2)]
        return ['filter', ['true']]

    def source(depth):
        k = nxt() % 12
        if depth > 0 and k == 0:
            base = ['concat', [source(0) for _ in range(2 + nxt() % 2)]]
        else:
            base = leaf()
        for _ in range([0, 1, 1, 1, 2, 2, 3, 0][nxt() % 8] if depth > 0 else nxt() % 2):
            base = ['tr', tr(1), base]
        return base

    src = source(1)
    n_nodes = len(model.nodes_preorder(src))
    ops = []
    for _ in range(2 + nxt() % 6):
        op = _F_OPS[nxt() % len(_F_OPS)]
        target = 0 if (n_nodes == 1 or nxt() % 4) else nxt() % n_nodes
        arg = nxt() % 4 if op == 'lines_k' else 1 + nxt() % 6 if op == 'head' else None
        ops.append([target, op, arg])
    return {'buff': buff, 'src': src, 'ops': ops}


# ---- rendering ------------------------------------------------------------------------------------------------------
HERE_MARKER = 'EOF'


def quoted(s: str) -> str:
    if "'" in s:
        raise ValueError('text with a hard quote: %r' % s)
    return "'" + s + "'"


def render_range(r):
    if len(r) == 1:
        return str(r[0])
    lo, hi = r
    return '%s:%s' % ('' if lo is None else lo, '' if hi is None else hi)


COUNT_FILE = '{OBS}/tcnt'


def render_tr(tr, top=True, uid='') -> str:
    """Syntax of a TEXT-TRANSFORMER in a position that takes no infix operators.  Forms that run to the end of the
    line (-line-nums ranges, a shell command) end with a line break; the caller continues on the next line."""
    tag = tr[0]
    if tag == 'identity':
        return 'identity'
    if tag == 'tcds':
        return 'replace-test-case-dirs'
    if tag == 'upper':
        return 'char-case -to-upper'
    if tag == 'lower':
        return 'char-case -to-lower'
    if tag == 'strip':
        return 'strip' + {None: '', 'space': ' -trailing-space', 'nl': ' -trailing-new-lines'}[tr[1]]
    if tag == 'filter':
        lm = tr[1]
        if lm[0] == 'true':
            return 'filter constant true'
        if lm[0] == 'ln':
            return 'filter line-num %s %d' % (lm[1], lm[2])
        return 'filter contents matches %s' % quoted(lm[1])
    if tag == 'grep':
        return 'grep ' + quoted(tr[1])
    if tag == 'nums':
        return 'filter -line-nums ' + ' '.join(render_range(r) for r in tr[1]) + '\n'
    if tag == 'replace':
        rx, tmpl, _, _ = model.REPLACEMENTS[tr[1]]
        at = ''
        if len(tr) > 3 and tr[3] is not None:
            lm = tr[3]
            at = '-at ' + ('line-num %s %d ' % (lm[1], lm[2]) if lm[0] == 'ln' else
                           'contents matches %s ' % quoted(lm[1]))
        return 'replace %s%s%s %s' % (at, '-preserve-new-lines ' if tr[2] else '', quoted(rx), quoted(tmpl))
    if tag == 'run':
        cnt = COUNT_FILE + str(uid)
        cmd = {'cat': '$ cat', 'tr': '$ tr a X',
               'count': '$ echo x >> %s; grep -c x %s; cat' % (cnt, cnt)}[tr[1]]
        s = 'run ' + cmd + '\n'
        if tr[2] is not None:
            s += '  -stdin ' + quoted(tr[2]) + '\n'
        return s
    if tag == 'seq':
        parts = [render_tr(t, False, uid) for t in tr[1:]]
        out = '( ' + parts[0]
        for p in parts[1:]:
            out += ('' if out.endswith('\n') else ' ') + '| ' + p
        return out + ('' if out.endswith('\n') else ' ') + ')'
    raise ValueError('transformer %r' % (tr,))


def render_source(node, files, cat_dir='{HOME}', rel='-rel-home') -> str:
    """TEXT-SOURCE syntax of a source tree without 'str' and 'concat' nodes.  ``files`` (name -> text) receives the
    files the syntax refers to (to be written below the home directory)."""
    kind = node[0]
    if kind == 'lit':
        if node[2] == 'here':
            return '<<%s\n%s%s\n' % (HERE_MARKER, node[1], HERE_MARKER)
        return quoted(node[1])
    if kind in ('file', 'prog'):
        name = 'f%d.txt' % (len(files) + 1)
        files[name] = node[1]
        if kind == 'file':
            return '-contents-of %s %s' % (rel, name)
        opt = '-stdout-from' if node[2] == 'out' else '-stderr-from'
        return '%s %s$ cat %s/%s%s\n' % (opt, '-ignore-exit-code ' if node[3] else '', cat_dir, name,
                                       ' >&2' if node[2] == 'err' else '')
    if kind == 'tr':
        # SRC -transformed-by T1, then T2 ... is written SRC -transformed-by ( T1 | T2 ... )
        trs = []
        while node[0] == 'tr':
            trs.insert(0, node[1])
            node = node[2]
        inner = render_source(node, files, cat_dir, rel)
        tr = trs[0] if len(trs) == 1 else ['seq'] + trs
        sep = '' if inner.endswith('\n') else ' '
        return inner + sep + '-transformed-by ' + render_tr(tr)
    raise ValueError('cannot render %r' % (node,))


# =====================================================================================================================
# Layer B (CLI)
# =====================================================================================================================
def draw_cli_leaf(draw, text, kinds=('lit', 'file', 'prog')):
    """A leaf for the given text, of a kind that can be written in a case file."""
    kinds = [k for k in kinds if not (k == 'lit' and '\r' in text)]
    kind = draw(st.sampled_from(kinds))
    if kind == 'lit':
        return ['lit', text, 'here' if (text.endswith('\n') and draw(_bool)) else 'q']
    if kind == 'file':
        return ['file', text]
    return ['prog', text, draw(st.sampled_from(['out', 'out', 'err'])), draw(_pct) < 30]


def _splitlines(text):
    """The pieces str.splitlines gives (generator steering only: near-miss expectations that a line-splitting routine
    of that kind would make true)."""
    return tuple(text.splitlines(True))


# transformers that give their input back (for the lines of the texts they are applied to here)
_PRESERVING = [['identity'], ['filter', ['true']], ['run', 'cat', None], ['nums', [[1, None]]], ['nums', [[None, -1]]],
               ['nums', [[1, 1], [2, None]]], ['nums', [[-1], [None, -2]]], ['replace', 'aX', True, ['ln', '<', 1]],
               ['tcds'], ['filter', ['ln', '>=', 1]], ['seq', ['filter', ['true']], ['identity'], ['run', 'cat', None]]]


def draw_expected(draw, text):
    """A source with the value ``text``: a leaf of any kind that can be written in a case file, sometimes under a
    transformer that preserves the text (expected texts "after transformation")."""
    leaf = draw_cli_leaf(draw, text)
    if draw(_pct) < 30:
        return ['tr', draw(st.sampled_from(_PRESERVING)), leaf]
    return leaf


def _variants_of(draw, text):
    """A text that differs from ``text`` in a way that confusions about line ends / the end of the text would hide
    or create."""
    cands = [text + 'x', text[:-1], text + '\n', text + '\nzz', text + 'zz\n', text + '\n\n',
             model.universal(text), '\n'.join(text.splitlines()),
             ''.join(_splitlines(text)[:-1]), text.replace('\r', ''), text.swapcase()]
    # same length, other characters (a comparison by size would not see the difference)
    if text:
        cands += [text[:-1] + ('#' if text[-1] != '#' else '%'), ('#' if text[0] != '#' else '%') + text[1:],
                  text[::-1], text.swapcase()]
    cands = [c for c in cands if c != text]
    if not cands:
        return text + 'x'
    return draw(st.sampled_from(cands))


def draw_matcher(draw, t_actual):
    """A matcher (JSON) steered by the text it will see; see render_matcher."""
    lines = model.nl_split(t_actual)
    kind = _pick(draw, [('eq', 40), ('nl', 18), ('any', 14), ('every-le', 6), ('empty', 4), ('cmp', 18),
                        ('matches', 5)])
    if kind in ('eq', 'cmp'):
        other = t_actual if draw(_pct) < 55 else _variants_of(draw, t_actual)
        if kind == 'cmp':
            return ['cmp', other]
        return ['eq', draw_expected(draw, other)]
    if kind == 'matches':
        return ['matches', draw(st.sampled_from(['a', 'b', 'c', 'A', 'B', 'X', 'é']))]
    if kind in ('nl', 'every-le'):
        cands = [len(lines), len(lines), len(lines), len(_splitlines(t_actual)),
                 len(model.nl_split(model.universal(t_actual))), len(lines) + 1, max(0, len(lines) - 1)]
        return [kind, draw(st.sampled_from(cands))]
    if kind == 'any':
        cands = [model._content(c) for c in lines] + [model._content(c) for c in _splitlines(t_actual)] + \
                [model._content(c) for c in model.nl_split(model.universal(t_actual))] + ['zz']
        return ['any', draw(st.sampled_from(cands))]
    return ['empty']


WRAPPERS = ['plain', 'plain', 'ident', 'ident', 'ident2', 'and', 'and', 'and', 'or', 'or']
ACTUAL_KINDS = ['file', 'act', 'prog', 'lit', 'cnt', 'exists']


@st.composite
def cli_verdict_cases(draw):
    buff = draw(_buff)
    text = draw_text(draw, buff, max_lines=5)
    tr = None
    if draw(_pct) < 55:
        tr = draw_tr(draw, text.count('\n') + 1)
    if draw(_pct) < 12:
        # a transformer program whose output differs at every run (exactly one run per assertion is demanded:
        # `( M && M )` freezes the text)
        count = ['run', 'count', None]
        tr = count if tr is None else (['seq', count, tr] if draw(_bool) else ['seq', tr, count])
    t_actual = ''.join(model.apply(tr, model.nl_split(text))) if tr else text
    buff = buff_near_text(draw, buff, [text, t_actual])
    kinds = [k for k in ACTUAL_KINDS if not (k == 'lit' and '\r' in text)]
    ins = []
    for _ in range(draw(st.integers(3, 8))):
        ins.append({'a': draw(st.sampled_from(kinds)), 'w': draw(st.sampled_from(WRAPPERS)),
                    'm': draw_matcher(draw, t_actual)})
    return {'buff': buff, 'text': text, 'tr': tr, 'ins': ins,
            'lit_form': 'here' if (text.endswith('\n') and draw(_bool)) else 'q'}


@st.composite
def cli_file_cases(draw):
    buff = draw(_buff)
    srcs = []
    for _ in range(draw(st.integers(1, 4))):
        text = draw_text(draw, buff, max_lines=5)
        leaf = draw_cli_leaf(draw, text)
        n = draw(st.sampled_from([0, 1, 1, 2, 2, 3]))
        src = leaf
        for _ in range(n):
            src = ['tr', draw_tr(draw, model.ref_text(src).count('\n') + 1), src]
        srcs.append(src)
    stdin = None
    if draw(_pct) < 50:
        text = draw_text(draw, buff, max_lines=4)
        stdin = draw_cli_leaf(draw, text)
        if draw(_pct) < 50:
            stdin = ['tr', draw_tr(draw, text.count('\n') + 1), stdin]
    def one():
        text = draw_text(draw, buff, max_lines=4)
        src = draw_cli_leaf(draw, text)
        if draw(_pct) < 60:
            src = ['tr', draw_tr(draw, text.count('\n') + 1), src]
        return src

    # file oN.txt += SRC (appended to the N-th file), env VAR = SRC (consumed as a string)
    appends = [[draw(st.integers(0, len(srcs) - 1)), one()] for _ in range(draw(st.sampled_from([0, 0, 1, 1, 2])))]
    envs = [one() for _ in range(draw(st.sampled_from([0, 0, 1, 1, 2])))]
    all_srcs = srcs + ([stdin] if stdin else []) + [a[1] for a in appends] + envs
    buff = buff_near_text(draw, buff, [model.ref_text(x) for x in all_srcs])
    return {'buff': buff, 'srcs': srcs, 'stdin': stdin, 'appends': appends, 'envs': envs,
            'phase': draw(st.sampled_from(['setup', 'setup', 'before-assert']))}


def render_matcher(m, files) -> str:
    """Syntax of the core matcher; ends with a line break when it runs to the end of the line."""
    kind = m[0]
    if kind == 'eq':
        return 'equals ' + render_source(m[1], files)
    if kind == 'nl':
        return 'num-lines == %d' % m[1]
    if kind == 'every-le':
        return 'every line : line-num <= %d' % m[1]
    if kind == 'empty':
        return 'is-empty'
    if kind == 'any':
        if '\r' in m[1] or "'" in m[1]:
            name = 'f%d.txt' % (len(files) + 1)
            files[name] = m[1]
            return 'any line : contents equals -contents-of -rel-home ' + name
        return 'any line : contents equals ' + quoted(m[1])
    if kind == 'cmp':
        name = 'f%d.txt' % (len(files) + 1)
        files[name] = m[1]
        return 'run $ cmp -s - {HOME}/%s\n' % name
    if kind == 'matches':
        return 'matches ' + quoted(m[1])
    raise ValueError(m)


def _join(a, b):
    return a + ('   ' if a.endswith('\n') else ' ') + b


def render_instruction(ins, tr, negate, files, idx=0) -> str:
    core = render_matcher(ins['m'], files)
    w = ins['w']
    if w == 'plain':
        body = core
    elif w == 'ident':
        body = '-transformed-by identity ' + core
    elif w == 'ident2':
        body = '-transformed-by ( identity | identity ) ' + core
    else:
        op = '&&' if w == 'and' else '||'
        body = _join(_join(_join(_join('(', core), op), render_matcher(ins['m'], files)), ')')
    if negate:
        body = '! ' + body
    if tr is not None:
        body = _join('-transformed-by ' + render_tr(tr, uid=idx), body)
    head = {'file': 'contents -rel-home actual.txt :', 'lit': 'contents lit.txt :', 'act': 'stdout',
            'exists': 'exists -rel-home actual.txt : contents',
            'prog': 'stdout -from $ cat {HOME}/actual.txt\n',
            'cnt': 'stdout -from ' + counter_command('{OBS}/cnt%d' % idx, '{HOME}/actual.txt')}[ins['a']]
    out = _join(head, body)
    return out if out.endswith('\n') else out + '\n'


def as_rendered(node):
    """The source tree as the program sees it when it is written with render_source: a chain of transformations
    is ONE `-transformed-by ( T1 | T2 ... )`, and `identity` on the output of a program is no transformation (it
    belongs to the PROGRAM, whose identity transformations are dropped)."""
    if node[0] != 'tr':
        return node
    trs = []
    while node[0] == 'tr':
        trs.insert(0, node[1])
        node = node[2]
    if node[0] == 'prog':
        flat = []
        for t in trs:
            flat += model._flat_seq(t)
        flat = [t for t in flat if t[0] != 'identity']
        if not flat:
            return node
        trs = flat
    return ['tr', trs[0] if len(trs) == 1 else ['seq'] + trs, node]


# =====================================================================================================================
# Layer B, metamorphic: any matcher M (no reference semantics needed) must give one verdict for every kind of source of
# the same text and for every wrapping that does not change the text
# =====================================================================================================================
META_REGEXES = ['a', 'ab', '^a', 'b$', 'a.*b', '.', '^$', '[ab]+', 'B|c', ' $', '\u00e9', '^..$', '^[^a]*$', 'c\\Z', '\\s']
META_KINDS = [('file', 'contents -rel-home actual.txt :'), ('act', 'stdout'),
              ('prog', 'stdout -from $ cat {HOME}/actual.txt\n  '), ('lit', 'contents lit.txt :'),
              ('exists', 'exists -rel-home actual.txt : contents')]
META_WRAPS = [('plain', 'MM'), ('identity', '-transformed-by identity MM'),
              ('identity-seq', '-transformed-by ( identity | identity ) MM'), ('and', '( MM && MM )'),
              ('or', '( MM || MM )'), ('filter-true', '-transformed-by filter constant true MM'),
              ('filter-true-and', '-transformed-by filter constant true ( MM && MM )'),
              ('run-cat-or', '-transformed-by run $ cat\n   ( MM || MM )'),
              ('all-lines-and', '-transformed-by filter -line-nums :-1 1:\n   ( MM && MM )')]
_META_SIMPLE_TR = [['identity'], ['upper'], ['lower'], ['strip', None], ['strip', 'space'], ['strip', 'nl'],
                   ['filter', ['true']], ['filter', ['ln', '>=', 2]], ['filter', ['has', 'a']], ['grep', 'b'],
                   ['replace', 'aX', False], ['replace', 'bNL', True], ['replace', 'NLdel', False, ['ln', '==', 1]],
                   ['replace', 'bFF', False], ['seq', ['filter', ['true']], ['upper']]]


def _draw_meta_lm(draw, lines, depth):
    kind = _pick(draw, [('cm', 5), ('ce', 4), ('ln', 3), ('not', 2 if depth else 0), ('and', 2 if depth else 0),
                        ('or', 2 if depth else 0)])
    if kind == 'cm':
        return ['cm', draw(_bool) and draw(_pct) < 40, draw(st.sampled_from(META_REGEXES))]
    if kind == 'ce':
        cands = [model._content(c) for c in lines] + ['zz', '']
        return ['ce', draw(st.sampled_from(cands))]
    if kind == 'ln':
        return ['ln', draw(_op), draw(st.integers(0, len(lines) + 1))]
    if kind == 'not':
        return ['not', _draw_meta_lm(draw, lines, depth - 1)]
    return [kind, _draw_meta_lm(draw, lines, depth - 1), _draw_meta_lm(draw, lines, depth - 1)]


def draw_meta_matcher(draw, text, depth=2):
    lines = model.nl_split(text)
    kind = _pick(draw, [('nl', 5), ('empty', 1), ('eq', 5), ('re', 5), ('any', 5), ('every', 5),
                        ('not', 3 if depth else 0), ('and', 3 if depth else 0), ('or', 3 if depth else 0),
                        ('tr', 5 if depth else 0)])
    if kind == 'nl':
        return ['nl', draw(_op), draw(st.sampled_from([len(lines), len(lines), len(lines) + 1, max(0, len(lines) - 1),
                                                      len(_splitlines(text))]))]
    if kind == 'empty':
        return ['empty']
    if kind == 'eq':
        other = text if draw(_pct) < 60 else _variants_of(draw, text)
        return ['eq', other.replace('\r', ''), draw(_bool)]
    if kind == 're':
        return ['re', draw(_pct) < 30, draw(st.sampled_from(META_REGEXES))]
    if kind in ('any', 'every'):
        return [kind, _draw_meta_lm(draw, lines, 1)]
    if kind == 'not':
        return ['not', draw_meta_matcher(draw, text, depth - 1)]
    if kind == 'tr':
        tr = draw(st.sampled_from(_META_SIMPLE_TR))
        return ['tr', tr, draw_meta_matcher(draw, ''.join(model.apply(tr, lines)), depth - 1)]
    return [kind, draw_meta_matcher(draw, text, depth - 1), draw_meta_matcher(draw, text, depth - 1)]


def _render_meta_lm(lm, top=False) -> str:
    k = lm[0]
    if k == 'cm':
        return 'contents matches %s%s' % ('-full ' if lm[1] else '', quoted(lm[2]))
    if k == 'ce':
        return 'contents equals ' + quoted(lm[1])
    if k == 'ln':
        return 'line-num %s %d' % (lm[1], lm[2])
    if k == 'not':
        return '! ' + _render_meta_lm(lm[1])
    return '( %s %s %s )' % (_render_meta_lm(lm[1]), '&&' if k == 'and' else '||', _render_meta_lm(lm[2]))


def render_meta_matcher(m, files) -> str:
    """Syntax of the matcher; every compound operand is put inside parentheses."""
    k = m[0]

    def operand(x):
        s = render_meta_matcher(x, files)
        return s if x[0] in ('nl', 'empty', 're', 'and', 'or') or (x[0] == 'eq' and not x[2]) else '( ' + s + ' )'

    if k == 'nl':
        return 'num-lines %s %d' % (m[1], m[2])
    if k == 'empty':
        return 'is-empty'
    if k == 'eq':
        if m[2]:
            name = 'f%d.txt' % (len(files) + 1)
            files[name] = m[1]
            return 'equals -contents-of -rel-home ' + name
        return 'equals ' + quoted(m[1])
    if k == 're':
        return 'matches %s%s' % ('-full ' if m[1] else '', quoted(m[2]))
    if k in ('any', 'every'):
        return '%s line : %s' % (k, _render_meta_lm(m[1]))
    if k == 'not':
        return '! ' + operand(m[1])
    if k == 'tr':
        return '-transformed-by %s %s' % (render_tr(m[1]), operand(m[2]))
    return '( %s %s %s )' % (operand(m[1]), '&&' if k == 'and' else '||', operand(m[2]))


def meta_tags(m):
    out = [m[0]]
    for x in m[1:]:
        if isinstance(x, list) and x and isinstance(x[0], str) and m[0] in ('not', 'and', 'or', 'tr'):
            if m[0] == 'tr' and x is m[1]:
                continue
            out += meta_tags(x)
    return out


@st.composite
def cli_meta_cases(draw):
    buff = draw(_buff)
    text = draw_text(draw, buff, allow_cr=False, max_lines=5)
    m = draw_meta_matcher(draw, text)
    buff = buff_near_text(draw, buff, [text])
    return {'buff': buff, 'text': text, 'm': m}


def counter_command(counter_file, text_file) -> str:
    """A shell command whose output differs at every invocation: the number of invocations so far on the first
    line, then the text."""
    return '$ echo x >> %s; grep -c x %s; cat %s\n' % (counter_file, counter_file, text_file)


@st.composite
def freeze_once_cases(draw):
    """A program whose output changes per invocation, under 0-3 transformers; accesses of the outermost source."""
    buff = draw(_buff)
    n = draw(st.integers(0, 4))
    text = ''.join(''.join(draw(_plain_ch) for _ in range(draw(st.integers(0, 4)))) + '\n' for _ in range(n))
    if text and draw(_pct) < 30:
        text = text[:-1]
    trs = []
    for _ in range(draw(st.sampled_from([0, 0, 1, 1, 1, 2, 2, 3]))):
        tr = draw_tr(draw, n + 1)
        trs.append(_without_stdin(tr))
    n_ops = draw(st.integers(3, 8))
    ops = []
    for _ in range(n_ops):
        op = _pick(draw, [('str', 20), ('lines', 20), ('lines_k', 6), ('file', 16), ('write', 12), ('head', 5),
                          ('freeze', 16), ('ext', 5)])
        arg = draw(st.integers(0, 3)) if op == 'lines_k' else draw(st.integers(1, 6)) if op == 'head' else None
        ops.append([op, arg])
    pos = draw(st.integers(0, max(0, n_ops - 3)))
    ops[pos] = ['freeze', None]
    return {'buff': buff, 'text': text, 'trs': trs, 'ops': ops}


def _without_stdin(tr):
    """No stdin for run-programs, no replacement that creates CR / FF: the freeze-once check keeps clear of the
    modelled defects (its texts are plain)."""
    if tr[0] == 'run':
        return ['run', tr[1], None]
    if tr[0] == 'replace' and tr[1] in ('bCR', 'bFF'):
        return ['replace', 'aX', tr[2]]
    if tr[0] == 'seq':
        return ['seq'] + [_without_stdin(t) for t in tr[1:]]
    return tr
