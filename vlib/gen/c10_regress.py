"""C10: the hand-made regression cases replays/C10/regress-*.json are written by this module:
    cd /verif && /venv/bin/python -m vlib.gen.c10_regress
(cases in the shape documented in vlib/gen/c10_gen.py; each one pins an oracle reading or a finding)"""
import json
import os

from vlib.gen import c10_gen as gen

root = os.path.dirname(os.path.dirname(os.path.dirname(os.path.abspath(__file__))))

def S(*frs):
    return {'k': 'str', 'frs': [list(f) for f in frs]}
def lit(text, style='n'):
    return S([style, [['t', text]]])
def prog(kind='sys', args=(), cfg=None, stdin=None, tr=None, last=None, cont=None, paren=False, **head):
    h = {'k': kind, 'cfg': cfg or {'exit': 0, 'stdout': '', 'stderr': ''}}
    h.update(head)
    if kind == 'sys':
        h.setdefault('variant', 'plain')
    return {'head': h, 'args': list(args), 'last': last, 'cont': cont, 'stdin': stdin, 'tr': tr, 'paren': paren}
def ref(name, args=(), stdin=None, tr=None, last=None):
    return {'head': {'k': 'sym', 'n': name}, 'args': list(args), 'last': last, 'cont': None, 'stdin': stdin, 'tr': tr,
            'paren': False}
def base(**kw):
    c = {'files': {'data/f1.txt': 'f1\n', 'data/f2.txt': 'f2\n'}, 'syms': [], 'tsyms': [], 'pgms': [], 'dirs': [],
         'setup_stdin': None, 'phases': {}, 'claims': [], 'act': None}
    c.update(kw)
    return c
def sym_s(n, v, q='s'): return {'n': n, 't': 'string', 'v': v, 'q': q}
def sym_l(n, v, q='n'): return {'n': n, 't': 'list', 'v': v, 'q': q}
def ts_str(text, style='s'): return {'k': 'str', 's': lit(text, style), 'paren': False}
def ts_pgm(p, chan='stdout', ignore=False): return {'k': 'pgm', 'chan': chan, 'ignore': ignore, 'p': p, 'paren': False}
three = [{'what': 'exit', 'mut': None}, {'what': 'stdout', 'mut': None, 'via': 'file'},
         {'what': 'stderr', 'mut': None, 'via': 'file'}]

out = {}
# 1. KF-C10-1: the output of a program used as a later part of stdin arrives before the earlier parts
out['kf1-stdin-program-output-before-earlier-parts'] = ('act_command_line', base(
    pgms=[{'n': 'PA1', 'p': prog(args=[lit('a')], stdin=ts_str('first '))}],
    act={'k': 'program', 'p': ref('PA1', [lit('b')], stdin=ts_pgm(prog(cfg={'exit': 0, 'stdout': 'from-program\n', 'stderr': ''}))),
         'explicit_actor': False, 'comments_before': []},
    setup_stdin=ts_str('third')),
    'stdin = "first " + output of a program + "third" (program symbol stdin, then -stdin, then `stdin =`)')
# 2. KF-C10-1 with a first part that is larger than the buffers
out['kf1-stdin-big-text-then-program-output'] = ('act_command_line', base(
    files={'data/f1.txt': 'f1\n', 'data/f2.txt': gen.BIG_TEXT},
    act={'k': 'program', 'p': prog(stdin={'k': 'file', 'name': 'data/f2.txt', 'rel': 'home', 'paren': False}),
         'explicit_actor': True, 'comments_before': []},
    setup_stdin=ts_pgm(prog(cfg={'exit': 3, 'stdout': 'x\n', 'stderr': ''}), ignore=True)),
    'stdin = 71 kB file + output of a program: the output is inserted where the writer had flushed')
# 2b. KF-C10-1, second shape: the text given to a `run` transformer is the raw output of a program
out['kf1-run-transformer-with-stdin-on-program-output'] = ('instructions', base(
    act={'k': 'program', 'p': prog()},
    phases={'setup': [{'k': 'filefrom', 'rel': 'tmp', 'name': 'out-PB.txt', 'chan': 'stdout', 'ignore': False, 'paren': False,
                       'p': prog(cfg={'exit': 0, 'stdout': 'OUT\n', 'stderr': ''},
                                 tr=[['run', prog(stdin=ts_str('own '), cfg={'exit': 0, 'stdout': 'result', 'stderr': ''}), False]])},
                      {'k': 'filefrom', 'rel': 'tmp', 'name': 'out-PC.txt', 'chan': 'stdout', 'ignore': False, 'paren': False,
                       'p': prog(cfg={'exit': 0, 'stdout': 'OUT\n', 'stderr': ''},
                                 tr=[['lower'], ['run', prog(stdin=ts_str('own '), cfg={'exit': 0, 'stdout': 'result', 'stderr': ''}), False]])}]}),
    '`run PROGRAM` transformer: "If PROGRAM defines stdin, then the text to transform is appended to that stdin"; '
    'observed "OUT\\nown " when the text is the raw output of a program, "own out\\n" after another transformer')
# 3. a token that is exactly one unquoted reference to a list = its elements (also none)
out['naked-list-reference-is-spliced'] = ('act_command_line', base(
    syms=[sym_l('L1', []), sym_l('L2', ['x', 'y z', '']), sym_s('S1', '')],
    act={'k': 'program', 'p': prog(args=[S(['n', [['r', 'L1']]]), lit('a'), S(['n', [['r', 'L2']]]), S(['s', [['r', 'L2']]]),
                                        S(['n', [['r', 'L1']]], ['s', [['t', '']]]), S(['n', [['r', 'S1']]]),
                                        S(['n', [['t', 'p-'], ['r', 'L2']]]), {'k': 'ref', 'n': 'L1'}]),
         'explicit_actor': False, 'comments_before': []}),
    '@[L1]@ (empty list) gives no argument, "@[L2]@" one argument, @[L1]@"" an empty argument, @[S1]@ an empty argument')
# 4. '#' is an ordinary character of an argument (act, run, %, def list, def string)
hash_args = [lit('a#b'), lit('#'), lit('#x'), lit('x#'), lit('# c', 's'), S(['n', [['r', 'S1']]]), S(['n', [['r', 'L1']]])]
out['hash-is-an-ordinary-character'] = ('instructions', base(
    syms=[sym_s('S1', '#', 'n'), sym_l('L1', ['#', 'a#b', '#c#'], 'n')],
    pgms=[{'n': 'PB1', 'p': prog(args=hash_args)}],
    act={'k': 'program', 'p': prog(args=hash_args, cont=3)},
    phases={'setup': [{'k': 'run', 'ignore': False, 'p': ref('PB1', hash_args)},
                      {'k': 'sys', 'cfg': {'exit': 0}, 'args': hash_args, 'last': None, 'cont': 1}],
            'assert': [{'k': 'run', 'ignore': False, 'p': prog(args=hash_args, last={'k': 'eol', 'pieces': [['t', 'a # b #']]})}]}),
    "naked '#', 'a#b', '#x' in argument lists of [act], run, %, def list / def string; `:> a # b #`")
# 5. substitution is decided per quoted fragment
out['substitution-per-fragment'] = ('act_command_line', base(
    syms=[sym_s('S1', 'V 1'), sym_l('L1', ['p', 'q'])],
    act={'k': 'program', 'p': prog(args=[S(['h', [['t', 'x']]], ['s', [['r', 'S1']]]),
                                        S(['s', [['r', 'S1']]], ['h', [['r', 'S1']]], ['n', [['r', 'L1']]]),
                                        S(['h', [['r', 'S1']]]), S(['n', [['t', 'a']]], ['h', [['t', ' b ']]], ['s', [['t', '']]]),
                                        S(['n', [['t', '@']]], ['n', [['t', '[S1]@']]])]),
         'explicit_actor': True, 'comments_before': ['# a comment', '']}),
    "'x'\"@[S1]@\" -> xV 1 ; \"@[S1]@\"'@[S1]@'@[L1]@ -> V 1@[S1]@p q ; '@[S1]@' literal")
# 6. the source file of the source interpreter actor
out['source-interpreter-file-contents'] = ('act_interpreters', base(
    act={'k': 'source', 'variant': 'probe-is-interpreter', 'cfg': {'exit': 7, 'stdout': 'o\n', 'stderr': 'e\n'},
         'interp': 'sys', 'via': 'conf', 'iargs': [lit('-x'), lit('a b', 's')],
         'lines': ['line 1', '', '  # not a comment here', '\\[escaped header]', '\\\\backslash', ' indented', '']},
    setup_stdin=ts_str('in'), claims=three),
    'all lines of [act] (empty lines, comment-like lines, escapes translated) are the source file; it is the last argument')
# 7. --actor COMMAND-LINE (shell syntax) and the actor of the suite
for via in ('cli', 'suite'):
    out['source-interpreter-via-%s' % via] = ('act_interpreters', base(
        act={'k': 'source', 'variant': 'probe-is-interpreter', 'cfg': {'exit': 0, 'stdout': '', 'stderr': ''},
             'interp': 'sys', 'via': via, 'iargs': [lit('', 'h'), lit("it's", 'h'), lit('a  b', 'h'), lit('"q"', 'h'), lit('--', 'h'), lit('é', 'h')],
             'lines': ['print(1)']}, claims=three),
        'the interpreter and its arguments given by %s' % ('--actor (shell syntax)' if via == 'cli' else 'exactly.suite [conf]'))
# 8. shell command lines are passed verbatim to the shell
sh = {'words': [[['s', [['t', 'a  b']]]], [['u', [['t', 'x']]], ['c', [['t', 'word']]], ['d', [['t', " 'y' "]]]], [['d', [['t', '#;|&']]]]],
      'seps': ['  ', '\t'], 'trail': ' ', 'pre': 'true && ', 'post': '; exit $?'}
sh2 = dict(sh, pre='X=1 ', post=' # a comment')
out['shell-command-line-verbatim'] = ('shell_lines', base(
    act={'k': 'program', 'p': prog('shell', sh=sh, cfg={'exit': 201, 'stdout': 'o', 'stderr': 'e'}), 'explicit_actor': False},
    phases={'setup': [{'k': 'shell', 'cfg': {'exit': 0}, 'sh': sh2}],
            'cleanup': [{'k': 'shell', 'cfg': {'exit': 0}, 'sh': dict(sh, pre=': ; ', post=' && true')}]},
    claims=three),
    '&&, ;, #, $(...), VAR=x prefixes and quotes are handled by the shell; exit code 201 via `; exit $?`')
# 9. file PATH = -stdout-from PROGRAM after cd, program defined in the phase of use
out['file-from-program-output-local-def'] = ('instructions', base(
    dirs=[['act', 'd1']],
    pgms=[{'n': 'PB1', 'p': prog(args=[lit('a')], cfg={'exit': 5, 'stdout': 'aAbB\n', 'stderr': 'err\n'}, tr=[['upper']])},
          {'n': 'PB2', 'p': ref('PB1', [lit('b')], stdin=ts_str('in'), tr=[['repl', 'A', 'x']])}],
    act={'k': 'program', 'p': prog()},
    phases={'before-assert': [{'k': 'cd', 'rel': 'act', 'name': 'd1'},
                              {'k': 'filefrom', 'rel': 'cd', 'name': 'out-PB.txt', 'chan': 'stdout', 'ignore': True,
                               'p': ref('PB2', [lit('c')], tr=[['lower']]), 'paren': True, 'local_defs': True}]}),
    'contents = output transformed in definition order (upper, A->x, lower); file in the current directory')

# 10. a separate act-home directory: default relativities of the executable of [act] / FILE of the file interpreter
#     (act-home) differ from those of run, -existing-file, -contents-of (home)
out['act-home-is-not-home-command-line'] = ('act_command_line', base(
    act_home='ah',
    act={'k': 'program', 'p': prog('exe', variant='default',
                                   args=[{'k': 'xpath', 'opt': 'file', 'rel': 'default', 'name': 'data/f1.txt'},
                                         {'k': 'xpath', 'opt': 'path', 'rel': 'act-home', 'name': 'data/f1.txt'}],
                                   stdin={'k': 'file', 'name': 'data/f1.txt', 'rel': 'act-home', 'paren': False}),
         'explicit_actor': True, 'comments_before': []},
    setup_stdin={'k': 'file', 'name': 'data/f1.txt', 'rel': 'default', 'paren': False}),
    'executable found in act-home; -existing-file default = home; -contents-of -rel-act-home reads the act-home copy')
out['act-home-is-not-home-file-interpreter'] = ('act_interpreters', base(
    act_home='ah',
    act={'k': 'file', 'variant': 'probe-is-interpreter', 'cfg': {'exit': 0, 'stdout': '', 'stderr': ''}, 'rel': 'default',
         'interp': 'sys', 'via': 'conf', 'name': 'data/src.txt', 'iargs': [lit('-i')],
         'args': [lit('a'), {'k': 'xpath', 'opt': 'file', 'rel': 'default', 'name': 'data/f1.txt'}], 'last': None, 'cont': None}),
    'interpreter arguments, then the source file (absolute path in act-home), then the arguments of [act]')


# 11. a program symbol used by two programs: what one use appends is not seen by the other
out['program-symbol-used-twice'] = ('act_command_line', base(
    pgms=[{'n': 'PA1', 'p': prog(args=[lit('base')], stdin=ts_str('s0 '))},
          {'n': 'PA2', 'p': ref('PA1', [lit('two')], stdin=ts_str('s2 '), tr=[['upper']])}],
    act={'k': 'program', 'p': ref('PA2', [lit('act')], stdin=ts_str('s-act')), 'explicit_actor': False, 'comments_before': []},
    phases={'setup': [{'k': 'run', 'ignore': True, 'p': ref('PA1', [lit('from-setup')], stdin=ts_str('s-setup')),
                       'shared_symbol': True}],
            'cleanup': [{'k': 'run', 'ignore': True, 'p': ref('PA2', [lit('from-cleanup')]), 'shared_symbol': True}]},
    setup_stdin=ts_str(' s-stdin'), claims=three),
    'argv base from-setup / base two act / base two from-cleanup; stdin "s0 s-setup" / "s0 s2 s-act s-stdin" / "s0 s2 "')


def main():
    os.makedirs(os.path.join(root, 'replays', 'C10'), exist_ok=True)
    for name, (sub, case, what) in out.items():
        with open(os.path.join(root, 'replays', 'C10', 'regress-%s.json' % name), 'w') as f:
            json.dump({'property': 'C10', 'sub': sub, 'bucket': None, 'case': case, 'detail': {'what': what}, 'tier': None,
                       'seed': None}, f, ensure_ascii=False, indent=1)
    print(len(out), 'regress files written')


if __name__ == '__main__':
    main()
