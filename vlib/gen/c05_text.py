"""Text generator for C05 (reused by C06/C13): small line-structured texts over an alphabet with whitespace and
regex metacharacters.

Deliberately absent from the alphabet:
* "\\r" and every character other than "\\n" that ``str.splitlines`` treats as a line break
  (\\x0b \\x0c \\x1c \\x1d \\x1e \\x85 \\u2028 \\u2029) - they belong to property C14;
* ' " # @ { } - quoting, comments, symbol references and harness placeholders (property C09); every text of this
  alphabet can be written as one hard-quoted ('...') STRING, also over several lines.

Functions take Hypothesis' ``draw`` so that they can be combined inside one ``st.composite`` with generators
that depend on the drawn text.  Nothing here imports exactly_lib.
"""
from hypothesis import strategies as st

LINE_ALPHABET = list('abAB \t.*+?()[]\\^$|é012')
WHITESPACE = ' \t\n'

_line_chars = st.sampled_from(LINE_ALPHABET)
_random_line = st.text(alphabet=_line_chars, min_size=0, max_size=8)
_wordish_line = st.text(alphabet=st.sampled_from(list('abAB12 ')), min_size=1, max_size=6)
_special_lines = st.sampled_from(['', ' ', '\t', '  ', ' a', 'a ', ' a b ', '\ta\t', 'a', 'b', 'ab', 'AB', 'aB',
                                  'a.b', 'a*', '(a)', '[ab]', 'a\\b', '^a$', 'a|b', 'é', 'Éa', '12', '1'])
_line_kind = st.sampled_from(['rand', 'rand', 'word', 'word', 'special', 'special', 'dup', 'dupcase'])


def draw_line(draw, earlier):
    kind = draw(_line_kind)
    if kind in ('dup', 'dupcase') and not earlier:
        kind = 'word'
    if kind == 'rand':
        return draw(_random_line)
    if kind == 'word':
        return draw(_wordish_line)
    if kind == 'special':
        return draw(_special_lines)
    src = earlier[draw(st.integers(0, len(earlier) - 1))]
    if kind == 'dup':
        return src
    return src.swapcase()


_n_lines = st.sampled_from([0, 1, 1, 1, 2, 2, 2, 3, 3, 3, 4, 4, 5, 6])
_bool = st.booleans()
_final = st.sampled_from([True, True, True, False, False])
_extra_nl = st.sampled_from([0, 0, 0, 0, 0, 1, 2, 2, 3])
_long = st.integers(0, 15)


def draw_text(draw, max_lines=6):
    """A text of 0..max_lines lines; the last line with or without "\\n"; sometimes extra empty lines at
    either end (for the strip variants)."""
    n = min(draw(_n_lines), max_lines)
    if max_lines > 6 and draw(_bool):
        n = draw(st.integers(5, max_lines))  # (extra draws only for the larger domain of the thorough tier)
    lines = []
    for _ in range(n):
        lines.append(draw_line(draw, lines))
    text = '\n'.join(lines)
    if n and draw(_final):
        text += '\n'
    k = draw(_extra_nl)
    if k:
        if draw(_bool):
            text = text + '\n' * k
        else:
            text = '\n' * k + text
    if text and draw(_long) == 15:
        # a long text (> 101 characters more than a short operand: `equals` reads only a prefix then)
        reps = draw(st.integers(2, 40))
        text = text * reps if draw(_bool) else text + (text.rstrip('\n') or 'a') * reps
    return text


@st.composite
def texts(draw, max_lines=6):
    return draw_text(draw, max_lines)


_mut_kind = st.sampled_from(['same', 'same', 'same', 'same', 'droplast', 'addnl', 'addch', 'dropfirst', 'swapcase',
                             'prefix', 'firstline', 'lastline', 'strip', 'rstrip', 'rstripnl', 'random', 'empty'])


def draw_similar_text(draw, text):
    """A text that is equal or close to ``text`` (operand of ``equals``)."""
    kind = draw(_mut_kind)
    if kind == 'same':
        return text
    if kind == 'droplast':
        return text[:-1]
    if kind == 'addnl':
        return text + '\n'
    if kind == 'addch':
        return text + draw(_line_chars)
    if kind == 'dropfirst':
        return text[1:]
    if kind == 'swapcase':
        return text.swapcase()
    if kind == 'prefix':
        return text[:draw(st.integers(0, len(text)))]
    if kind == 'firstline':
        i = text.find('\n')
        return text if i < 0 else text[:i + 1]
    if kind == 'lastline':
        i = text.rstrip('\n').rfind('\n')
        return text[i + 1:]
    if kind == 'strip':
        return text.strip(WHITESPACE)
    if kind == 'rstrip':
        return text.rstrip(WHITESPACE)
    if kind == 'rstripnl':
        return text.rstrip('\n')
    if kind == 'empty':
        return ''
    return draw_text(draw, 3)
