"""C18 corpus of hand-written texts: one small case per kind of mistake the property statement names (and per defect
found so far), each with the outcome the manual demands for it.

Independent of the code under test.  Harmless by construction: the only programs are `true`, `echo`, `cat`, `sh`
on fixed one-liners and the files of the case's own directory.

An entry is (name, text | {file: text}, expect) where expect is
  None                      - only the generic oracle (documented outcome, no INTERNAL_ERROR, true location)
  'SYNTAX' / 'VALIDATION'   - the identifier must be SYNTAX_ERROR / VALIDATION_ERROR
  'REJECT'                  - SYNTAX_ERROR or VALIDATION_ERROR (exit code 65), the manual does not say which
  'REJECT|HARD'             - exit code 65, or HARD_ERROR when the instruction runs
  'ACCESS'                  - FILE_ACCESS_ERROR
and, optionally as a 4th element, the line of t.case the report must point at.
`<PRE>` stands for the two [setup] instructions that create f.txt and the directory d (as in every generated case);
`\\0` for a NUL character.
"""

PRE = '[setup]\nfile -rel-act f.txt = <<EOF\na\nb c\nEOF\ndir -rel-act d = {\nfile g.txt = "x"\ndir e\n}\n'
LONG = 'a' * 300

ACT = '[act]\n% true\n'


def _assert(line):
    return ACT + '[assert]\n' + line + '\n'


def _setup(line):
    return '[setup]\n' + line + '\n' + ACT


def _last(line):
    """the instruction is the last line of the file: an instruction that lacks an argument may take the following
    line as its continuation (cf. KF-C07-1), so "missing argument" is a certain mistake only at the end of the file"""
    return ACT + '[cleanup]\n' + line + '\n'


CORPUS = [
    # ---- malformed syntax, unknown instructions / phases ----------------------------------------------------------
    ('unknown-instruction', _setup('no-such-instruction a b'), 'SYNTAX', 2),
    ('unknown-instruction-assert', _assert('stdoutt is-empty'), 'SYNTAX', 4),
    ('unknown-phase', '[nophase]\n' + ACT, 'SYNTAX', 1),
    ('phase-header-unclosed', '[setup\n' + ACT, 'SYNTAX', 1),
    ('phase-header-text-after', '[setup] x\n' + ACT, 'SYNTAX', 1),
    ('phase-header-empty', '[]\n' + ACT, 'SYNTAX', 1),
    ('phase-header-upper', '[SETUP]\n' + ACT, 'SYNTAX', 1),
    ('instruction-in-wrong-phase-stdin', ACT + '[before-assert]\nstdin = x\n', 'SYNTAX', 4),
    ('instruction-in-wrong-phase-exists', '[setup]\nexists f.txt\n' + ACT, 'SYNTAX', 2),
    ('instruction-in-conf', '[conf]\nfile a.txt\n' + ACT, 'SYNTAX', 2),
    ('conf-instruction-in-setup', _setup('status = FAIL'), 'SYNTAX', 2),
    ('missing-argument-file', _last('file'), 'SYNTAX', 4),
    ('missing-argument-exit-code', _assert('exit-code'), 'SYNTAX', 4),
    ('missing-argument-exit-code-op', _assert('exit-code =='), 'SYNTAX', 4),
    ('missing-argument-before-header', '[setup]\nenv A =\n' + ACT, None),
    ('missing-value-def', _last('def string S ='), 'SYNTAX', 4),
    ('missing-equals-def', _setup('def string S x'), 'SYNTAX', 2),
    ('unknown-type-def', _setup('def strin S = x'), 'SYNTAX', 2),
    ('superfluous-argument', _assert('exit-code == 0 1'), 'SYNTAX', 4),
    ('superfluous-argument-cd', _setup('cd a b'), 'SYNTAX', 2),
    ('unknown-option', _setup('file -no-such-option a.txt'), 'REJECT', 2),
    ('unknown-matcher', _assert('stdout is-emptyy'), 'REJECT', 4),
    ('unknown-transformer', _assert('stdout -transformed-by no-such-tt is-empty'), 'REJECT', 4),
    ('operator-without-operand', _assert('exit-code ( == 0 && )'), 'SYNTAX', 4),
    ('unclosed-parenthesis', _assert('exit-code ( == 0'), 'SYNTAX', 4),
    ('unopened-parenthesis', _assert('exit-code == 0 )'), 'SYNTAX', 4),
    ('files-condition-unclosed', PRE + ACT + '[assert]\ndir-contents -rel-act d : matches {\ng.txt\n', 'SYNTAX', 13),
    ('files-source-unclosed', '[setup]\ndir nd = {\nfile a.txt\n' + ACT, 'SYNTAX', 2),
    ('status-invalid', '[conf]\nstatus = NOPE\n' + ACT, 'SYNTAX', 2),
    ('actor-invalid', '[conf]\nactor = nope\n' + ACT, 'SYNTAX', 2),
    ('actor-missing', '[conf]\nactor =\n' + ACT, 'SYNTAX', 2),
    ('timeout-missing', _last('timeout ='), 'SYNTAX', 4),
    ('env-missing-value', _last('env A ='), 'SYNTAX', 4),
    ('env-missing-equals', _last('env A'), 'SYNTAX', 4),
    ('type-invalid', PRE + _assert('exists -rel-act d : type socket'), 'SYNTAX', 13),
    ('constant-invalid', _assert('exit-code constant maybe'), 'SYNTAX', 4),
    ('relativity-not-accepted', _setup('file -rel-home a.txt = x'), 'SYNTAX', 2),
    ('relativity-unknown', _setup('file -rel-nope a.txt = x'), 'REJECT', 2),
    ('relativity-without-symbol', _last('file -rel'), 'SYNTAX', 4),
    ('act-two-programs', '[act]\n% true\n% true\n', 'SYNTAX'),
    ('act-missing-program', '[act]\n%\n', 'SYNTAX'),
    ('act-empty-file-actor', '[conf]\nactor = file % sh\n[act]\n', 'SYNTAX'),
    ('act-unbalanced-quote', "[act]\n% echo 'a\n", 'SYNTAX'),
    ('act-unclosed-parenthesis', '[act]\n( % true\n', 'SYNTAX'),
    ('act-empty-string-program', '[act]\n""\n', 'REJECT'),
    # ---- bad quoting, here documents -----------------------------------------------------------------------------------
    ('quote-unbalanced-soft', _setup('def string S = "a'), 'SYNTAX', 2),
    ('quote-unbalanced-hard', _setup("def string S = 'a"), 'SYNTAX', 2),
    ('quote-unbalanced-in-list', _setup("def list L = a 'b c"), 'SYNTAX', 2),
    ('quote-unbalanced-path', _setup("file 'a.txt = x"), 'SYNTAX', 2),
    ('here-doc-unterminated', '[setup]\nfile a.txt = <<EOF\nx\n' + ACT, 'SYNTAX', 2),
    ('here-doc-no-marker', _setup('file a.txt = <<'), 'SYNTAX', 2),
    ('here-doc-marker-quoted', '[setup]\nfile a.txt = <<\'EOF\'\nx\nEOF\n' + ACT, 'SYNTAX', 2),
    ('here-doc-text-after-marker', '[setup]\nfile a.txt = <<EOF x\nx\nEOF\n' + ACT, 'SYNTAX', 2),
    ('here-doc-end-marker-indented', '[setup]\nfile a.txt = <<EOF\nx\n EOF\n' + ACT, 'SYNTAX', 2),
    ('symbol-reference-unclosed', _setup('def string S = @[A'), None),
    ('description-unclosed', '[setup]\n`unclosed\nfile a.txt\n' + ACT, 'SYNTAX', 2),
    # ---- symbols: undefined, wrong type, bad names, definitions --------------------------------------------------------
    ('symbol-undefined', _setup('file a.txt = @[UNDEFINED]@'), 'VALIDATION', 2),
    ('symbol-undefined-by-name', _assert('exit-code UNDEFINED'), 'VALIDATION', 4),
    ('symbol-undefined-program', _setup('run @ UNDEFINED'), 'VALIDATION', 2),
    ('symbol-undefined-rel', _setup('file -rel UNDEFINED a.txt = x'), 'VALIDATION', 2),
    ('symbol-defined-later', '[setup]\nfile a.txt = @[S]@\ndef string S = x\n' + ACT, 'VALIDATION', 2),
    ('symbol-defined-twice', '[setup]\ndef string S = x\ndef string S = y\n' + ACT, 'VALIDATION', 3),
    ('symbol-defined-builtin', _setup('def string EXACTLY_HOME = x'), 'VALIDATION', 2),
    ('symbol-self-reference', _setup('def string S = @[S]@'), 'VALIDATION', 2),
    ('symbol-name-invalid', _setup('def string a-b = x'), 'REJECT', 2),
    ('symbol-name-quoted-blank', _setup('def string "a b" = x'), 'REJECT', 2),
    ('symbol-wrong-type-matcher', '[setup]\ndef text-matcher TM = is-empty\n' + _assert('exit-code TM'), 'VALIDATION', 6),
    ('symbol-wrong-type-string-as-matcher', '[setup]\ndef string S = x\n' + _assert('exit-code S'), 'VALIDATION', 6),
    ('symbol-wrong-type-rel', '[setup]\ndef string S = x\nfile -rel S a.txt = x\n' + ACT, 'VALIDATION', 3),
    ('symbol-wrong-type-program', '[setup]\ndef string S = x\nrun @ S\n' + ACT, 'VALIDATION', 3),
    ('symbol-wrong-type-in-string', '[setup]\ndef text-matcher TM = is-empty\nfile a.txt = @[TM]@\n' + ACT, 'VALIDATION', 3),
    ('symbol-wrong-type-transformer', '[setup]\ndef line-matcher LM = constant true\n' +
     _assert('stdout -transformed-by LM is-empty'), 'VALIDATION', 6),
    ('symbol-wrong-type-in-def-used', '[setup]\ndef string S = x\ndef text-matcher TM = num-lines S\n' + _assert('stdout TM'),
     'VALIDATION', 3),
    # ---- integers -----------------------------------------------------------------------------------------------------------
    ('int-zero-division', _assert('exit-code == 1/0'), 'VALIDATION', 4),
    ('int-floor-zero-division', _assert('exit-code == 1//0'), 'VALIDATION', 4),
    ('int-index-error', _assert('exit-code == [][0]'), 'VALIDATION', 4),
    ('int-key-error', _assert('exit-code == {}[1]'), 'VALIDATION', 4),
    ('int-attribute-error', _assert('exit-code == "(1).x"'), 'VALIDATION', 4),
    ('int-overflow-error', _assert('exit-code == 2.0**10000'), 'VALIDATION', 4),
    ('int-memory-error', _assert('exit-code == [0]*10**15'), 'VALIDATION', 4),
    ('int-recursion-error', _assert('exit-code == "(lambda f: f(f))(lambda f: f(f))"'), 'VALIDATION', 4),
    ('int-stop-iteration', _assert('exit-code == next(iter([]))'), 'VALIDATION', 4),
    ('int-lookup-error', _assert('exit-code == "\'\'.encode(\'nocodec\')"'), 'VALIDATION', 4),
    ('int-system-exit', _assert('exit-code == exit(3)'), 'VALIDATION', 4),
    ('int-name-error', _assert('exit-code == a'), 'VALIDATION', 4),
    ('int-syntax-error', _assert('exit-code == "1 +"'), 'VALIDATION', 4),
    ('int-type-error', _assert('exit-code == "1 + \'a\'"'), 'VALIDATION', 4),
    ('int-value-error', _assert('exit-code == "int(\'x\')"'), 'VALIDATION', 4),
    ('int-float', _assert('exit-code == 2.5'), 'VALIDATION', 4),
    ('int-string', _assert('exit-code == "\'a\'"'), 'VALIDATION', 4),
    ('int-none', _assert('exit-code == None'), 'VALIDATION', 4),
    ('int-empty', _assert('exit-code == ""'), 'REJECT', 4),
    ('int-tuple', _assert('exit-code == 1,2'), 'VALIDATION', 4),
    ('int-in-num-lines', _assert('stdout num-lines == 1/0'), 'VALIDATION', 4),
    ('int-in-line-num', _assert('stdout any line : line-num == [][0]'), 'VALIDATION', 4),
    ('int-in-num-files', PRE + _assert('dir-contents -rel-act d : num-files == {}[1]'), 'VALIDATION', 13),
    ('int-in-depth', PRE + _assert('dir-contents -rel-act d : -recursive -max-depth 1/0 is-empty'), 'VALIDATION', 13),
    ('int-in-negative-depth', PRE + _assert('dir-contents -rel-act d : -recursive -min-depth -1 is-empty'), 'VALIDATION', 13),
    ('int-in-timeout', _setup('timeout = 1/0'), 'VALIDATION', 2),
    ('int-in-timeout-float', _setup('timeout = 1.5'), 'VALIDATION', 2),
    ('int-in-symbol', '[setup]\ndef string N = 1/0\n' + _assert('exit-code == @[N]@'), 'VALIDATION', 6),
    ('int-in-used-def', '[setup]\ndef integer-matcher IM = == 1/0\n' + _assert('exit-code IM'), 'VALIDATION'),
    ('int-huge-passing', _assert('exit-code != 10**4300'), None),
    ('int-huge-failing', _assert('exit-code == 10**4300'), None),
    ('int-huge-num-lines', _assert('stdout num-lines == 10**5000'), None),
    ('int-huge-timeout', '[setup]\ntimeout = 10**400\nrun % true\n' + ACT, 'VALIDATION', 2),
    ('int-huge-timeout-act', '[setup]\ntimeout = 10**4300\n' + ACT, 'VALIDATION', 2),
    ('int-huge-negative-timeout', '[setup]\ntimeout = -10**4300\n' + ACT, None),
    ('int-system-exit-quit', _assert('exit-code == quit()'), 'VALIDATION', 4),
    ('int-system-exit-timeout', _setup('timeout = exit(3)'), 'VALIDATION', 2),
    # ---- ranges --------------------------------------------------------------------------------------------------------------
    ('range-three-parts', _assert('stdout -transformed-by filter -line-nums 1:2:3\n is-empty'), 'REJECT', 4),
    ('range-not-int', _assert('stdout -transformed-by filter -line-nums a\n is-empty'), 'VALIDATION', 4),
    ('range-zero-division', _assert('stdout -transformed-by filter -line-nums 1:1/0\n is-empty'), 'VALIDATION', 4),
    ('range-index-error', _assert('stdout -transformed-by filter -line-nums [][0]:\n is-empty'), 'VALIDATION', 4),
    ('range-only-colon', _assert('stdout -transformed-by filter -line-nums :\n is-empty'), 'REJECT', 4),
    ('range-missing', _assert('stdout -transformed-by filter -line-nums\n is-empty'), 'SYNTAX', 4),
    # ---- regular expressions and replacement strings ----------------------------------------------------------------------------
    ('regex-unclosed-group', _assert("stdout matches '('"), 'VALIDATION', 4),
    ('regex-unclosed-set', _assert("stdout matches '['"), 'VALIDATION', 4),
    ('regex-nothing-to-repeat', _assert("stdout matches '*a'"), 'VALIDATION', 4),
    ('regex-bad-range', _assert("stdout matches 'a{2,1}'"), 'VALIDATION', 4),
    ('regex-bad-group-name', _assert("stdout matches '(?P<'"), 'VALIDATION', 4),
    ('regex-bad-escape', _assert("stdout matches '\\\\'"), None),
    ('regex-lookbehind', _assert("stdout matches '(?<=a+)b'"), 'VALIDATION', 4),
    ('regex-too-deep', _assert("stdout matches '" + '(' * 1200 + 'a' + ')' * 1200 + "'"), 'VALIDATION', 4),
    ('regex-in-grep', _assert("stdout -transformed-by grep '(' is-empty"), 'VALIDATION', 4),
    ('regex-in-replace', _assert("stdout -transformed-by replace '(' x is-empty"), 'VALIDATION', 4),
    ('regex-in-line-matcher', _assert("stdout any line : contents matches '['"), 'VALIDATION', 4),
    ('regex-in-file-name', PRE + _assert("dir-contents -rel-act d : every file : name ~ '('"), 'VALIDATION', 13),
    ('regex-in-setup', _setup("file a.txt = 'abc' -transformed-by grep '*'"), 'VALIDATION', 2),
    ('regex-in-symbol', "[setup]\ndef string R = '('\n" + _assert('stdout matches @[R]@'), 'VALIDATION', 6),
    ('regex-in-used-def', "[setup]\ndef text-matcher TM = matches '('\n" + _assert('stdout TM'), 'VALIDATION'),
    ('regex-with-sandbox-reference', _assert('stdout matches "(@[EXACTLY_ACT]@"'), 'REJECT|HARD', 4),
    ('regex-with-sandbox-reference-hard-quoted', _assert("stdout matches '(@[EXACTLY_ACT]@'"), 'VALIDATION', 4),
    ('regex-with-home-reference', _assert('stdout any line : contents matches @[EXACTLY_HOME]@'), None),
    ('regex-with-home-reference-invalid', _assert('stdout any line : contents matches "(@[EXACTLY_HOME]@"'), 'REJECT|HARD', 4),
    ('regex-with-home-reference-setup', _setup('file a.txt = \'abc\' -transformed-by replace "@[EXACTLY_HOME]@" x'), None),
    ('replacement-invalid-group', _setup("file a.txt = 'abc' -transformed-by replace a '\\1'"), 'VALIDATION', 2),
    ('replacement-unterminated-group', _setup("file a.txt = 'abc' -transformed-by replace a '\\g<'"), 'VALIDATION', 2),
    ('replacement-unknown-name', _assert("stdout -transformed-by replace a '\\g<n>' is-empty"), 'VALIDATION', 4),
    ('replacement-bad-escape', _assert("stdout -transformed-by replace a '\\q' is-empty"), 'VALIDATION', 4),
    ('replacement-trailing-backslash', _assert("stdout -transformed-by replace a 'x\\' is-empty"), 'VALIDATION', 4),
    ('replacement-group-six', _assert("stdout -transformed-by replace '(a)(b)' '\\6' is-empty"), 'VALIDATION', 4),
    ('replacement-never-applied', _assert("stdout -transformed-by replace a '\\1' is-empty"), 'VALIDATION', 4),
    ('replacement-with-sandbox-reference', _assert("stdout -transformed-by replace \"@[EXACTLY_ACT]@\" '\\1' is-empty"),
     'REJECT|HARD', 4),
    ('replacement-in-used-def', "[setup]\ndef text-transformer TT = replace a '\\1'\n" +
     _assert('stdout -transformed-by TT is-empty'), 'VALIDATION'),
    # ---- glob patterns ---------------------------------------------------------------------------------------------------------
    ('glob-empty-path', PRE + _assert("dir-contents -rel-act d : every file : path ''"), None),
    ('glob-dot-path', PRE + _assert("dir-contents -rel-act d : every file : path '.'"), None),
    ('glob-unclosed-set', PRE + _assert("dir-contents -rel-act d : every file : name '['"), None),
    ('glob-missing', PRE + _assert('dir-contents -rel-act d : every file : name'), 'SYNTAX', 13),
    # ---- paths -----------------------------------------------------------------------------------------------------------------
    ('path-empty-act', '[conf]\nactor = command\n[act]\n""\n', 'REJECT'),
    ('path-missing-home-file', _setup('copy nofile'), 'VALIDATION', 2),
    ('path-missing-contents-of', _setup('file a.txt = -contents-of -rel-home nofile'), 'VALIDATION', 2),
    ('path-missing-including', '[setup]\nincluding nofile.xly\n', 'ACCESS'),
    ('path-including-directory', '[setup]\nincluding hd\n', 'ACCESS'),
    ('path-including-itself', '[setup]\nincluding t.case\n', 'ACCESS'),
    ('path-home-missing', '[conf]\nhome = nodir\n' + ACT, 'VALIDATION', 2),
    ('path-home-is-file', '[conf]\nhome = data.txt\n' + ACT, 'VALIDATION', 2),
    ('path-home-too-long', '[conf]\nhome = ' + LONG + '\n' + ACT, 'VALIDATION', 2),
    ('path-act-home-too-long', '[conf]\nact-home = ' + LONG + '\n' + ACT, 'VALIDATION', 2),
    ('path-too-long-file', _setup('file ' + LONG + ' = x'), 'REJECT|HARD', 2),
    ('path-too-long-dir', _setup('dir ' + LONG), 'REJECT|HARD', 2),
    ('path-too-long-cd', _setup('cd ' + LONG), 'REJECT|HARD', 2),
    ('path-too-long-copy-destination', _setup('copy data.txt ' + LONG), 'REJECT|HARD', 2),
    ('path-too-long-copy-source', _setup('copy ' + LONG), 'REJECT|HARD', 2),
    ('path-too-long-program', _setup('run ' + LONG), 'REJECT|HARD', 2),
    ('path-too-long-act', '[act]\n' + LONG + '\n', 'REJECT|HARD'),
    ('path-too-long-interpreter-source', '[conf]\nactor = file % sh\n[act]\n' + LONG + '\n', 'REJECT|HARD'),
    ('path-too-long-exists', _assert('exists ' + LONG), None),
    ('path-too-long-contents', _assert('contents ' + LONG + ' : is-empty'), 'REJECT|HARD', 4),
    ('path-too-long-including', '[setup]\nincluding ' + LONG + '\n', 'ACCESS'),
    ('path-too-long-existing-file-argument', _setup('run % echo -existing-file ' + LONG), 'REJECT|HARD', 2),
    ('path-too-long-stdin', _setup('stdin = -contents-of ' + LONG), 'REJECT|HARD', 2),
    ('path-too-long-dir-contents-of', _setup('dir nd = dir-contents-of ' + LONG), 'REJECT|HARD', 2),
    ('path-too-long-files-source', '[setup]\ndir nd = {\nfile ' + LONG + '\n}\n' + ACT, 'REJECT|HARD', 2),
    ('path-too-deep-files-source', '[setup]\ndir nd = {\nfile ' + 'a/' * 2100 + 'b\n}\n' + ACT, 'REJECT|HARD', 2),
    ('path-too-deep-cd', _setup('cd ' + 'a/' * 2100 + 'b'), 'REJECT|HARD', 2),
    ('copy-directory-into-itself', PRE + '[setup]\ncopy -rel-act d -rel-act d/x/y\n' + ACT, 'REJECT|HARD', 11),
    ('copy-act-directory-into-itself', '[setup]\ncopy -rel-act "" nd1/sub\n' + ACT, 'REJECT|HARD', 2),
    ('dir-contents-of-itself', PRE + '[setup]\ndir -rel-act d/x/y = dir-contents-of -rel-act d\n' + ACT, 'REJECT|HARD', 11),
    ('copy-directory-into-itself-one-level', PRE + '[setup]\ncopy -rel-act d -rel-act d/x\n' + ACT, None),
    # ---- NUL --------------------------------------------------------------------------------------------------------------------
    ('nul-in-file-name', _setup('file "a\\0b.txt" = x'), None),
    ('nul-in-program-argument', _setup('run % echo "a\\0b"'), None),
    ('nul-in-including', '[setup]\nincluding "a\\0"\n', None),
    ('nul-in-cd', _setup('cd "a\\0"'), None),
    ('nul-in-env-value', '[setup]\nenv A = "a\\0b"\nrun % true\n' + ACT, None),
    ('nul-in-contents', _setup('file a.txt = "a\\0b"'), None),
    # ---- cleanup after a failure (KF-C18-5) ------------------------------------------------------------------------------------
    ('cleanup-refers-to-skipped-definition', '[setup]\nrun % false\ndef list L = a b\n' + ACT + '[cleanup]\n% echo @[L]@\n', None),
    ('cleanup-refers-to-skipped-definition-assert', ACT + '[assert]\nexit-code == 7\ndef string S = a\n[cleanup]\n% echo @[S]@\n',
     None),
    # ---- text that is not a mistake but unusual --------------------------------------------------------------------------------
    ('empty-file', '', None),
    ('only-blank-lines', '\n\n  \n', None),
    ('only-comment', '# nothing\n', None),
    ('only-headers', '[conf]\n[setup]\n[act]\n[before-assert]\n[assert]\n[cleanup]\n', None),
    ('bom', chr(0xfeff) + ACT, None),
    ('crlf', ACT.replace('\n', '\r\n'), None),
    ('no-final-newline', '[act]\n% true', None),
    ('form-feed-line', '[act]\n% true\n\x0c\n[assert]\nexit-code == 0\n', None),
    ('line-separator-char', '[setup]\nfile a.txt = a' + chr(0x2028) + 'b\n' + ACT, None),
    ('backslash-at-end', '[setup]\ndef list L = a \\\n' + ACT, None),
    ('backslash-at-eof', '[act]\n% echo a \\', None),
    ('timeout-negative', '[setup]\ntimeout = -1\n' + ACT, None),
    ('timeout-zero-then-process', '[setup]\ntimeout = 0\nrun % true\n' + ACT, None),
    ('env-empty-name', '[setup]\nenv "" = x\nrun % true\n' + ACT, None),
    ('env-name-with-equals', '[setup]\nenv "A=B" = x\nrun % true\n' + ACT, None),
    ('unset-undefined-variable', _setup('env unset NO_SUCH_VARIABLE_XYZ'), None),
]


def entries():
    """-> list of {'name', 'files', 'expect', 'line'}"""
    out = []
    for e in CORPUS:
        name, text, expect = e[0], e[1], e[2]
        files = dict(text) if isinstance(text, dict) else {'t.case': text}
        files = {k: v.replace('<PRE>\n', PRE).replace('\\0', '\x00') for k, v in files.items()}
        out.append({'name': name, 'files': files, 'expect': expect, 'line': e[3] if len(e) > 3 else None})
    return out
