"""Generators of TEXT-MATCHER / TEXT-TRANSFORMER / LINE-MATCHER / INTEGER-MATCHER expressions (the JSON AST of
``vlib/ref/text.py``) and the renderer from an AST to Exactly's DSL syntax.

Generation is *steered by the text the expression will be applied to* (operands of ``equals`` are equal or close
to it, integers are near the number of lines, regexes are derived from its lines) so that verdicts are balanced.
For that the generators evaluate sub-expressions with the reference evaluator - this only shapes the
distribution, it decides nothing.  Nothing here imports exactly_lib.

Rendering respects DESIGN.md 2.10: operators and parentheses are separate tokens; arguments documented as "may
not contain infix operators (unless inside parentheses)" get parentheses when they are compound; a `-line-nums`
range list and a `:>` string run to END-OF-LINE and a here-document start is the last token on its line - what
follows goes on the next line (permitted: the parser is in the middle of an expression, or inside parentheses);
when the next token would be `&&` / `||` (a line break before an infix operator is not a documented layout) the
string is written in quoted form instead.
"""
import random
import re

from hypothesis import strategies as st

from vlib.gen import c05_regex, c05_text
from vlib.ref import text as ref

_pct = st.integers(0, 99)
_bool = st.booleans()


def _pick(draw, weighted):
    """weighted: list of (name, weight)"""
    total = sum(w for _, w in weighted)
    k = draw(st.integers(0, total - 1))
    for name, w in weighted:
        if k < w:
            return name
        k -= w
    raise AssertionError


# ---- INTEGER and INTEGER-MATCHER ---------------------------------------------------------------------------
_OPS = ['==', '!=', '<', '<=', '>', '>=']
_op = st.sampled_from(_OPS)


def draw_int(draw, hint: int):
    v = max(0, hint + draw(st.sampled_from([-2, -1, -1, 0, 0, 0, 0, 1, 1, 2])))
    k = draw(_pct)
    if k < 12:
        v = draw(st.integers(0, 7))
    elif k < 18:
        v = draw(st.integers(-3, 0))  # no line number / line count is negative: the comparison is still defined
    form = draw(_pct)
    if v < 0:
        src = str(v) if form < 70 else '0%d' % v if form < 85 else "'%d'" % v
    elif form < 80:
        src = str(v)
    elif form < 88:
        src = '%d+1' % (v - 1) if v >= 1 else '1-1'
    elif form < 94:
        src = '%d-1' % (v + 1)
    else:
        src = "'%d + 0'" % v  # INTEGER is a STRING: quoted, with blanks
    return {'v': v, 'src': src}


def draw_im(draw, hint: int, depth: int = 0):
    kind = _pick(draw, [('cmp', 70), ('const', 3), ('not', 9 if depth < 2 else 0), ('and', 9 if depth < 2 else 0),
                        ('or', 9 if depth < 2 else 0)])
    if kind == 'cmp':
        return ['cmp', draw(_op), draw_int(draw, hint)]
    if kind == 'const':
        return ['const', draw(_bool)]
    if kind == 'not':
        return ['not', draw_im(draw, hint, depth + 1)]
    return [kind, draw_im(draw, hint, depth + 1), draw_im(draw, hint, depth + 1)]


# ---- LINE-MATCHER --------------------------------------------------------------------------------------------
def draw_lm(draw, text: str, depth: int, budget):
    """text: the text whose lines the matcher will see."""
    models = ref.line_models(text)
    deep = depth >= 3 or budget[0] <= 0
    kind = _pick(draw, [('contents', 45 if depth < 4 else 0), ('line-num', 30), ('const', 3), ('not', 0 if deep else 8),
                        ('and', 0 if deep else 7), ('or', 0 if deep else 7)])
    budget[0] -= 1
    if kind == 'contents':
        line = models[draw(st.integers(0, len(models) - 1))][1] if models else ''
        return ['contents', draw_tm(draw, line, depth + 1, budget, line_model=True)]
    if kind == 'line-num':
        n = len(models)
        hint = draw(st.integers(1, n)) if n else 1
        return ['line-num', draw_im(draw, hint)]
    if kind == 'const':
        return ['const', draw(_bool)]
    if kind == 'not':
        return ['not', draw_lm(draw, text, depth + 1, budget)]
    return [kind, draw_lm(draw, text, depth + 1, budget), draw_lm(draw, text, depth + 1, budget)]


# ---- TEXT-SOURCE (operand of equals) ---------------------------------------------------------------------------
def draw_src(draw, text: str, depth: int, budget):
    expected = c05_text.draw_similar_text(draw, text)
    tr = None
    if draw(_pct) < 12 and depth < 3:
        # a transformed source: choose the transformer first, the source text stays close to the model
        tr = draw_tr(draw, expected, depth + 2, budget, simple_only=True)
    form = _pick(draw, [('str', 50), ('here', 20), ('file', 30), ('prog', 7)])
    if form == 'here' and not (expected == '' or expected.endswith('\n')):
        form = 'str'
    ret = {'text': expected, 'form': form, 'tr': tr}
    if form == 'prog':
        ret['shell'] = draw(_bool)
    return ret


# ---- TEXT-MATCHER ----------------------------------------------------------------------------------------------
def draw_tm(draw, text: str, depth: int, budget, line_model: bool = False):
    """text: the text the matcher will be applied to (a hint only).  budget: [remaining nodes]."""
    deep = depth >= 3 or budget[0] <= 0
    boost = 2 if depth == 0 else 1  # fewer single-primitive expressions at the top
    # (Hypothesis draws the ends of an integer range more often than the rest: the first and the last entry with a
    # non-zero weight should be kinds that are worth it)
    kind = _pick(draw, [
        ('equals', 22), ('is-empty', 5), ('num-lines', 6 if line_model else 12),
        ('every', 0 if depth >= 4 else 2 if line_model else 9),
        ('any', 0 if depth >= 4 else 2 if line_model else 9), ('const', 2),
        ('on', 0 if deep else 22 * boost), ('not', 0 if deep else 9 * boost), ('and', 0 if deep else 10 * boost),
        ('or', 0 if deep else 10 * boost), ('matches', 20),
    ])
    budget[0] -= 1
    if kind == 'is-empty':
        return ['is-empty']
    if kind == 'equals':
        return ['equals', draw_src(draw, text, depth, budget)]
    if kind == 'matches':
        full = draw(_pct) < 40
        return ['matches', full, c05_regex.draw_regex(draw, text, full)]
    if kind == 'num-lines':
        return ['num-lines', draw_im(draw, ref.num_lines(text))]
    if kind in ('every', 'any'):
        return [kind, draw_lm(draw, text, depth + 1, budget)]
    if kind == 'const':
        return ['const', draw(_bool)]
    if kind == 'on':
        tr = draw_tr(draw, text, depth + 1, budget)
        return ['on', tr, draw_tm(draw, ref.transform(tr, text), depth + 1, budget, line_model)]
    if kind == 'not':
        return ['not', draw_tm(draw, text, depth + 1, budget, line_model)]
    # balance: a conjunction of two random operands is mostly false, a disjunction mostly true - negate an
    # operand that decides the outcome on its own about half of the time
    operands = []
    for _ in range(2):
        x = draw_tm(draw, text, depth + 1, budget, line_model)
        if ref.eval_tm(x, text) != (kind == 'and') and draw(_bool):
            x = x[1] if x[0] == 'not' else ['not', x]
        operands.append(x)
    return [kind] + operands


# ---- TEXT-TRANSFORMER ------------------------------------------------------------------------------------------
_strip_variant = st.sampled_from([None, None, 'space', 'nl', 'nl'])
_case = st.sampled_from(['lower', 'upper'])


def draw_ranges(draw, n_lines: int):
    def bound():
        b = draw(st.integers(-(n_lines + 2), n_lines + 2))
        return b

    ranges = []
    for _ in range(draw(st.sampled_from([1, 1, 1, 2, 2, 3]))):
        form = draw(st.sampled_from(['single', 'upto', 'from', 'range']))
        if form == 'single':
            ranges.append([bound()])
        elif form == 'upto':
            ranges.append([None, bound()])
        elif form == 'from':
            ranges.append([bound(), None])
        else:
            ranges.append([bound(), bound()])
    return ranges


def draw_tr(draw, text: str, depth: int, budget, simple_only: bool = False):
    deep = depth >= 3 or budget[0] <= 0 or simple_only
    kind = _pick(draw, [('replace', 30), ('strip', 16), ('char-case', 9), ('filter', 0 if simple_only else 14),
                        ('filter-nums', 7), ('identity', 3),
                        ('seq', 0 if deep else 45 if depth == 0 else 16), ('grep', 10)])
    budget[0] -= 1
    if kind == 'replace':
        rx = c05_regex.draw_regex(draw, text)
        at = None
        if draw(_pct) < 25 and not simple_only and depth < 3:
            at = draw_lm(draw, text, depth + 1, budget)
        return ['replace', {'pnl': draw(_pct) < 40, 'at': at, 'rx': rx,
                            'repl': c05_regex.draw_template(draw, rx['groups'])}]
    if kind == 'strip':
        return ['strip', draw(_strip_variant)]
    if kind == 'char-case':
        return ['char-case', draw(_case)]
    if kind == 'filter':
        return ['filter', draw_lm(draw, text, depth + 1, budget)]
    if kind == 'filter-nums':
        return ['filter-nums', draw_ranges(draw, ref.num_lines(text))]
    if kind == 'grep':
        full = draw(_pct) < 35
        lines = ref.line_models(text)
        hint = lines[draw(st.integers(0, len(lines) - 1))][1] if full and lines else text
        return ['grep', full, c05_regex.draw_regex(draw, hint, full)]
    if kind == 'identity':
        return ['identity']
    parts = []
    cur = text
    for _ in range(draw(st.sampled_from([2, 2, 2, 3]))):
        t = draw_tr(draw, cur, depth + 1, budget)
        parts.append(t)
        cur = ref.transform(t, cur)
    return ['seq'] + parts


NODE_BUDGET = 8


@st.composite
def matcher_on_text(draw, max_lines=6, node_budget=NODE_BUDGET):
    """-> (text, TM)"""
    text = c05_text.draw_text(draw, max_lines)
    return text, draw_tm(draw, text, 0, [node_budget])


@st.composite
def transformer_on_text(draw, max_lines=6, node_budget=NODE_BUDGET):
    """-> (text, TR)"""
    text = c05_text.draw_text(draw, max_lines)
    return text, draw_tr(draw, text, 0, [node_budget])


# =================================================================================================================
# Renderer
# =================================================================================================================
class NL:
    """What follows must start on a new line."""


class Here:
    def __init__(self, text):
        self.text = text


class Rest:
    def __init__(self, text):
        self.text = text


_NAKED = re.compile(r'[A-Za-z][A-Za-z0-9_.]*\Z')
_INFIX = ('&&', '||', '|')
HERE_MARKER = 'EOF'


def hard_quoted(s: str) -> str:
    if "'" in s:
        raise ValueError('text with a hard quote cannot be rendered by the C05 renderer: %r' % s)
    return "'" + s + "'"


class Renderer:
    """Renders ASTs to token lists; ``assemble`` turns tokens into source text.

    ``style`` (an int) seeds the choices among equivalent spellings, so that rendering is a pure function of
    (AST, style).  ``files`` collects the files (name -> text) referenced by ``-contents-of -rel-home``."""

    def __init__(self, style: int = 0, file_prefix: str = 'e'):
        self._rnd = random.Random(style)
        self.plain = (style == 0)
        self.files = {}
        self._file_prefix = file_prefix

    def _p(self, pct: int) -> bool:
        r = self._rnd.randrange(100)
        return (not self.plain) and r < pct

    # -- strings
    def string(self, s: str, allow_rest: bool = False):
        if _NAKED.match(s) and self._p(15):
            return s
        if allow_rest and s != '' and '\n' not in s and s == s.strip(' \t') and self._p(10):
            return Rest(s)
        if '"' not in s and '\\' not in s and self._p(20):
            return '"' + s + '"'
        return hard_quoted(s)

    def regex(self, rx, allow_rest: bool = False):
        toks = []
        if rx.get('ic'):
            toks.append('-ignore-case')
        toks.append(self.string(rx['pat'], allow_rest))
        return toks

    def integer(self, x):
        return x['src'] if isinstance(x, dict) else str(x)

    # -- generic logic
    def _logic(self, node, render_operand, simple: bool):
        tag = node[0]
        if tag == 'const':
            return ['constant', 'true' if node[1] else 'false']
        if tag == 'not':
            child = node[1]
            toks = ['!'] + render_operand(child, True)
            return toks
        op = '&&' if tag == 'and' else '||'
        toks = []
        for i, child in enumerate(node[1:]):
            if i:
                toks.append(op)
            needs = child[0] in ('and', 'or') and not (tag == 'or' and child[0] == 'and' and not self._p(50))
            toks += render_operand(child, needs)
        if simple:
            toks = ['('] + toks + [')']
        return toks

    def _maybe_paren(self, toks):
        if self._p(6):
            return ['('] + toks + [')']
        return toks

    # -- integer matcher
    def im(self, node, simple: bool):
        if node[0] == 'cmp':
            return self._maybe_paren([node[1], self.integer(node[2])])
        return self._logic(node, self.im, simple)

    # -- line matcher
    def lm(self, node, simple: bool):
        tag = node[0]
        if tag == 'contents':
            return self._maybe_paren(['contents'] + self.tm(node[1], True))
        if tag == 'line-num':
            return self._maybe_paren(['line-num'] + self.im(node[1], True))
        return self._logic(node, self.lm, simple)

    # -- text source
    def src(self, s):
        form = s['form']
        text = s['text']
        if form == 'file':
            name = '%s%d.txt' % (self._file_prefix, len(self.files) + 1)
            self.files[name] = text
            toks = ['-contents-of', '-rel-home', name]
        elif form == 'prog':
            # (-stdout-from|-stderr-from) PROGRAM: a program that prints the file.  The program's arguments run to
            # END-OF-LINE; "-transformed-by T" on the next line is the program's own transformation of its output,
            # which "is applied to stdout"; the closing parenthesis goes on a line of its own
            name = '%s%d.txt' % (self._file_prefix, len(self.files) + 1)
            self.files[name] = text
            toks = ['-stdout-from', '$' if s.get('shell') else '%', 'cat', '{HOME}/' + name, NL]
            if s.get('tr') is not None:
                toks += ['-transformed-by'] + self.tr(s['tr'], True) + [NL]
            return ['('] + toks + [')']
        elif form == 'here':
            toks = [Here(text)]
        else:
            toks = [self.string(text, allow_rest=s.get('tr') is None)]
        if s.get('tr') is not None:
            toks += ['-transformed-by'] + self.tr(s['tr'], True)
            if 'filter-nums' in ref.tags(s['tr']) or isinstance(toks[0], Here) or self._p(40):
                toks = ['('] + toks + [')']
        return toks

    # -- text matcher
    def tm(self, node, simple: bool):
        tag = node[0]
        if tag == 'is-empty':
            return self._maybe_paren(['is-empty'])
        if tag == 'equals':
            return self._maybe_paren(['==' if self._p(15) else 'equals'] + self.src(node[1]))
        if tag == 'matches':
            toks = ['~' if self._p(15) else 'matches']
            if node[1]:
                toks.append('-full')
            return self._maybe_paren(toks + self.regex(node[2], allow_rest=True))
        if tag == 'num-lines':
            return self._maybe_paren(['num-lines'] + self.im(node[1], True))
        if tag in ('every', 'any'):
            return self._maybe_paren([tag, 'line', ':'] + self.lm(node[1], True))
        if tag == 'on':
            tr_toks = self.tr(node[1], True)
            tm_toks = self.tm(node[2], True)
            if tm_toks[0] == '-transformed-by' and tr_toks[-1] != ')' and 'equals' in ref.tags(node[1]):
                # "... equals 'x' -transformed-by ..." would attach the transformation to the TEXT-SOURCE 'x'
                tr_toks = ['('] + tr_toks + [')']
            return self._maybe_paren(['-transformed-by'] + tr_toks + tm_toks)
        return self._logic(node, self.tm, simple)

    # -- text transformer
    def tr(self, node, simple: bool):
        tag = node[0]
        if tag == 'identity':
            return ['identity']
        if tag == 'strip':
            return ['strip'] + ({None: [], 'space': ['-trailing-space'], 'nl': ['-trailing-new-lines']}[node[1]])
        if tag == 'char-case':
            return ['char-case', '-to-lower' if node[1] == 'lower' else '-to-upper']
        if tag == 'filter':
            return ['filter'] + self.lm(node[1], True)
        if tag == 'filter-nums':
            return ['filter', '-line-nums'] + [self.range(r) for r in node[1]] + [NL]
        if tag == 'grep':
            return ['grep'] + (['-full'] if node[1] else []) + self.regex(node[2], allow_rest=True)
        if tag == 'replace':
            a = node[1]
            toks = ['replace']
            if a.get('at') is not None:
                toks += ['-at'] + self.lm(a['at'], True)
            if a.get('pnl'):
                toks.append('-preserve-new-lines')
            return toks + self.regex(a['rx']) + [self.string(a['repl'])]
        if tag == 'seq':
            toks = []
            for i, t in enumerate(node[1:]):
                if i:
                    toks.append('|')
                toks += self.tr(t, t[0] == 'seq')
            if simple:
                toks = ['('] + toks + [')']
            return toks
        raise ValueError('unknown transformer %r' % (tag,))

    @staticmethod
    def range(r):
        if len(r) == 1:
            return str(r[0])
        lo, hi = r
        return '%s:%s' % ('' if lo is None else lo, '' if hi is None else hi)


def assemble(tokens, indent: str = '    ') -> str:
    """Tokens -> source text (no trailing newline unless the last token demands one)."""
    out = []
    depth = 0
    at_line_start = False
    n = len(tokens)
    for i, t in enumerate(tokens):
        nxt = tokens[i + 1] if i + 1 < n else None
        if t is NL:
            if nxt is not None and not at_line_start:
                out.append('\n' + indent)
                at_line_start = True
            continue
        if isinstance(t, (Here, Rest)):
            # a line break directly before && / || is not among the layouts documented as permitted (and is in
            # fact rejected in some positions even inside parentheses); before | only inside parentheses
            infix_next = isinstance(nxt, str) and (nxt in ('&&', '||') or (nxt == '|' and depth == 0))
            if infix_next:
                t = hard_quoted(t.text)
            elif isinstance(t, Rest):
                if out and not at_line_start:
                    out.append(' ')
                out.append(':> ' + t.text)
                if nxt is not None:
                    out.append('\n' + indent)
                    at_line_start = True
                continue
            else:
                if out and not at_line_start:
                    out.append(' ')
                out.append('<<%s\n%s%s\n' % (HERE_MARKER, t.text, HERE_MARKER))
                if nxt is not None:
                    out.append(indent)
                at_line_start = True
                continue
        if t == '(':
            depth += 1
        elif t == ')':
            depth -= 1
        if out and not at_line_start:
            out.append(' ')
        out.append(t)
        at_line_start = False
    return ''.join(out)


def render_tm(node, style: int = 0, file_prefix: str = 'e', after_program: bool = False, simple: bool = False):
    """-> (source text of the TEXT-MATCHER, files referenced: name -> text)

    simple: the matcher is rendered for a position that "may not contain infix operators (unless inside
    parentheses)" (e.g. the argument of the FILE-MATCHER `contents`).

    after_program: the matcher follows a PROGRAM (on the next line): a matcher that begins with -transformed-by is
    put inside parentheses, since "-transformed-by T" on the line after a PROGRAM is the program's own
    TRANSFORMATION-OF-OUTPUT (help syntax PROGRAM).  Done on the token list, so that a `:>` string / here-document
    at the end of the matcher is followed by a line break before the ")"."""
    r = Renderer(style, file_prefix)
    toks = r.tm(node, simple)
    if after_program and toks[0] == '-transformed-by':
        toks = ['('] + toks + [')']
    return assemble(toks), r.files


def render_tr(node, style: int = 0, file_prefix: str = 'e', simple: bool = True):
    """-> (source text of the TEXT-TRANSFORMER, files); simple (default): for a "no infix operators" position;
    not simple: a full expression (the value of `def text-transformer`)"""
    r = Renderer(style, file_prefix)
    if not simple and node[0] == 'seq' and 'filter-nums' in ref.tags(node):
        # a range list runs to END-OF-LINE and a line break before `|` is permitted only inside parentheses
        simple = True
    return assemble(r.tr(node, simple)), r.files
