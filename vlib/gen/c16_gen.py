"""C16 generators: suite hierarchies as a JSON-able description of a directory tree.

case = {'root': argument given to `exactly suite`, 'nodes': [[relpath, kind, payload], ...], 'meta': {...}}
(see vlib/ref/c16_suite.py for the node kinds).  `meta` records what the generator intended (labels only - the oracle
is computed from `nodes` by the reference model).  Independent of the code under test.

Construction rules (sound before complete):
* every case file is listed by exactly one line of exactly one suite: plain names are `c<N>.case`, every glob line owns
  a unique tag (`g<N>` ...) that no other file name contains; decoy files sit next to the matches and must NOT match;
* names are made of [A-Za-z0-9_.] only, never start with '.', a listing line never starts with '[' and holds one
  unquoted token; the style plain_quoted adds lines that are one quoted token whose name contains blanks and the
  characters * ? [ ] ! (a plain file name: see vlib/ref/c16_suite.py QuotedName);
* symbolic links are siblings of their targets (so that "relative the location of the suite file" has one reading);
* `**` is only used below directories that contain no directory links;
* faults (missing file, double inclusion, cycle, syntax error, undecodable suite file, directory as case, bad command
  line) are added to a
  hierarchy that is valid without them; at most one fault per hierarchy.
"""
import posixpath

from hypothesis import strategies as st

SUCCESS_OUTCOMES = ['PASS', 'SKIPPED', 'XFAIL']
EXECUTING_FAILURES = ['FAIL', 'XPASS', 'HARD_ERROR']
NON_EXECUTING_FAILURES = ['VALIDATION_ERROR', 'SYNTAX_ERROR', 'ACT_SYNTAX_ERROR', 'FILE_ACCESS_ERROR', 'UNDECODABLE']
MIXED_OUTCOMES = (['PASS', 'PASS', 'PASS', 'SKIPPED', 'XFAIL', 'XFAIL'] + EXECUTING_FAILURES + ['FAIL', 'XPASS']
                  + NON_EXECUTING_FAILURES)
N_VARIANTS = {'PASS': 2, 'FAIL': 2, 'XFAIL': 2, 'XPASS': 1, 'SKIPPED': 2, 'VALIDATION_ERROR': 3, 'HARD_ERROR': 3,
              'SYNTAX_ERROR': 3, 'ACT_SYNTAX_ERROR': 2, 'FILE_ACCESS_ERROR': 1, 'UNDECODABLE': 2,
              'PRE_PROCESS_ERROR': 1, 'DIR': 1}

PP_SH = 'case "$1" in *ppf*.case) exit 1;; esac\ncat "$1"\n'
PP_LINE = 'preprocessor = sh {HOME}/pp.sh'

FAULTS = ['missing_case', 'missing_case_link', 'missing_suite', 'dir_no_default', 'double', 'double', 'double',
          'cycle_root', 'cycle_up', 'syntax_section', 'syntax_tokens', 'syntax_instruction', 'syntax_instruction',
          'case_dir', 'bad_root', 'bad_root', 'suite_undecodable']


# ---- contents of a case file ---------------------------------------------------------------------------------
def case_file_content(payload):
    """-> ('dir',) | ('text', str) | ('bytes', prefix bytes, str)   ({MARKERS} still to be substituted)"""
    cid, o, v = payload['id'], payload['o'], payload.get('v', 0)
    mark = '$ echo %s >> {MARKERS}' % cid
    act = ['[act]', mark]
    fail_assert = ['[assert]', 'exit-code == 1'] if v == 0 else ['[assert]', 'stdout ! is-empty']
    if o == 'DIR':
        return ('dir',)
    if o == 'PASS':
        lines = act + (['[assert]', 'exit-code == 0'] if v else [])
    elif o == 'FAIL':
        lines = act + fail_assert
    elif o == 'XFAIL':
        lines = ['[conf]', 'status = FAIL'] + act + fail_assert
    elif o == 'XPASS':
        lines = ['[conf]', 'status = FAIL'] + act
    elif o == 'SKIPPED':
        lines = ['[conf]', 'status = SKIP'] + act + (fail_assert if v else [])
    elif o == 'VALIDATION_ERROR':
        if v == 0:
            lines = ['[setup]', 'copy missing-file'] + act
        elif v == 1:
            lines = act + ['[assert]', 'def string X = @[UNDEFINED_SYMBOL]@']
        else:
            lines = ['[conf]', 'home = no-such-dir'] + act
    elif o == 'HARD_ERROR':
        if v == 0:
            lines = act + ['[cleanup]', '$ exit 3']
        elif v == 1:
            lines = ['[setup]', mark, '[act]', '% no-such-program-xyz-verif']
        else:
            lines = act + ['[assert]', 'contents missing-file : is-empty']
    elif o == 'SYNTAX_ERROR':
        if v == 0:
            lines = ['[setup]', 'no-such-instruction arg'] + act
        elif v == 1:
            lines = act + ['[assert]', 'dir a b']
        else:
            lines = act + ['[nosuchphase]', 'x']
    elif o == 'ACT_SYNTAX_ERROR':
        lines = ['[act]', mark, '% second-line'] if v == 0 else ['[setup]', mark, '[act]', '$ true', '$ true']
    elif o == 'FILE_ACCESS_ERROR':
        lines = ['[setup]', 'including missing.xly'] + act
    elif o == 'PRE_PROCESS_ERROR':
        lines = act
    elif o == 'UNDECODABLE':
        return ('bytes', b'\xff\xfe' if v == 0 else b'# \xe9\xe8 \x80\n', '\n'.join(act) + '\n')
    else:
        raise ValueError(o)
    return ('text', '\n'.join(lines) + '\n')


# ---- the hierarchy builder -------------------------------------------------------------------------------------
def _spread(pairs):
    """weighted list with the values interleaved evenly.  (Hypothesis' mutator copies choice indices between
    sampled_from draws, which favours low indices: blocks of equal values would distort the weights.)"""
    items = []
    for k, (v, n) in enumerate(pairs):
        for i in range(n):
            items.append(((i + 0.5) / n, k, v))
    items.sort(key=lambda t: (t[0], t[1]))
    return [v for _, _, v in items]


def _w(pairs):
    return st.sampled_from(_spread(pairs))


_CASE_LINE_STYLES = _w([('plain', 8), ('plain_quoted', 2), ('plain_sub', 2), ('plain_dot', 1), ('plain_link', 1), ('glob_prefix', 4), ('glob_q', 2),
                        ('glob_class', 2), ('glob_dir', 3), ('glob_rec', 2), ('glob_rec_dir', 2), ('glob_up', 1),
                        ('glob_empty', 1), ('glob_mid', 1)])
_SUB_STYLES = _w([('file', 6), ('file_subdir', 3), ('dirref', 4), ('dirref_explicit', 1), ('glob', 3), ('glob_dirs', 1),
                  ('glob_star_dir', 1), ('symlink', 2), ('dirlink', 2), ('spelled_dot', 1), ('spelled_dotdot', 2)])
_SUFFIX_POOLS = [['a', 'b', 'c', 'B', '0', 'ab', '_', 'Z'], ['b', 'a', '1', 'A', 'aa', 'c'], ['x', 'X', 'y', '9', '_a']]
_DIR_NAMES = ['a', 'b', 'ab', 'A', 'x1', 'b_']


class _Builder:
    def __init__(self, draw):
        self.draw = draw
        self.nodes = []
        self.n = 0
        self.suites = []
        self.mood = 'mixed'
        self.dirs_with_links = set()
        self.rec_roots = set()
        self.listed = []
        self.total_budget = 12
        self.has_pp = False

    def chance(self, k, n):
        """True with probability k/n (st.integers is not uniform)"""
        return self.draw(_w([(False, n - k), (True, k)]))

    def uid(self):
        self.n += 1
        return self.n

    def add(self, path, kind, payload):
        self.nodes.append([posixpath.normpath(path), kind, payload])

    def outcome(self, allow_pp=False):
        d = self.draw
        if self.mood == 'success':
            o = d(st.sampled_from(SUCCESS_OUTCOMES + ['PASS']))
        elif self.mood == 'one_bad':
            o = d(st.sampled_from(SUCCESS_OUTCOMES + ['PASS']))
        elif allow_pp and self.chance(2, 5):
            o = 'PRE_PROCESS_ERROR'
        else:
            o = d(st.sampled_from(MIXED_OUTCOMES))
        return o

    def add_case(self, path, o=None, allow_pp=False, decoy=False):
        o = o or self.outcome(allow_pp)
        cid = 'c%d' % self.uid()
        v = self.draw(st.integers(0, N_VARIANTS[o] - 1))
        self.add(path, 'case', {'id': cid, 'o': o, 'v': v})
        if not decoy:
            self.listed.append(self.nodes[-1])
        return o

    # -- one suite ------------------------------------------------------------------------------------------
    def gen_suite(self, path, depth, parent):
        d = self.draw
        rec = {'path': path, 'dir': posixpath.dirname(path), 'depth': depth, 'parent': parent, 'cases': [],
               'suites': [], 'extra': [], 'idx': len(self.suites), 'pp': False}
        self.suites.append(rec)
        sdir = rec['dir']
        if self.chance(1, 10):
            rec['pp'] = True
            rec['extra'].append(('conf', PP_LINE))
            self.has_pp = True
        elif self.chance(1, 8):
            rec['extra'].append(d(st.sampled_from([('setup', 'env C16_VAR = v1'), ('setup', 'def string C16_SYM = s1'),
                                                   ('cleanup', 'env C16_VAR = v2'),
                                                   ('assert', 'def string C16_SYM = s2')])))
        # --- cases
        n_lines = d(_w([(0, 2), (1, 5), (2, 5), (3, 2)])) if depth > 1 else d(_w([(0, 2), (1, 4), (2, 5), (3, 3)]))
        budget = 4
        if rec['pp'] and self.mood == 'mixed' and self.chance(2, 3):
            name = 'ppf%d.case' % self.uid()
            self.add_case(posixpath.join(sdir, name), 'PRE_PROCESS_ERROR')
            rec['cases'].append(name)
            budget -= 1
            self.total_budget -= 1
        for _ in range(n_lines):
            if budget <= 0 or self.total_budget <= 0:
                break
            used = self.case_line(rec, sdir, min(budget, self.total_budget))
            budget -= used
            self.total_budget -= used
        # --- sub suites
        if depth < 3:
            n_subs = d(_w([(0, 3), (1, 7), (2, 6), (3, 2)])) if depth == 1 else d(_w([(0, 11), (1, 6), (2, 2), (3, 1)]))
            for _ in range(n_subs):
                self.sub_suite(rec, sdir, depth)
        return rec

    def case_line(self, rec, sdir, budget):
        d = self.draw
        style = d(_CASE_LINE_STYLES)
        j = posixpath.join
        n = self.uid()
        if style == 'glob_up' and sdir == '':
            style = 'glob_dir'
        if style in ('glob_rec', 'glob_rec_dir') and sdir in self.dirs_with_links:
            style = 'glob_prefix'
        if style == 'plain':
            o = self.outcome(rec['pp'])
            name = ('ppf%d.case' if o == 'PRE_PROCESS_ERROR' else 'c%d.case') % n
            self.add_case(j(sdir, name), o)
            rec['cases'].append(name)
            return 1
        if style == 'plain_quoted':
            # one quoted token = the file of exactly that name; a sibling that the name, read as a pattern, would
            # match is not listed and must not run
            form, decoy = d(st.sampled_from([('o%d[1].case', 'o%d1.case'), ('o%d?.case', 'o%dx.case'),
                                             ('o%d*.case', 'o%dab.case'), ('o%d [!a].case', 'o%d b.case'),
                                             ('o %d.case', None), ('o%d[1].case', None), ('*o%d.case', 'xo%d.case')]))
            self.add_case(j(sdir, form % n))
            if decoy is not None:
                self.add_case(j(sdir, decoy % n), d(st.sampled_from(['FAIL', 'PASS'])), decoy=True)
            q = d(st.sampled_from(["'", '"']))
            rec['cases'].append(q + (form % n) + q)
            return 1
        if style == 'plain_sub':
            name = 'k%d/c%d.case' % (n, n)
            self.add_case(j(sdir, name))
            rec['cases'].append(name)
            return 1
        if style == 'plain_link':
            self.add_case(j(sdir, 'f%d.case' % n))
            self.add(j(sdir, 'c%d.case' % n), 'link', 'f%d.case' % n)
            rec['cases'].append('c%d.case' % n)
            return 1
        if style == 'plain_dot':
            name = 'c%d.case' % n
            self.add_case(j(sdir, name))
            if sdir and d(st.booleans()):
                rec['cases'].append('../%s/%s' % (posixpath.basename(sdir), name))
            else:
                rec['cases'].append('./' + name)
            return 1
        k = d(_w([(0, 1), (1, 4), (2, 5), (3, 3)]))
        k = min(k, budget)
        pool = list(d(st.permutations(d(st.sampled_from(_SUFFIX_POOLS)))))
        decoys = self.chance(1, 4)
        if style == 'glob_empty':
            pats = ['e%d*.case', 'e%d/*.case', '*/e%d.case']
            if sdir not in self.dirs_with_links:
                pats.append('**/e%d?.case')
            pat = d(st.sampled_from(pats))
            if pat.startswith('**'):
                self.rec_roots.add(sdir)
            rec['cases'].append(pat % n)
            return 0
        if style == 'glob_prefix':
            tag = 'g%d_' % n
            for s in pool[:k]:
                self.add_case(j(sdir, tag + s + '.case'))
            if decoys:
                self.add_case(j(sdir, 'x' + tag + 'a.case'), 'PASS', decoy=True)
                self.add_case(j(sdir, tag + 'a.cas'), 'FAIL', decoy=True)
                self.add_case(j(sdir, 'k%d/%sq.case' % (n, tag)), 'PASS', decoy=True)
            rec['cases'].append(tag + '*.case')
            return k
        if style == 'glob_mid':
            tag = '_j%d' % n
            for s in pool[:k]:
                self.add_case(j(sdir, s + tag + '.case'))
            if decoys:
                self.add_case(j(sdir, tag[1:] + 'a.case'), 'PASS', decoy=True)
                self.add_case(j(sdir, 'a' + tag.upper() + '.case'), 'FAIL', decoy=True)
            rec['cases'].append('*' + tag + '.c*')
            return k
        if style == 'glob_q':
            tag = 'q%d_' % n
            singles = [s for s in pool if len(s) == 1]
            for s in singles[:k]:
                self.add_case(j(sdir, tag + s + '.case'))
            if decoys:
                self.add_case(j(sdir, tag + '.case'), 'PASS', decoy=True)
                self.add_case(j(sdir, tag + 'ab.case'), 'FAIL', decoy=True)
            rec['cases'].append(tag + '?.case')
            return min(k, len(singles))
        if style == 'glob_class':
            tag = 'w%d_' % n
            form, members, others = d(st.sampled_from([('[ab]', ['a', 'b'], ['c', 'A', 'ab']),
                                                       ('[a-c]', ['c', 'a', 'b'], ['d', 'B']),
                                                       ('[!a]', ['b', 'A', '0'], ['a'])]))
            members = list(d(st.permutations(members)))[:k]
            for s in members:
                self.add_case(j(sdir, tag + s + '.case'))
            if decoys:
                for s in others:
                    self.add_case(j(sdir, tag + s + '.case'), 'FAIL', decoy=True)
            rec['cases'].append(tag + form + '.case')
            return len(members)
        if style in ('glob_dir', 'glob_up'):
            dn = 'k%d' % n
            base = j(sdir, dn) if style == 'glob_dir' else j(posixpath.dirname(sdir), dn)
            for s in pool[:k]:
                self.add_case(j(base, s + '.case'))
            if k == 0:
                self.add(base, 'dir', None)
            if decoys:
                self.add_case(j(base, 'a.txt'), 'FAIL', decoy=True)
                self.add_case(j(base, 'sub/a.case'), 'PASS', decoy=True)
            pat = d(st.sampled_from(['%s/*.case', '%s/*.case', '%s/*', './%s/*.c*'])) if not decoys else '%s/*.case'
            rec['cases'].append((pat % dn) if style == 'glob_dir' else '../%s/*.case' % dn)
            return k
        if style == 'glob_rec':
            name = 'r%d.case' % n
            places = list(d(st.permutations(['', 'a', 'a/b', 'ab', 'A/x', 'b_'])))[:k]
            for p in places:
                self.add_case(j(sdir, p, name))
            if decoys:
                self.add_case(j(sdir, 'a', 'x' + name), 'FAIL', decoy=True)
            rec['cases'].append('**/' + name)
            self.rec_roots.add(sdir)
            return len(places)
        if style == 'glob_rec_dir':
            dn = 't%d' % n
            places = list(d(st.permutations(['a.case', 'x/b.case', 'x/y/c.case', 'B.case', 'x1/a.case', 'x.case'])))[:k]
            for p in places:
                self.add_case(j(sdir, dn, p))
            if k == 0:
                self.add(j(sdir, dn), 'dir', None)
            if decoys:
                self.add_case(j(sdir, dn, 'x/a.txt'), 'FAIL', decoy=True)
            rec['cases'].append(dn + '/**/*.case')
            return len(places)
        raise ValueError(style)

    def sub_suite(self, rec, sdir, depth):
        d = self.draw
        j = posixpath.join
        style = d(_SUB_STYLES)
        n = self.uid()
        idx = rec['idx']
        if style == 'dirlink' and any(sdir == r or sdir.startswith(r + '/') or r == '' for r in self.rec_roots):
            style = 'symlink'  # a `**` pattern above would meet the directory link
        if style == 'file':
            name = 's%d.suite' % n
            rec['suites'].append(name)
            self.gen_suite(j(sdir, name), depth + 1, idx)
        elif style == 'file_subdir':
            name = 'm%d/s%d.suite' % (n, n)
            rec['suites'].append(name)
            self.gen_suite(j(sdir, name), depth + 1, idx)
        elif style == 'dirref':
            rec['suites'].append('m%d' % n)
            self.gen_suite(j(sdir, 'm%d' % n, 'exactly.suite'), depth + 1, idx)
        elif style == 'dirref_explicit':
            rec['suites'].append('m%d/exactly.suite' % n)
            self.gen_suite(j(sdir, 'm%d' % n, 'exactly.suite'), depth + 1, idx)
        elif style == 'glob':
            k = d(_w([(1, 3), (2, 2), (0, 1)]))
            sfx = list(d(st.permutations(['a', 'b', 'B', '1'])))[:k]
            rec['suites'].append(d(st.sampled_from(['v%d_*.suite', 'v%d_?.suite', 'v%d_[a-zB1].suite'])) % n)
            if self.chance(1, 4):
                self.add(j(sdir, 'v%d_a.suit' % n), 'raw', 'no-suite\n')
                self.add(j(sdir, 'xv%d_a.suite' % n), 'raw', '[nosuch]\n')
            for s in sfx:
                self.gen_suite(j(sdir, 'v%d_%s.suite' % (n, s)), depth + 1, idx)
        elif style == 'glob_dirs':
            k = d(_w([(1, 2), (2, 2)]))
            sfx = list(d(st.permutations(['a', 'b', 'A'])))[:k]
            rec['suites'].append('y%d_*' % n)
            for s in sfx:
                self.gen_suite(j(sdir, 'y%d_%s' % (n, s), 'exactly.suite'), depth + 1, idx)
        elif style == 'glob_star_dir':
            k = d(_w([(1, 2), (2, 2)]))
            dns = list(d(st.permutations(_DIR_NAMES)))[:k]
            pat = d(st.sampled_from(['*/h%d.suite', '**/h%d.suite'])) if sdir not in self.dirs_with_links \
                else '*/h%d.suite'
            if pat.startswith('**'):
                self.rec_roots.add(sdir)
            rec['suites'].append(pat % n)
            for dn in dns:
                self.gen_suite(j(sdir, dn, 'h%d.suite' % n), depth + 1, idx)
        elif style == 'symlink':
            self.add(j(sdir, 'l%d.suite' % n), 'link', 's%d.suite' % n)
            rec['suites'].append('l%d.suite' % n)
            self.gen_suite(j(sdir, 's%d.suite' % n), depth + 1, idx)
        elif style == 'dirlink':
            self.add(j(sdir, 'ld%d' % n), 'link', 'm%d' % n)
            self._mark_links(sdir)
            explicit = d(st.booleans())
            rec['suites'].append('ld%d' % n + ('/exactly.suite' if explicit else ''))
            sub = self.gen_suite(j(sdir, 'm%d' % n, 'exactly.suite'), depth + 1, idx)
            sub['via'] = j(sdir, 'ld%d' % n, 'exactly.suite')
        elif style == 'spelled_dot':
            name = 's%d.suite' % n
            rec['suites'].append('./' + name)
            self.gen_suite(j(sdir, name), depth + 1, idx)
        elif style == 'spelled_dotdot':
            name = 's%d.suite' % n
            self.add(j(sdir, 'z%d' % n), 'dir', None)
            rec['suites'].append('z%d/../%s' % (n, name))
            self.gen_suite(j(sdir, name), depth + 1, idx)
        else:
            raise ValueError(style)

    def _mark_links(self, sdir):
        # a `**` pattern of this suite or of an ancestor directory would meet the link
        p = sdir
        while True:
            self.dirs_with_links.add(p)
            if p == '':
                break
            p = posixpath.dirname(p)

    # -- faults ---------------------------------------------------------------------------------------------
    def _insert(self, lst, line):
        pos = self.draw(st.integers(0, len(lst)))
        lst.insert(pos, line)

    def _is_ancestor_or_self(self, a, b):
        """suite a is b or an ancestor of b"""
        while b is not None:
            if b == a:
                return True
            b = self.suites[b]['parent']
        return False

    def apply_fault(self, fault):
        d = self.draw
        j = posixpath.join
        t = self.suites[d(st.integers(0, len(self.suites) - 1))]
        tdir = t['dir']
        n = self.uid()
        if fault == 'missing_case':
            line = d(st.sampled_from(['c%d.case', 'nodir%d/c.case', './c%d.case', "'c%d?.case'", '"c%d[1].case"',
                                      "'c %d.case'"])) % n
            if line[0] in '\'"' and d(st.booleans()):
                # a file that the quoted name, read as a pattern, would match
                self.add_case(j(tdir, line[1:-1].replace('?', 'x').replace('[1]', '1').replace(' ', '_')), decoy=True)
            self._insert(t['cases'], line)
        elif fault == 'missing_case_link':
            self.add(j(tdir, 'c%d.case' % n), 'link', 'nothing%d.case' % n)
            self._insert(t['cases'], 'c%d.case' % n)
        elif fault == 'missing_suite':
            self._insert(t['suites'], d(st.sampled_from(['s%d.suite', 'nodir%d/exactly.suite', 'nodir%d'])) % n)
        elif fault == 'dir_no_default':
            if d(st.booleans()):
                self.add(j(tdir, 'm%d' % n), 'dir', None)
            else:
                self.add(j(tdir, 'm%d' % n, 'other.suite'), 'suite', '')
            self._insert(t['suites'], 'm%d' % n)
        elif fault in ('double', 'cycle_root', 'cycle_up'):
            if fault == 'cycle_up':
                deep = [r for r in self.suites if r['parent'] is not None]
                if deep:
                    t = deep[d(st.integers(0, len(deep) - 1))]
                    tdir = t['dir']
                anc = []
                a = t['parent']
                while a is not None:
                    anc.append(a)
                    a = self.suites[a]['parent']
                s = self.suites[anc[d(st.integers(0, len(anc) - 1))]] if anc else t
            elif fault == 'cycle_root' or len(self.suites) == 1:
                s = self.suites[0]
            else:
                s = self.suites[d(st.integers(1, len(self.suites) - 1))]
            if self._is_ancestor_or_self(s['idx'], t['idx']):
                fault = 'cycle_self' if s is t else 'cycle'
            elif s['parent'] == t['idx']:
                fault = 'double_same_parent'
            else:
                fault = 'double_other_parent'
            spath = s['path']
            sname = posixpath.basename(spath)
            how = d(st.sampled_from(['plain', 'plain', 'dot', 'link', 'dir_or_file', 'glob', 'via']))
            if how == 'via' and 'via' in s:
                ref = posixpath.relpath(s['via'], tdir or '.')
            elif how == 'link':
                self.add(j(posixpath.dirname(spath), 'l%d.suite' % n), 'link', sname)
                ref = posixpath.relpath(j(posixpath.dirname(spath), 'l%d.suite' % n), tdir or '.')
            elif how == 'dir_or_file' and sname == 'exactly.suite' and posixpath.dirname(spath) != tdir:
                ref = posixpath.relpath(posixpath.dirname(spath), tdir or '.')
                if ref == '.':
                    ref = posixpath.relpath(spath, tdir or '.')
            elif how == 'glob':
                ref = posixpath.relpath(spath, tdir or '.')
                stem = ref[:-len('.suite')]
                ref = stem[:-1] + '?' + '.suite' if len(stem) > 1 and stem[-1] != '/' else ref
            else:
                ref = posixpath.relpath(spath, tdir or '.')
                if how == 'dot':
                    ref = './' + ref
            self._insert(t['suites'], ref)
        elif fault == 'suite_undecodable':
            t['bad_bytes'] = True
        elif fault == 'syntax_section':
            t['tail'] = d(st.sampled_from(['[nosuch]', '[case]', '[suite]\nx.suite', '[nosuch]\nx']))
        elif fault == 'syntax_tokens':
            which = d(st.sampled_from(['cases', 'suites']))
            self._insert(t[which], d(st.sampled_from(['a%d.case b.case', 'a%d b', '*.x%d *.y'])) % n)
        elif fault == 'syntax_instruction':
            t['extra'].append(d(st.sampled_from([('setup', 'no-such-instruction arg'), ('conf', 'status = BOGUS'),
                                                 ('conf', 'preprocessor'), ('assert', 'no-such-instruction')])))
        elif fault == 'case_dir':
            if d(st.booleans()):
                self.add(j(tdir, 'c%d.case' % n), 'case', {'id': 'c%d' % n, 'o': 'DIR', 'v': 0})
                self._insert(t['cases'], 'c%d.case' % n)
            else:
                self.add(j(tdir, 'g%d_a.case' % n), 'case', {'id': 'c%d' % n, 'o': 'DIR', 'v': 0})
                self.add_case(j(tdir, 'g%d_b.case' % n))
                self._insert(t['cases'], 'g%d_*.case' % n)
        else:
            raise ValueError(fault)
        return fault

    # -- texts ----------------------------------------------------------------------------------------------
    def render(self, rec):
        d = self.draw
        layout = d(st.integers(0, 5))
        cases, suites = list(rec['cases']), list(rec['suites'])
        chunks = []
        if layout == 0:
            chunks = [(None, cases), ('suites', suites)]
        elif layout == 1:
            chunks = [('suites', suites), ('cases', cases)]
        elif layout == 2:
            chunks = [('cases', cases), ('suites', suites)]
        elif layout == 3:
            h = len(cases) // 2
            chunks = [(None, cases[:h]), ('suites', suites), ('cases', cases[h:])]
        elif layout == 4:
            h = len(suites) // 2
            chunks = [('suites', suites[:h]), ('cases', cases), ('suites', suites[h:])]
        else:
            chunks = [('cases', cases)] + ([('suites', suites)] if suites else [])
        extra = [(sec, [line]) for sec, line in rec['extra']]
        if extra:
            pos = d(st.integers(0, len(chunks)))
            if pos == 0 and chunks and chunks[0][0] is None:
                pos = 1
            chunks[pos:pos] = extra
        noise = self.chance(1, 4)
        lines = []
        for sec, ls in chunks:
            if sec is not None:
                lines.append('[%s]' % sec)
            elif lines:
                lines.append('[cases]')
            if noise:
                lines.append(d(st.sampled_from(['', '# a comment', '#[suites]', '   ', '# x.case'])))
            lines.extend(ls)
            if noise and d(st.booleans()):
                lines.append('')
        if 'tail' in rec:
            lines.append(rec['tail'])
        text = '\n'.join(lines)
        if lines and not (noise and d(st.booleans())):
            text += '\n'
        return text


@st.composite
def hierarchies(draw, tier='quick'):
    b = _Builder(draw)
    b.mood = draw(_w([('success', 3), ('mixed', 7), ('one_bad', 2)]))
    # (the directory of a suite is no part of the patterns written in it: names with * ? [ ] are directory names
    # like any other)
    root_style = draw(_w([('main.suite', 5), ('top/main.suite', 2), ('top', 2), ('./main.suite', 1),
                          ('top/exactly.suite', 1), ('t[1]/main.suite', 1), ('t[1]', 1), ('u?x/main.suite', 1)]))
    root_path = {'main.suite': 'main.suite', './main.suite': 'main.suite', 'top/main.suite': 'top/main.suite',
                 'top': 'top/exactly.suite', 'top/exactly.suite': 'top/exactly.suite',
                 't[1]/main.suite': 't[1]/main.suite', 't[1]': 't[1]/exactly.suite',
                 'u?x/main.suite': 'u?x/main.suite'}[root_style]
    b.gen_suite(root_path, 1, None)
    fault = None
    if b.chance(42, 100):
        fault = draw(st.sampled_from(FAULTS))
    root_arg = root_style
    if b.mood == 'one_bad':
        # exactly one unsuccessful case among successful ones
        cases = b.listed
        if cases:
            nd = cases[draw(st.integers(0, len(cases) - 1))]
            o = draw(st.sampled_from(EXECUTING_FAILURES + NON_EXECUTING_FAILURES))
            nd[2] = {'id': nd[2]['id'], 'o': o, 'v': draw(st.integers(0, N_VARIANTS[o] - 1))}
    if fault == 'bad_root':
        kind = draw(st.sampled_from(['missing', 'dir_without_default', 'missing_dir']))
        if kind == 'missing':
            root_arg = 'nosuch.suite'
        elif kind == 'missing_dir':
            root_arg = 'nodir/main.suite'
        else:
            b.add('emptydir/other.suite', 'suite', '')
            root_arg = 'emptydir'
    elif fault is not None:
        fault = b.apply_fault(fault)
    for rec in b.suites:
        b.add(rec['path'], 'badsuite' if rec.get('bad_bytes') else 'suite', b.render(rec))
    if b.has_pp:
        b.add('pp.sh', 'raw', PP_SH)
    nodes = b.nodes
    order = draw(st.sampled_from(['asis', 'reversed', 'by_name', 'by_name_reversed']))
    if order == 'reversed':
        nodes = nodes[::-1]
    elif order == 'by_name':
        nodes = sorted(nodes, key=lambda nd: nd[0])
    elif order == 'by_name_reversed':
        nodes = sorted(nodes, key=lambda nd: nd[0], reverse=True)
    return {'root': root_arg, 'nodes': nodes,
            'meta': {'fault': fault, 'mood': b.mood, 'root_style': root_style, 'order': order}}
