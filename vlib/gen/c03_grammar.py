"""C03 grammar: *valid* instructions of every phase with typed holes, and defect operators on one hole.

Independent of the code under test.  The valid instructions come from the C18 grammar (vlib/gen/c18_grammar.py, reused
read-only: every instruction of every phase, every type of `def`, every syntax element, as token lists [text, kind]) plus
own productions for [conf], [act] (three actors) and the `including` directive.  This module adds

* the *world* every case lives in (home files, the sandbox prelude, one symbol of each of the 13 types),
* `holes(elem)`: the typed holes of one instruction - every token where a symbol reference, an INTEGER, a REGEX, a
  replacement, a range, a PATH (with the role that fixes its accepted relativities and whether the file must exist
  before execution), a FILE-NAME component, a word of a closed set, a here-document marker ... occurs,
* `ops_for(...)`: the defect operators applicable to a hole (or to the instruction as a whole), each with the
  class of outcome the manual fixes for it, and `apply(...)`: the edited token list + the supporting definitions.

Everything a generated case can execute stays inside the closed harmless vocabulary of the C18 grammar; operators
only insert fixed words (symbol names, `x`, `a(`, `-no-such-option` ...).
"""
from vlib.gen import c18_grammar as G18

IPHASES = ['setup', 'before-assert', 'assert', 'cleanup']
PHASES = ['conf', 'setup', 'act', 'before-assert', 'assert', 'cleanup']
TYPES = list(G18.TYPES)
LOGIC_TYPES = [t for t in TYPES if t not in ('string', 'list', 'path')]
DATA_TYPES = ['string', 'list', 'path']
INC_NAME = 'inc.xly'

# ---- the world ---------------------------------------------------------------------------------------------------
HOME_FILES = dict(G18.HOME_FILES)
_MARK_SH = '#!/bin/sh\necho act >> {MARKERS}\n'
HOME_FILES.update({'mark.sh': _MARK_SH, 'hd/mark.sh': _MARK_SH})
EXECUTABLE = list(G18.EXECUTABLE) + ['mark.sh', 'hd/mark.sh']

# the files in the sandbox that instructions of the C18 grammar read (its PRELUDE, as text)
SANDBOX_PRELUDE = [
    # (the marker is none of those the C18 grammar uses: a here-document of a carrier that lost its end marker must
    # not find another one further down in the file)
    'file -rel-act f.txt = <<END-OF-PRELUDE-FILE\na\nb c\nEND-OF-PRELUDE-FILE',
    'dir -rel-act d = {\nfile g.txt = "x"\ndir e\n}',
]
# one symbol per name the C18 grammar may refer to (key of G18.SYM -> definition)
SYMBOL_DEFS = [
    ('string', 'def string S = v'),
    ('int-string', 'def string N = 2'),
    ('list', 'def list L = a "b c"'),
    ('path', 'def path P = -rel-act f.txt'),
    ('dir-path', 'def path PD = -rel-act d'),
    ('home-path', 'def path PH = -rel-home data.txt'),
    ('integer-matcher', 'def integer-matcher IM = >= 0'),
    ('text-transformer', 'def text-transformer TT = char-case -to-upper'),
    ('text-matcher', 'def text-matcher TM = ! is-empty'),
    ('line-matcher', 'def line-matcher LM = contents matches a'),
    ('file-matcher', 'def file-matcher FM = type file'),
    ('files-matcher', 'def files-matcher FSM = ! is-empty'),
    ('files-condition', 'def files-condition FC = {\ng.txt\n}'),
    ('text-source', 'def text-source TS = "ts"'),
    ('files-source', 'def files-source FSRC = {\nfile fs.txt\n}'),
    ('program', 'def program PGM = % echo pgm'),
    ('act-program', "def program ACT_PGM = % sh -c 'echo act >> {MARKERS}' sh"),
]
SYM_OF_TYPE = {t: G18.SYM[t] for t in TYPES}  # the prelude symbol of each of the 13 types
TYPE_OF_SYM = {'S': 'string', 'N': 'string', 'L': 'list', 'P': 'path', 'PD': 'path', 'PH': 'path', 'IM': 'integer-matcher',
               'TT': 'text-transformer', 'TM': 'text-matcher', 'LM': 'line-matcher', 'FM': 'file-matcher',
               'FSM': 'files-matcher', 'FC': 'files-condition', 'TS': 'text-source', 'FSRC': 'files-source',
               'PGM': 'program', 'ACT_PGM': 'program'}
PRELUDE_SYMBOLS = [(TYPE_OF_SYM[d.split()[2]], d.split()[2]) for _, d in SYMBOL_DEFS]

# a valid value of each type (for symbols that are defined *after* the place that refers to them)
VALID_VALUE = {
    'string': 'later', 'list': 'a b', 'path': '-rel-act f.txt', 'integer-matcher': '== 0',
    'line-matcher': 'line-num == 1', 'file-matcher': 'type file', 'files-matcher': 'is-empty',
    'files-condition': '{\n}', 'files-source': '{\n}', 'text-source': '"x"', 'text-matcher': 'is-empty',
    'text-transformer': 'identity', 'program': '% echo',
}


def _alias_value(typ, name):
    """the value of a definition of type `typ` that is just the symbol `name` of the same type"""
    if typ in ('string', 'list', 'text-source', 'path'):
        return '@[%s]@' % name
    if typ == 'program':
        return '@ ' + name
    return name


# supporting definitions an operator may need: name -> (definition text, names it needs)
EXTRA_DEFS = {}
for _t in TYPES:
    _prev = SYM_OF_TYPE[_t]
    for _d in (1, 2, 3):
        _n = 'C%d_%s' % (_d, SYM_OF_TYPE[_t])
        EXTRA_DEFS[_n] = ('def %s %s = %s' % (_t, _n, _alias_value(_t, _prev)), [] if _d == 1 else [_prev])
        _prev = _n
# path symbols per relativity, and chains built on them: R1_x = -rel-x n ; R2_x = -rel R1_x sub ; R3_x = @[R2_x]@/s
RELS = ['home', 'act-home', 'act', 'tmp', 'result', 'cd']
for _r in RELS:
    _k = _r.replace('-', '')
    EXTRA_DEFS['R1_' + _k] = ('def path R1_%s = -rel-%s r-%s' % (_k, _r, _k), [])
    EXTRA_DEFS['R2_' + _k] = ('def path R2_%s = -rel R1_%s sub' % (_k, _k), ['R1_' + _k])
    EXTRA_DEFS['R3_' + _k] = ('def path R3_%s = @[R2_%s]@/s3' % (_k, _k), ['R2_' + _k])
# paths of files that do not exist in the home directories
EXTRA_DEFS['MISSING_H'] = ('def path MISSING_H = -rel-home missing-file', [])
EXTRA_DEFS['MISSING_AH'] = ('def path MISSING_AH = -rel-act-home missing-file', [])
EXTRA_DEFS['HD'] = ('def path HD = -rel-home hd', [])
EXTRA_DEFS['MISSING_2'] = ('def path MISSING_2 = -rel HD missing-file', ['HD'])
EXTRA_DEFS['MISSING_3'] = ('def path MISSING_3 = @[MISSING_2]@', ['MISSING_2'])
# strings that are no INTEGER / no REGEX, directly and through another symbol
EXTRA_DEFS['NOT_INT'] = ('def string NOT_INT = x', [])
EXTRA_DEFS['NOT_INT_2'] = ('def string NOT_INT_2 = "@[NOT_INT]@"', ['NOT_INT'])
EXTRA_DEFS['FLOAT_STR'] = ('def string FLOAT_STR = 1.5', [])
EXTRA_DEFS['BAD_RE'] = ("def string BAD_RE = 'a('", [])
EXTRA_DEFS['BAD_RE_2'] = ('def string BAD_RE_2 = @[BAD_RE]@', ['BAD_RE'])
# strings whose value is built from a list / a path: no FILE-NAME component
EXTRA_DEFS['S_OF_L'] = ('def string S_OF_L = "x@[L]@"', [])
EXTRA_DEFS['S_OF_P'] = ('def string S_OF_P = @[P]@', [])
EXTRA_DEFS['S_OF_S_OF_L'] = ('def string S_OF_S_OF_L = @[S_OF_L]@-y', ['S_OF_L'])


def extra_def_lines(names):
    """the definitions of `names` with everything they need, each once, in a valid order"""
    out, seen = [], set()

    def add(n):
        if n in seen:
            return
        seen.add(n)
        text, needs = EXTRA_DEFS[n]
        for m in needs:
            add(m)
        out.append(text)

    for n in names:
        add(n)
    return out


# ---- instructions per phase (transcribed from `exactly help instructions`) ---------------------------------------
_COMMON = ['$', '%', 'cd', 'copy', 'def', 'dir', 'env', 'file', 'run', 'timeout']
INSTRUCTIONS = {
    'conf': ['act-home', 'actor', 'home', 'status'],
    'setup': _COMMON + ['stdin'],
    'before-assert': list(_COMMON),
    'assert': _COMMON + ['contents', 'dir-contents', 'exists', 'exit-code', 'stderr', 'stdout'],
    'cleanup': list(_COMMON),
}
ALL_INSTRUCTION_NAMES = sorted({n for v in INSTRUCTIONS.values() for n in v})


def unknown_instruction_names(ph, name):
    """names that are no instruction of the phase: instructions of other phases, misspellings of `name`"""
    out = [n for n in ALL_INSTRUCTION_NAMES if n not in INSTRUCTIONS[ph]]
    out += ['no-such-instruction', 'including-x']
    if name and name[0].isalpha():
        out += [name + 'x', name.capitalize() if name.capitalize() != name else name.upper(), name[:-1] + '_']
    return [n for n in out if n not in INSTRUCTIONS[ph]]


# ---- generation of valid carriers --------------------------------------------------------------------------------
class CG(G18.G):
    """the C18 grammar in a world where every symbol is defined"""

    def __init__(self, draw, focus=None):
        G18.G.__init__(self, draw, focus)
        self.defined = set(G18.SYM)


class ChoiceCG(G18.ChoiceG):
    """the same, driven by an explicit choice function (deterministic enumeration)"""

    def __init__(self, next_choice, focus=None):
        G18.ChoiceG.__init__(self, next_choice, focus)
        self.defined = set(G18.SYM)


FOCI = [None, None, 'ref', 'ref', 'int', 'int', 'regex', 'regex', 'repl', 'range', 'path', 'glob', 'heredoc', 'enum']

# (method of the C18 grammar, weight, phases (None: every instruction phase))
_INSTRUCTION_TABLE = [
    ('i_file', 4, None), ('i_dir', 3, None), ('i_shell', 1, None), ('i_sys', 2, None), ('i_run', 3, None),
    ('i_env', 2, None), ('i_copy', 3, None), ('i_timeout', 1, None), ('i_cd', 1, None), ('i_extra_def', 5, None),
    ('i_stdin', 3, ['setup']),
    ('i_contents', 4, ['assert']), ('i_dir_contents', 4, ['assert']), ('i_exists', 4, ['assert']),
    ('i_exit_code', 4, ['assert']), ('i_stdout', 6, ['assert']),
]


def _take(g):
    elems, g.elems = g.elems, []
    return [{'name': e['name'], 'toks': [list(t) for t in e['toks']]} for e in elems]


def _has_focus(elems, focus):
    for e in elems:
        for t in e['toks']:
            k = t[1]
            if k == focus or k.startswith(focus + ':') or (focus == 'ref' and k.startswith(('ref:', 'sref:'))):
                return True
    return False


def instruction_carrier(g, ph):
    """one valid instruction of an instruction phase (a list of elements: `cd` comes with its way back); with a
    focus, the instruction is re-drawn (a bounded number of times) until it holds a token of the focused kind"""
    table = [m for m, w, phs in _INSTRUCTION_TABLE if phs is None or ph in phs for _ in range(w)]
    elems = None
    for _ in range(25 if g.focus else 1):
        getattr(g, g.pick(table))(ph)
        elems = _take(g)
        if not g.focus or _has_focus(elems, g.focus):
            break
    return elems


def use_of_definition(elem, ph):
    """an instruction of phase `ph` that uses the symbol defined by `elem` (so that its value is validated), or None"""
    toks = elem['toks']
    if elem['name'] != 'def' or len(toks) < 4 or toks[2][1] != 'name':
        return None
    typ, name = toks[1][0], toks[2][0]
    kw = lambda *ws: [[w, 'kw'] for w in ws]
    head = kw('file') + [['u1.txt', 'path']] + kw('=') + [['"a"', 'str']] + kw('-transformed-by')
    if typ == 'integer-matcher':
        t = head + kw('filter', 'line-num') + [[name, 'ref:' + typ]]
    elif typ == 'line-matcher':
        t = head + kw('filter') + [[name, 'ref:' + typ]]
    elif typ == 'text-matcher':
        t = head + kw('filter', 'contents') + [[name, 'ref:' + typ]]
    elif typ == 'text-transformer':
        t = head + [[name, 'ref:' + typ]]
    elif typ in ('text-source', 'string'):
        t = kw('file') + [['u1.txt', 'path']] + kw('=') + [['@[%s]@' % name, 'sref:' + typ]]
    elif typ == 'files-source':
        t = kw('dir') + [['u1', 'path']] + kw('=') + [[name, 'ref:' + typ]]
    elif typ == 'program':
        t = kw('run', '@') + [[name, 'ref:' + typ]]
    elif typ == 'list':
        t = kw('%') + [['echo', 'str'], ['@[%s]@' % name, 'sref:list']]
    elif typ == 'file-matcher' and ph == 'assert':
        t = kw('exists', '-rel-act') + [['f.txt', 'path']] + kw(':') + [[name, 'ref:' + typ]]
        t[1][1] = 'rel'
    elif typ == 'files-matcher' and ph == 'assert':
        t = kw('dir-contents', '-rel-act') + [['d', 'path']] + kw(':') + [[name, 'ref:' + typ]]
        t[1][1] = 'rel'
    elif typ == 'files-condition' and ph == 'assert':
        t = kw('dir-contents', '-rel-act') + [['d', 'path']] + kw(':', 'matches') + [[name, 'ref:' + typ]]
        t[1][1] = 'rel'
    else:
        return None
    return {'name': t[0][0], 'toks': t, 'use_of': name}


def act_carrier(g, actor):
    """valid [act] contents that leave the marker `act` when run"""
    g.begin()
    if actor == 'source':
        g.t('echo', 'text')
        g.t('act', 'text')
        g.t('>>', 'text')
        g.t('{MARKERS}', 'text')
        g.nl()
        g.t('echo', 'text')
        g.text_words(1, 3)
        g.end('act', 'act-source')
        return _take(g)
    if actor == 'file':
        if g.maybe(3):
            g.t(g.pick(['-rel-home', '-rel-act-home']), 'rel')
        g.t('mark.sh', 'path')
        for _ in range(g.n(3)):
            g.string()
        g.end('act', 'act-file')
        return _take(g)
    k = g.n(5)
    if k == 0:
        g.t('$', 'kw')
        g.t('echo', 'text')
        g.t('act', 'text')
        g.t('>>', 'text')
        g.t('{MARKERS}', 'text')
        g.t(';', 'text')
        g.t('echo', 'text')
        g.text_words(0, 2)
        g.eol()
    elif k == 1 or k == 4:
        g.t('%', 'kw')
        g.t('sh', 'str')
        g.t('-c', 'str')
        g.t("'echo act >> {MARKERS}'", 'str')
        g.t('sh', 'str')
        g.program_arguments()
    elif k == 2:
        if g.maybe(2):
            g.t(g.pick(['-rel-home', '-rel-act-home']), 'rel')
        g.t('mark.sh', 'path')
        g.program_arguments()
    else:
        g.t('@', 'kw')
        g.t('ACT_PGM', 'ref:program')
        g.program_arguments()
    if g.maybe(3):
        g.nl()
        g.t('-stdin', 'kw')
        g.text_source(0, allow_program=False)
        g.eol()
    if g.maybe(4):
        g.nl()
        g.t('-transformed-by', 'kw')
        g.transformer(1, simple=True)
        g.eol()
    g.end('act', 'act-program')
    return _take(g)


def conf_carrier(g):
    g.begin()
    k = g.n(4)
    if k == 0:
        g.t('status', 'kw')
        g.t('=', 'kw')
        g.t(g.pick(['PASS', 'FAIL']), 'enum:status')
        name = 'status'
    elif k == 1:
        g.t('home', 'kw')
        g.t('=', 'kw')
        g.t(g.pick(['hd', '"hd"', 'hd/hd']), 'path')
        name = 'home'
    elif k == 2:
        g.t('act-home', 'kw')
        g.t('=', 'kw')
        g.t(g.pick(['hd', "'hd'"]), 'path')
        name = 'act-home'
    else:
        g.t('actor', 'kw')
        g.t('=', 'kw')
        g.t('command', 'enum:actor')
        name = 'actor'
    g.end('conf', name)
    return _take(g)


def including_carrier(g):
    """the directive that includes an (empty but existing) file"""
    g.begin()
    g.t('including', 'kw')
    g.t('empty.xly', 'incpath')
    g.end('any', 'including')
    return _take(g)


# ---- rendering -----------------------------------------------------------------------------------------------------------
def render_lines(toks):
    """tokens -> list of lines (tokens of a line are joined by single blanks)"""
    lines, cur = [], []
    for t in toks:
        if t[1] == 'nl':
            lines.append(' '.join(cur))
            cur = []
        else:
            cur.append(t[0])
    lines.append(' '.join(cur))
    return lines


def carrier_lines(elems):
    out = []
    for e in elems:
        out += render_lines(e['toks'])
    return out


# ---- holes ---------------------------------------------------------------------------------------------------------------
STRLIKE = ('str', 'int', 'regex', 'repl', 'glob', 'range', 'text', 'tmo', 'path')
# roles of PATH arguments.  dest: names something to create / change - accepted relativities act, tmp, cd (help pages
# of file, dir, cd, copy).  exist: the file must exist, and it is looked for before execution when it is in a home
# directory (copy SOURCE, -contents-of, -existing-*, executable of a program, dir-contents-of, file of the file actor,
# home / act-home).  read: looked at during execution (contents / dir-contents / exists).  def: value of `def path`.
ROLE_DEST, ROLE_EXIST, ROLE_READ, ROLE_DEF, ROLE_CONF, ROLE_PLAIN = 'dest', 'exist', 'read', 'def', 'conf', 'plain'
_PROGRAM_FILES = ('prog.sh', 'mark.sh')


def _unq(text):
    if len(text) >= 2 and text[0] == text[-1] and text[0] in '\'"':
        return text[1:-1]
    return text


def path_spans(elem, ph):
    """-> list of {'start', 'end' (exclusive), 'role', 'what'}: the PATH arguments of the instruction"""
    toks = elem['toks']
    name = elem['name']
    spans = []
    i, n = 0, len(toks)
    n_copy = 0
    while i < n:
        text, kind = toks[i][0], toks[i][1]
        start = None
        if kind == 'rel':
            start = i
            if text == '-rel' and i + 2 < n and toks[i + 1][1] == 'ref:path' and toks[i + 2][1] == 'path':
                end = i + 3
            elif text != '-rel' and i + 1 < n and toks[i + 1][1] == 'path':
                end = i + 2
            else:
                i += 1
                continue
        elif kind == 'path':
            start, end = i, i + 1
        elif kind == 'sref:path':
            start, end = i, i + 1
        if start is None:
            i += 1
            continue
        prev = toks[start - 1][0] if start > 0 else None
        prev_kind = toks[start - 1][1] if start > 0 else None
        if prev == '!' and start >= 2 and toks[0][0] == 'exists':
            prev = 'exists'
        role = what = None
        fname = _unq(toks[end - 1][0])
        if name in ('home', 'act-home'):
            role, what = ROLE_CONF, name
        elif name == 'act-file' and start == 0:
            role, what = ROLE_EXIST, 'act-file'
        elif name in ('file', 'dir') and start == 1:
            role, what = ROLE_DEST, name
        elif name == 'cd' and start == 1:
            role, what = ROLE_DEST, 'cd'
        elif name == 'copy' and toks[0][0] == 'copy':
            n_copy += 1
            role, what = (ROLE_EXIST, 'copy-src') if n_copy == 1 else (ROLE_DEST, 'copy-dst')
        elif prev == '-contents-of':
            role, what = ROLE_EXIST, 'contents-of'
        elif prev in ('-existing-file', '-existing-path', '-existing-dir'):
            role, what = ROLE_EXIST, prev[1:]
        elif prev == 'dir-contents-of':
            role, what = ROLE_EXIST, 'dir-contents-of'
        elif name in ('contents', 'dir-contents', 'exists') and start == 1 or (prev == 'exists' and name == 'exists'):
            role, what = ROLE_READ, name
        elif name == 'def' and start == 4 and toks[1][0] == 'path':
            role, what = ROLE_DEF, 'def-path'
        elif kind != 'sref:path' and fname in _PROGRAM_FILES:
            role, what = ROLE_EXIST, 'program-file'
        elif kind == 'path' and end - start == 1 and prev_kind in ('kw', 'nl', None) and \
                prev in ('{', '\n', 'file', 'dir', None) and name not in ('act-file',):
            role, what = ROLE_PLAIN, 'file-name'
        if role is not None:
            spans.append({'start': start, 'end': end, 'role': role, 'what': what})
        i = end
    return spans


def holes(elem, ph):
    """-> list of holes: dict(tok=index, hk=kind of hole, ...)"""
    toks = elem['toks']
    spans = path_spans(elem, ph)
    in_span = {}
    for s in spans:
        for j in range(s['start'], s['end']):
            in_span[j] = s
    out = []
    is_def = elem['name'] == 'def' and len(toks) > 3
    raw_line = False  # inside SHELL-COMMAND-LINE / TEXT-UNTIL-END-OF-LINE: the text is not divided into tokens
    for i, (text, kind) in enumerate(toks):
        if kind == 'nl':
            raw_line = False
            continue
        if kind == 'kw' and text in ('$', ':>'):
            raw_line = True
            continue
        span = in_span.get(i)
        base = {'tok': i, 'kind': kind, 'raw': raw_line or kind == 'text'}
        if kind.startswith('ref:'):
            out.append(dict(base, hk='ref', type=kind[4:]))
        elif kind.startswith('sref:'):
            typ = kind[5:]
            if span is not None and span['role'] != ROLE_PLAIN:
                # the whole FILE-NAME is one reference: a path, or a string
                out.append(dict(base, hk='sref', type=typ, accepts=['path', 'string'], span=span))
            else:
                # a whole-token reference may stand where a TEXT-SOURCE is expected ("a reference to a symbol
                # defined as either text-source or string"): text-source is never taken as a wrong type here
                out.append(dict(base, hk='sref', type=typ, accepts=[typ] + [t for t in DATA_TYPES + ['text-source']
                                                                              if t != typ]))
        elif kind in STRLIKE:
            if kind == 'path':
                if span is None:
                    continue
                if text.startswith('@['):
                    # cd @[PD]@: the whole FILE-NAME is one reference
                    out.append(dict(base, hk='sref', type='path', accepts=['path', 'string'], span=span))
                    continue
                accepts = ['string'] if span['role'] != ROLE_PLAIN else list(DATA_TYPES)
                out.append(dict(base, hk='str', accepts=accepts, span=span,
                                strict_fname=span['role'] != ROLE_PLAIN))
            else:
                out.append(dict(base, hk='str', accepts=list(DATA_TYPES)))
        elif kind.startswith('enum:'):
            out.append(dict(base, hk='enum', set=kind[5:]))
        elif kind == 'marker':
            out.append(dict(base, hk='marker'))
        elif kind == 'name' and is_def:
            out.append(dict(base, hk='name'))
        elif kind == 'incpath':
            out.append(dict(base, hk='incpath'))
    for s in spans:
        out.append({'tok': s['start'], 'kind': 'path-span', 'hk': 'path', 'span': s, 'raw': False})
    return out


# ---- operators -----------------------------------------------------------------------------------------------------------
SYN, VAL, EITHER, FAE = 'SYNTAX', 'VALIDATION', 'EITHER', 'FILE_ACCESS'
IDENTS = {SYN: ['SYNTAX_ERROR'], VAL: ['VALIDATION_ERROR'], EITHER: ['SYNTAX_ERROR', 'VALIDATION_ERROR'],
          FAE: ['FILE_ACCESS_ERROR']}
# classes of defects: what kind of step finds them (decides what `symbol` and --act must do with them)
CLS_SYNTAX, CLS_SYMBOL, CLS_VALUE, CLS_FILE = 'syntax', 'symbol', 'value', 'file'

BAD_INTS = ['x', '1.5', '1+', '"1 +"', "'a b'", '1/0', '1//0', 'one', '0x', '1e3', '"[1]"', "'\"1\"'", '2**0.5', '1,2']
BAD_TIMEOUTS = BAD_INTS + ['-1', '-5', '"-1"', '0-1']
BAD_REGEXES = ["'a('", "'*a'", "'[a'", "'(?P<'", "'a)'", "'(?P<n>a)(?P<n>b)'", "'a{2,1}'", "'\\'", "'(?z)'", "'[b-a]'", "'a{99999999999}'", "'x{1,4294967296}'"]
BAD_REPLS = ["'\\g<'", "'\\g<nosuch>'", "'\\99'", "'\\g<1'", "'x\\g<>'"]
BAD_RANGES = ['x', '1:2:3', '1.5', 'a:b', '1:x', '"1 2"', '::']
BAD_ENUMS = ['bogus', 'no-such-word', 'X', '-bogus']
FORBIDDEN_DEST_RELS = ['-rel-home', '-rel-act-home', '-rel-result', '-rel-here']
DEMANDING = ('=', '+=', ':', '-transformed-by', '-stdin', '-contents-of', '-rel', '&&', '||', '|', '!', '(',
             '==', '!=', '<', '<=', '>', '>=', 'num-lines', 'num-files', 'line-num', 'matches', '~', 'equals',
             'every', 'any', 'grep', 'replace', 'filter', '-from', '-stdout-from', '-stderr-from', 'type',
             '-selection', '-with-pruned', '-existing-file', '-existing-dir', '-existing-path', 'dir-contents-of',
             '-min-depth', '-max-depth', '-at', '-line-nums', '-path-arg-marker', 'constant', 'char-case')
REST_OF_LINE_STARTERS = ('%', '$', '@', '-python', ':>', '-line-nums')


def _last_line_is_open(toks):
    """the last line runs to END-OF-LINE as a list / program arguments / raw text: another word is just one more"""
    last = []
    for t in toks:
        if t[1] == 'nl':
            last = []
        else:
            last.append(t)
    for text, kind in last:
        if (kind == 'kw' and text in REST_OF_LINE_STARTERS) or kind in ('text', 'marker', 'heredoc'):
            return True
        if kind == 'path' and _unq(text) in _PROGRAM_FILES:
            return True
    return False


def ref_name_ops(hole, elem, ph, later_ok=True):
    """names (with what they need) that are invalid references at this hole -> list of op dicts"""
    ops = []
    accepts = hole.get('accepts') or [hole['type']]
    ops.append({'op': 'undefined', 'cls': CLS_SYMBOL, 'expect': VAL, 'ref': 'UNDEFINED_SYM'})
    if later_ok:
        ltype = accepts[0]
        for place in ('same-phase', 'later-phase'):
            ops.append({'op': 'defined-later', 'cls': CLS_SYMBOL, 'expect': VAL, 'ref': 'LATER_SYM',
                        'later': {'type': ltype, 'place': place}})
    if elem['name'] == 'def' and len(elem['toks']) > 3 and elem['toks'][2][1] == 'name':
        ops.append({'op': 'self-reference', 'cls': CLS_SYMBOL, 'expect': VAL, 'ref': elem['toks'][2][0]})
    for t in TYPES:
        if t in accepts:
            continue
        if hole.get('kind') in ('int', 'tmo', 'regex', 'range') and t in DATA_TYPES:
            continue
        for depth in (0, 1, 2, 3):
            nm = SYM_OF_TYPE[t] if depth == 0 else 'C%d_%s' % (depth, SYM_OF_TYPE[t])
            ops.append({'op': 'wrong-type', 'cls': CLS_SYMBOL, 'expect': VAL, 'ref': nm, 'wtype': t, 'depth': depth,
                        'needs': [] if depth == 0 else [nm]})
    if hole.get('strict_fname') or (hole['hk'] == 'sref' and 'span' in hole):
        for nm in ('S_OF_L', 'S_OF_P', 'S_OF_S_OF_L'):
            ops.append({'op': 'wrong-type-indirect', 'cls': CLS_SYMBOL, 'expect': VAL, 'ref': nm, 'needs': [nm]})
    return ops


def ops_for(elems, ei, ph, at_eof, ctx):
    """every applicable defect of element `ei` of the carrier -> list of op dicts (JSON); ctx: 'def-unused' when
    the values of the instruction are not looked at before execution (an unused definition)"""
    elem = elems[ei]
    toks = elem['toks']
    name = elem['name']
    out = []
    is_def = name == 'def'
    is_act = name.startswith('act-')
    is_conf = ph == 'conf'
    is_inc = name == 'including'
    hs = holes(elem, ph)
    for h in hs:
        i = h['tok']
        text = toks[i][0]
        hk = h['hk']
        if hk == 'ref':
            for o in ref_name_ops(h, elem, ph, later_ok=not is_conf):
                out.append(dict(o, tok=i, edit='name'))
        elif hk == 'sref' and not is_conf:
            for o in ref_name_ops(h, elem, ph):
                out.append(dict(o, tok=i, edit='sref-name'))
        elif hk == 'str' and not is_conf and not is_inc:
            if name == 'act-null':
                continue
            for o in ref_name_ops(h, elem, ph):
                for form in ('append', 'append-soft'):
                    if form == 'append-soft' and h['raw']:
                        continue
                    out.append(dict(o, tok=i, edit=form))
        if hk == 'enum':
            for w in BAD_ENUMS:
                out.append({'op': 'bad-enum', 'cls': CLS_SYNTAX, 'expect': EITHER, 'tok': i, 'edit': 'replace', 'text': w})
        if hk == 'marker' and sum(1 for t in toks if t[1] == 'heredoc') == 1:
            out.append({'op': 'unterminated-here-doc', 'cls': CLS_SYNTAX, 'expect': SYN, 'tok': i, 'edit': 'replace',
                        'text': text + 'x'})
        if hk == 'name':
            for nm in ('S', 'TM', 'PGM', 'EXACTLY_HOME', 'EXACTLY_ACT', 'L'):
                out.append({'op': 'duplicate-definition', 'cls': CLS_SYMBOL, 'expect': VAL, 'tok': i, 'edit': 'replace',
                            'text': nm})
            for nm in ('X-1', 'a.b', '"X 1"'):
                out.append({'op': 'bad-symbol-name', 'cls': CLS_SYNTAX, 'expect': EITHER, 'tok': i, 'edit': 'replace',
                            'text': nm})
        if hk == 'incpath':
            for nm in ('missing.xly', 'hd', 'no-dir/empty.xly'):
                # found while the files are read, like a syntax error
                out.append({'op': 'include-missing', 'cls': CLS_SYNTAX, 'expect': FAE, 'tok': i, 'edit': 'replace',
                            'text': nm})
        kind = h['kind']
        used = ctx != 'def-unused'
        if used and kind in ('int', 'tmo', 'regex', 'repl', 'range'):
            prev = toks[i - 1][0] if i else None
            if kind == 'int':
                for w in BAD_INTS:
                    out.append({'op': 'bad-integer', 'cls': CLS_VALUE, 'expect': EITHER, 'tok': i, 'edit': 'replace',
                                'text': w})
                for nm in ('NOT_INT', 'NOT_INT_2', 'FLOAT_STR'):
                    out.append({'op': 'bad-integer-via-symbol', 'cls': CLS_VALUE, 'expect': EITHER, 'tok': i,
                                'edit': 'replace', 'text': '@[%s]@' % nm, 'needs': [nm]})
            elif kind == 'tmo':
                for w in BAD_TIMEOUTS:
                    out.append({'op': 'bad-integer', 'cls': CLS_VALUE, 'expect': EITHER, 'tok': i, 'edit': 'replace',
                                'text': w})
            elif kind == 'regex':
                for w in BAD_REGEXES:
                    out.append({'op': 'bad-regex', 'cls': CLS_VALUE, 'expect': EITHER, 'tok': i, 'edit': 'replace',
                                'text': w if prev != ':>' else _unq(w)})
                if prev != ':>':
                    for nm in ('BAD_RE', 'BAD_RE_2'):
                        out.append({'op': 'bad-regex-via-symbol', 'cls': CLS_VALUE, 'expect': EITHER, 'tok': i,
                                    'edit': 'replace', 'text': '@[%s]@' % nm, 'needs': [nm]})
            elif kind == 'repl' and i and toks[i - 1][1] == 'regex' and '@[' not in toks[i - 1][0]:
                # the replacement is judged together with its REGEX; a REGEX whose value comes from a symbol (a path
                # of the test case ...) may be put together only when the instruction runs
                for w in BAD_REPLS:
                    out.append({'op': 'bad-replacement', 'cls': CLS_VALUE, 'expect': EITHER, 'tok': i,
                                'edit': 'replace', 'text': w})
            elif kind == 'range':
                for w in BAD_RANGES:
                    out.append({'op': 'bad-range', 'cls': CLS_VALUE, 'expect': EITHER, 'tok': i, 'edit': 'replace',
                                'text': w})
        if hk == 'path':
            out += _path_ops(h['span'], elem, ph, used)
        # quoting
        if kind in ('str', 'path', 'int', 'regex', 'repl', 'glob', 'envname', 'tmo') and hk != 'path' and \
                not h['raw'] and not is_inc and (i == 0 or toks[i - 1][0] != ':>'):
            q = '"' if text.startswith("'") else "'"
            out.append({'op': 'unterminated-quote', 'cls': CLS_SYNTAX, 'expect': SYN, 'tok': i, 'edit': 'replace',
                        'text': q + text})
    # ---- the instruction as a whole
    if is_act or is_inc:
        if name == 'act-program':
            out.append({'op': 'act-second-line', 'cls': CLS_SYNTAX, 'expect': SYN, 'edit': 'append-line',
                        'text': 'second-line of-act'})
        if name == 'act-file':
            out.append({'op': 'act-second-line', 'cls': CLS_SYNTAX, 'expect': SYN, 'edit': 'append-line',
                        'text': 'mark.sh again'})
        return out
    first = toks[0][0]
    for nm in unknown_instruction_names(ph, first):
        out.append({'op': 'unknown-instruction', 'cls': CLS_SYNTAX, 'expect': SYN, 'tok': 0, 'edit': 'replace', 'text': nm})
    if first not in ('$', '%'):
        out.append({'op': 'unknown-option', 'cls': CLS_SYNTAX, 'expect': SYN, 'tok': 0, 'edit': 'insert-after',
                    'text': '-no-such-option'})
    if not _last_line_is_open(toks) and not (is_def and toks[1][0] == 'list'):
        for w in ('superfluous', '"superfluous argument"', 'x y'):
            out.append({'op': 'superfluous-argument', 'cls': CLS_SYNTAX, 'expect': SYN, 'edit': 'append-arg', 'text': w})
    if at_eof and ei == len(elems) - 1:
        for i, (text, kind) in enumerate(toks[:-1]):
            if is_def and toks[1][0] == 'list' and text == '=':
                continue  # `def list X =` is the empty list
            if kind == 'kw' and text in DEMANDING and not any(t[1] in ('heredoc',) for t in toks[:i]):
                # cut behind a word that demands an argument; only sound at the very end of the file
                out.append({'op': 'missing-argument', 'cls': CLS_SYNTAX, 'expect': SYN, 'edit': 'truncate-after', 'tok': i})
    return out


def _path_ops(span, elem, ph, used):
    role = span['role']
    s, e = span['start'], span['end']
    toks = elem['toks']
    fname = toks[e - 1][0]
    out = []
    if role in (ROLE_DEST, ROLE_EXIST, ROLE_READ) and span['what'] not in ('act-file',):
        # -rel-here "is only available when defining a path symbol"
        out.append({'op': 'relativity-option', 'cls': CLS_SYNTAX, 'expect': EITHER, 'edit': 'span', 'start': s, 'end': e,
                    'toks': [['-rel-here', 'rel'], [fname, 'path']], 'rel': 'here'})
    if role == ROLE_DEST:
        # help pages of file / dir / copy (every phase) and of cd in [setup]: act, tmp, cd; cd after [act]
        # (`help before-assert cd` ...) also accepts the result directory
        forbidden = ['home', 'act-home', 'result']
        if span['what'] == 'cd' and ph != 'setup':
            forbidden = ['home', 'act-home']
        for r in forbidden:
            out.append({'op': 'relativity-option', 'cls': CLS_SYNTAX, 'expect': EITHER, 'edit': 'span', 'start': s,
                        'end': e, 'toks': [['-rel-' + r, 'rel'], [fname, 'path']], 'rel': r})
        for r in [f.replace('-', '') for f in forbidden]:
            for depth in (1, 2, 3):
                sym = 'R%d_%s' % (depth, r)
                for form, new in (('rel-sym', [['-rel', 'rel'], [sym, 'ref:path'], ['sub-x', 'path']]),
                                  ('sym-slash', [['@[%s]@/sub-x' % sym, 'path']]),
                                  ('sym', [['@[%s]@' % sym, 'path']])):
                    out.append({'op': 'relativity-via-symbol', 'cls': CLS_SYMBOL, 'expect': VAL, 'edit': 'span',
                                'start': s, 'end': e, 'toks': new, 'needs': [sym], 'rel': r, 'depth': depth,
                                'form': form})
    if role in (ROLE_EXIST, ROLE_READ) and ph == 'setup' and span['what'] != 'act-file':
        # the result directory is made by the act phase: the help pages of the [setup] instructions do not list
        # -rel-result for any argument (those of the phases after [act] do)
        out.append({'op': 'relativity-option', 'cls': CLS_SYNTAX, 'expect': EITHER, 'edit': 'span', 'start': s,
                    'end': e, 'toks': [['-rel-result', 'rel'], [fname, 'path']], 'rel': 'result-before-act'})
        for depth in (1, 2, 3):
            sym = 'R%d_result' % depth
            for form, new in (('rel-sym', [['-rel', 'rel'], [sym, 'ref:path'], ['sub-x', 'path']]),
                              ('sym-slash', [['@[%s]@/sub-x' % sym, 'path']]),
                              ('sym', [['@[%s]@' % sym, 'path']])):
                out.append({'op': 'relativity-via-symbol', 'cls': CLS_SYMBOL, 'expect': VAL, 'edit': 'span',
                            'start': s, 'end': e, 'toks': new, 'needs': [sym], 'rel': 'result-before-act',
                            'depth': depth, 'form': form})
    if role in (ROLE_DEST, ROLE_EXIST, ROLE_READ, ROLE_DEF) and span['what'] != 'act-file':
        # a FILE-NAME is built from strings: a path symbol may only start it (followed by `/`), a list never fits,
        # nor does a string whose value is built from a list / path.  The whole PATH is rewritten so that every
        # form of it (with / without relativity option, quoted, reference first / inside / last) is met
        plain = _unq(fname) if not fname.startswith('@[') else 'name-x'
        ok_rel = {ROLE_DEST: '-rel-act', ROLE_EXIST: '-rel-home', ROLE_READ: '-rel-act', ROLE_DEF: '-rel-tmp'}[role]
        for sym, needs, why in (('P', [], 'path'), ('L', [], 'list'), ('PD', [], 'path'), ('C1_P', ['C1_P'], 'path'),
                                ('C2_L', ['C2_L'], 'list'), ('S_OF_L', ['S_OF_L'], 'string-of-list'),
                                ('S_OF_P', ['S_OF_P'], 'string-of-path'),
                                ('S_OF_S_OF_L', ['S_OF_S_OF_L'], 'string-of-list')):
            r = '@[%s]@' % sym
            forms = [('suffix', plain + r), ('infix', 'pre-' + r + '-post'), ('component', plain + '/' + r),
                     ('soft-quoted', '"%s %s"' % (plain, r)), ('after-string-symbol', '@[S]@' + r),
                     ('twice', plain + r + r)]
            if why == 'list':
                forms += [('whole', r), ('leading', r + '/' + plain)]
            for fname_form, text in forms:
                for with_rel in (False, True):
                    new = ([[ok_rel, 'rel']] if with_rel else []) + [[text, 'path']]
                    out.append({'op': 'wrong-type-in-path', 'cls': CLS_SYMBOL, 'expect': VAL, 'edit': 'span',
                                'start': s, 'end': e, 'toks': new, 'needs': needs, 'form': fname_form,
                                'with_rel': with_rel, 'wtype': why})
    if role == ROLE_EXIST and used:
        what = span['what']
        if what in ('copy-src', 'contents-of', 'existing-file', 'existing-path', 'existing-dir', 'program-file',
                    'dir-contents-of', 'act-file'):
            news = [('home-option', [['-rel-home', 'rel'], ['missing-file', 'path']], []),
                    ('act-home-option', [['-rel-act-home', 'rel'], ['missing-file', 'path']], []),
                    ('home-option-sub', [['-rel-home', 'rel'], ['hd/missing/data.txt', 'path']], []),
                    ('symbol', [['@[MISSING_H]@', 'path']], ['MISSING_H']),
                    ('symbol-act-home', [['@[MISSING_AH]@', 'path']], ['MISSING_AH']),
                    ('rel-symbol', [['-rel', 'rel'], ['HD', 'ref:path'], ['missing-file', 'path']], ['HD']),
                    ('symbol-chain', [['@[MISSING_3]@', 'path']], ['MISSING_3']),
                    ('symbol-slash', [['@[HD]@/missing-file', 'path']], ['HD'])]
            if what != 'act-file':
                news.append(('default-relativity', [['missing-file', 'path']], []))
            for form, new, needs in news:
                out.append({'op': 'missing-home-file', 'cls': CLS_FILE, 'expect': VAL, 'edit': 'span', 'start': s,
                            'end': e, 'toks': new, 'needs': needs, 'form': form, 'what': what})
    if role == ROLE_CONF:
        for nm in ('no-such-dir', 'hd/no-such-dir', 'data.txt'):
            out.append({'op': 'missing-home-file', 'cls': CLS_FILE, 'expect': VAL, 'edit': 'span', 'start': s, 'end': e,
                        'toks': [[nm, 'path']], 'form': 'conf-dir', 'what': span['what']})
    return out


def _set_ref(text, new):
    """replace the symbol name of the first @[..]@ in text"""
    a = text.index('@[')
    b = text.index(']@', a)
    return text[:a + 2] + new + text[b:]


def apply(elems, ei, op):
    """-> new elems (deep copy with the edit made)"""
    new = [{'name': e['name'], 'toks': [list(t) for t in e['toks']]} for e in elems]
    toks = new[ei]['toks']
    edit = op['edit']
    if edit == 'name':
        toks[op['tok']][0] = op['ref']
    elif edit == 'sref-name':
        toks[op['tok']][0] = _set_ref(toks[op['tok']][0], op['ref'])
    elif edit == 'append':
        toks[op['tok']][0] = toks[op['tok']][0] + '@[%s]@' % op['ref']
    elif edit == 'append-soft':
        toks[op['tok']][0] = toks[op['tok']][0] + '"@[%s]@"' % op['ref']
    elif edit == 'replace':
        toks[op['tok']][0] = op['text']
    elif edit == 'insert-after':
        toks.insert(op['tok'] + 1, [op['text'], 'kw'])
    elif edit == 'append-arg':
        toks.append([op['text'], 'str'])
    elif edit == 'span':
        toks[op['start']:op['end']] = [list(t) for t in op['toks']]
    elif edit == 'truncate-after':
        del toks[op['tok'] + 1:]
    elif edit == 'append-line':
        toks.append(['\n', 'nl'])
        toks.append([op['text'], 'text'])
    else:
        raise ValueError(edit)
    return new
