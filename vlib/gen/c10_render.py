"""C10: rendering of a case (JSON value, ids assigned by vlib.ref.c10_model.with_ids) as Exactly source text.

The renderer is the inverse of the denotation in vlib/ref/c10_model.py and respects DESIGN.md 2.10:
program arguments run to end of line, `-stdin` / `-transformed-by` of a program start a new line, a text source
that is followed by the program's own `-transformed-by` (or that is a program itself) is put inside parentheses
(otherwise the grammar lets the text source take the transformation), here-document bodies are never indented.
Quoting *preferences* of the case are honoured where the syntax allows, otherwise the nearest legal quoting is used,
so every case - also a shrunk one - renders to a valid test case with the same denotation.

Independent of the code under test (no exactly_lib import).
"""
import shlex

from vlib.ref.c10_model import PHASES, string_chunks, Model

PROBE_CMD = '{PY} {PROBE} {OBS}/%s'
EXE_NAME = 'bin/probe'
PCOPY_NAME = 'pcopy.py'
SRC_NAME = 'data/src.txt'

REL_OPT = {'default': '', 'home': '-rel-home ', 'act-home': '-rel-act-home ', 'act': '-rel-act ', 'tmp': '-rel-tmp ',
           'cd': '-rel-cd '}


# ---- strings --------------------------------------------------------------------
def r_string(sspec, text_source_position=False):
    """STRING: the fragments (vlib.ref.c10_model.string_chunks - the model computes the value from the same
    fragments), each written with its own quotes, side by side"""
    out = []
    for st, tx, is_ref in string_chunks(sspec, text_source_position):
        if is_ref:
            tx = '@[%s]@' % tx
        out.append(tx if st == 'n' else '"%s"' % tx if st == 's' else "'%s'" % tx)
    return ''.join(out)


def r_plain(value, pref='s'):
    return r_string({'frs': [[pref, [['t', value]]]]})


def r_pieces(pieces):
    return ''.join(t if k == 't' else '@[%s]@' % t for k, t in pieces)


def _here(lines, marker):
    body = [r_pieces(l) for l in lines]
    m = marker or 'EOF'
    while m in body:
        m += 'X'
    return ['<<' + m] + body + [m]


def _split_act(plines, which):
    """the lines of the act program, with a second `[act]` header (after an empty declaration of another phase) in
    front of the which-th line that begins an own-line part of the program (-stdin / -transformed-by) outside
    parentheses, here-documents and continued lines; which = 0: one block"""
    if not which:
        return plines
    cands = []
    marker = None
    depth = 0
    for i, l in enumerate(plines):
        st = l.strip()
        if marker is not None:
            if l == marker:
                marker = None
            continue
        if i > 0 and depth == 0 and not plines[i - 1].rstrip().endswith('\\') and \
                (st.startswith('-stdin ') or st.startswith('-transformed-by ')):
            cands.append(i)
        toks = st.split()
        depth += toks.count('(') - toks.count(')')
        for t in toks:
            if t.startswith('<<') and len(t) > 2:
                marker = t[2:]
    if not cands:
        return plines
    i = cands[(which - 1) % len(cands)]
    return plines[:i] + ['[before-assert]', '[act]'] + plines[i:]


# ---- arguments -------------------------------------------------------------------
def r_args(args, last=None, cont=None):
    """-> list of lines (the first continues the program line)"""
    toks = []
    for a in args:
        k = a['k']
        if k == 'str':
            toks.append(r_string(a))
        elif k == 'ref':
            toks.append('@[%s]@' % a['n'])
        elif k == 'hardref':
            toks.append("'@[%s]@'" % a['n'])
        elif k == 'xpath':
            toks.append('-existing-%s %s%s' % (a['opt'], REL_OPT[a['rel']], a['name']))
        else:
            raise ValueError(k)
    lines = []
    if cont is not None and 0 < cont < len(toks) and not toks[cont].startswith('#'):
        # (a continuation line that starts with '#' could be taken for a comment line: not generated)
        lines.append(' '.join(toks[:cont]) + ' \\')
        cur = '    ' + ' '.join(toks[cont:])
    else:
        cur = ' '.join(toks)
    if last:
        if last['k'] == 'eol':
            lines.append((cur + ' ' if cur.strip() else cur) + ':> ' + r_pieces(last['pieces']))
        else:
            h = _here(last['lines'], last.get('marker'))
            lines.append((cur + ' ' if cur.strip() else cur) + h[0])
            lines.extend(h[1:])
    else:
        lines.append(cur)
    return lines


def r_shell(sh, plain_c=False):
    """sh = dict(words=[word], seps=[separator strings]); word = [[style, pieces], ...] style u/s/d/c
    plain_c: command substitutions replaced by their value (harness self check)"""
    out = []
    seps = sh.get('seps') or []
    for i, w in enumerate(sh['words']):
        if i:
            out.append(seps[i - 1] if i - 1 < len(seps) and seps[i - 1] else ' ')
        for style, pieces in w:
            tx = r_pieces(pieces)
            out.append(tx if style == 'u' else "'%s'" % tx if style == 's' else '"%s"' % tx if style == 'd'
                       else (tx if plain_c else '$(echo %s)' % tx))
    return ''.join(out) + (sh.get('trail') or '')


def r_shell_cmd(probe, sh):
    """the SHELL-COMMAND-LINE that starts the probe with the words of `sh` as arguments"""
    return (sh.get('pre') or '') + PROBE_CMD % probe + ' ' + r_shell(sh) + (sh.get('post') or '')


# ---- programs --------------------------------------------------------------------
def r_head(h):
    k = h['k']
    if k == 'sys':
        v = h.get('variant', 'plain')
        py = '{PY}' if v == 'plain' else '"{PY}"' if v == 'soft' else '@[%s]@' % v
        return '%% %s {PROBE} {OBS}/%s' % (py, h['probe'])
    if k == 'py':
        return '-python {PROBE} {OBS}/%s' % h['probe']
    if k == 'exe':
        v = h.get('variant', 'default')
        if v == 'abs-python':
            return PROBE_CMD % h['probe']
        if v == 'abs':
            return '{HOME}/%s {OBS}/%s' % (EXE_NAME, h['probe'])
        if v == 'pathsym':
            return '@[EXE_PATH]@ {OBS}/%s' % h['probe']
        return '%s%s {OBS}/%s' % (REL_OPT[v], EXE_NAME, h['probe'])
    if k == 'shell':
        return '$ ' + r_shell_cmd(h['probe'], h['sh'])
    if k == 'sym':
        return '@ ' + h['n']
    raise ValueError(k)


def _join(first, lines):
    """first + ' ' + lines[0], rest unchanged (here-document bodies must stay unindented)"""
    head = first + ' ' + lines[0] if lines[0] != '' else first
    return [head] + list(lines[1:])


def r_program(p):
    h = p['head']
    if h['k'] == 'shell':
        lines = [r_head(h)]
    else:
        lines = _join(r_head(h), r_args(p.get('args', []), p.get('last'), p.get('cont')))
    if p.get('stdin'):
        ts = p['stdin']
        need_paren = bool(p.get('tr')) or ts['k'] == 'pgm' or bool(ts.get('tr')) or bool(ts.get('paren'))
        lines.extend(_join('  -stdin', r_ts(ts, need_paren)))
    if p.get('tr'):
        lines.extend(_join('  -transformed-by', r_tr(p['tr'])))
    if p.get('paren'):
        lines = _join('(', lines) + [')']
    return lines


def r_ts(ts, paren=False):
    k = ts['k']
    if k == 'str':
        lines = [r_string(ts['s'], text_source_position=True)]
    elif k == 'here':
        lines = _here(ts['lines'], ts.get('marker'))
    elif k == 'file':
        lines = ['-contents-of %s%s' % (REL_OPT[ts.get('rel', 'default')], ts['name'])]
    elif k in ('ssym', 'tsym'):
        lines = ['@[%s]@' % ts['n']]
    elif k == 'pgm':
        opt = '-%s-from%s' % (ts['chan'], ' -ignore-exit-code' if ts.get('ignore') else '')
        lines = _join(opt, r_program(ts['p']))
    else:
        raise ValueError(k)
    if ts.get('tr') and k != 'pgm':
        t = _join('-transformed-by', r_tr(ts['tr']))
        if len(lines) == 1 and not ts.get('tr_on_new_line'):
            lines = _join(lines[0], t)
        else:
            lines = lines + ['    ' + t[0]] + t[1:]
    if paren:
        lines = _join('(', lines) + ['  )']
    return lines


def r_prim(prim):
    op = prim[0]
    if op == 'upper':
        return 'char-case -to-upper'
    if op == 'lower':
        return 'char-case -to-lower'
    if op == 'strip':
        return 'strip'
    if op == 'strip-nl':
        return 'strip -trailing-new-lines'
    if op == 'strip-sp':
        return 'strip -trailing-space'
    if op == 'repl':
        return 'replace %s %s' % (prim[1], prim[2])
    if op == 'id':
        return 'identity'
    raise ValueError(op)


def r_tr(tr):
    """sequence of primitives; a `run` primitive is last (its PROGRAM runs to end of line)"""
    if len(tr) == 1 and tr[0][0] != 'run':
        return [r_prim(tr[0])]
    pure = [r_prim(x) for x in tr if x[0] != 'run']
    runs = [x for x in tr if x[0] == 'run']
    if runs and (len(runs) > 1 or tr[-1][0] != 'run'):
        raise ValueError('a run primitive must be the last one of a transformer')
    if not runs:
        return ['( ' + ' | '.join(pure) + ' )']
    run = runs[0]
    plines = _join('run%s' % (' -ignore-exit-code' if run[2] else ''), r_program(run[1]))
    first = '( ' + ''.join(x + ' | ' for x in pure) + plines[0]
    return [first] + plines[1:] + ['  )']


# ---- instructions ----------------------------------------------------------------
def _claim_text(what_claim, files, via):
    """rendering of `equals TEXT-SOURCE` for an expected text; may add a file to `files`"""
    text = what_claim
    if via == 'here' and text.endswith('\n') and '@[' not in text and '\r' not in text:
        body = text[:-1].split('\n')
        m = 'EOF'
        while m in body:
            m += 'X'
        return ['equals <<' + m] + body + [m]
    if via == 'str' and text and not (set(text) & set('\n\r\'')) and '@[' not in text:
        return ["equals '%s'" % text]
    name = 'claims/c%d.txt' % len([f for f in files if f.startswith('claims/')])
    files[name] = text
    return ['equals -contents-of ' + name]


def r_instr(ins, files):
    k = ins['k']
    if k == 'cd':
        return ['cd %s%s' % (REL_OPT[ins['rel']], ins['name'])]
    if k == 'run':
        return _join('run%s' % (' -ignore-exit-code' if ins.get('ignore') else ''), r_program(ins['p']))
    if k == 'sys':
        return _join('% ' + PROBE_CMD % ins['probe'], r_args(ins['args'], ins.get('last'), ins.get('cont')))
    if k == 'shell':
        return ['$ ' + r_shell_cmd(ins['probe'], ins['sh'])]
    if k == 'filefrom':
        opt = '-%s-from%s' % (ins['chan'], ' -ignore-exit-code' if ins.get('ignore') else '')
        lines = _join(opt, r_program(ins['p']))
        if ins.get('paren'):
            lines = _join('(', lines) + ['  )']
        return _join('file %s%s =' % ('' if ins['rel'] == 'cd' else REL_OPT[ins['rel']], ins['name']), lines)
    if k == 'from':
        what = ins['what']
        name = {'exit': 'exit-code', 'stdout': 'stdout', 'stderr': 'stderr'}[what]
        lines = _join(name + ' -from', r_program(ins['p']))
        if what == 'exit':
            return lines + ['    == %d' % ins['claim']]
        m = _claim_text(ins['claim'], files, ins.get('via'))
        return lines + ['    ' + m[0]] + m[1:]
    raise ValueError(k)


def _chain_names(case, p):
    """names of the program symbols that the program is defined through (definition order)"""
    by_name = {d['n']: d['p'] for d in case.get('pgms', [])}
    names = []
    while p['head']['k'] == 'sym':
        names.insert(0, p['head']['n'])
        p = by_name[p['head']['n']]
    return names


def r_instr_w_defs(case, ins, files):
    lines = []
    if ins.get('local_defs'):
        by_name = {d['n']: d['p'] for d in case.get('pgms', [])}
        for n in _chain_names(case, ins['p']):
            lines += _join('def program %s =' % n, r_program(by_name[n]))
    return lines + r_instr(ins, files)


def r_claim(claim, files):
    if claim['what'] == 'exit':
        return ['exit-code == %d' % claim['v']]
    return _join(claim['what'], _claim_text(claim['v'], files, claim.get('via')))


def r_sym_def(d):
    if d['t'] == 'string':
        return ['def string %s = %s' % (d['n'], r_plain(d['v'], d.get('q', 's')))]
    if d['t'] == 'list':
        return [('def list %s = %s' % (d['n'], ' '.join(r_plain(e, d.get('q', 'n')) for e in d['v']))).rstrip()
                if d['v'] else 'def list %s =' % d['n']]
    return ['def path %s = %s%s' % (d['n'], REL_OPT[d['rel']], d['name'])]


def r_interpreter(act):
    if act['variant'] == 'probe-is-interpreter':
        return _join('% ' + PROBE_CMD % act['probe'], r_args(act.get('iargs', [])))[0]
    return {'sys': '% {PY}', 'py': '-python', 'exe': '{PY}'}[act.get('interp', 'sys')]


def r_cli_args(case):
    """-> command line arguments (before the test case file) that the case denotes: `--actor COMMAND-LINE`
    ("a command line (with optional arguments), using Unix shell syntax"; the source interpreter actor)"""
    act = case.get('act')
    if not act or act.get('via') != 'cli':
        return []
    if act['variant'] == 'probe-is-interpreter':
        words = ['{PY}', '{PROBE}', '{OBS}/' + act['probe']] + Model(case).args_value(act.get('iargs', []))
    else:
        words = ['{PY}']
    return ['--actor', ' '.join(shlex.quote(w) for w in words)]


SOURCE_PY = ['import sys', 'sys.argv[1:] = %s', "exec(compile(open('{PROBE}').read(), '{PROBE}', 'exec'))"]


def r_case(case):
    """-> (text of the test case, dict of additional home files)"""
    files = dict(case.get('files', {}))
    act = case.get('act')
    lines = []
    actor = None
    if act:
        k = act['k']
        if k == 'program' and act.get('explicit_actor'):
            actor = 'command'
        elif k == 'file':
            actor = 'file ' + r_interpreter(act)
        elif k == 'source':
            actor = 'source ' + r_interpreter(act)
        elif k == 'null' and act.get('explicit_actor', True):
            actor = 'null'
    conf = []
    if case.get('act_home'):
        conf.append('act-home = ' + case['act_home'])
    if actor and act.get('via') == 'suite':
        files['exactly.suite'] = '[conf]\nactor = %s\n' % actor
    elif actor and act.get('via') == 'cli':
        pass  # r_cli_args
    elif actor:
        conf.append('actor = ' + actor)
    if conf:
        lines += ['[conf]'] + conf + ['']
    local = set()
    for ph in PHASES:
        for ins in case.get('phases', {}).get(ph, []):
            if ins.get('local_defs'):
                local.update(_chain_names(case, ins['p']))
    lines.append('[setup]')
    for d in case.get('dirs', []):
        lines.append('dir %s%s' % (REL_OPT[d[0]], d[1]))
    for d in case.get('syms', []):
        lines += r_sym_def(d)
    for d in case.get('tsyms', []):
        lines += _join('def text-source %s =' % d['n'], r_ts(d['ts'], bool(d.get('paren'))))
    for d in case.get('pgms', []):
        if d['n'] not in local:
            lines += _join('def program %s =' % d['n'], r_program(d['p']))
    if case.get('setup_stdin'):
        lines += _join('stdin =', r_ts(case['setup_stdin'], bool(case['setup_stdin'].get('paren'))))
    phases = case.get('phases', {})
    for ins in phases.get('setup', []):
        lines += r_instr_w_defs(case, ins, files)
    lines.append('')
    if act and not (act['k'] == 'null' and act.get('absent')):
        lines.append('[act]')
        k = act['k']
        if k == 'program':
            for c in act.get('comments_before', []):
                lines.append(c)
            lines += _split_act(r_program(act['p']), act.get('split', 0))
        elif k == 'file':
            if act['variant'] == 'probe-is-interpreter':
                first = '%s%s' % (REL_OPT[act['rel']], act['name'])
            else:
                first = '%s%s {OBS}/%s' % (REL_OPT[act['rel']], PCOPY_NAME, act['probe'])
            lines += _join(first, r_args(act['args'], act.get('last'), act.get('cont')))
        elif k == 'source':
            if act['variant'] == 'probe-is-interpreter':
                lines += list(act['lines'])
            else:
                lines += [SOURCE_PY[0], SOURCE_PY[1] % repr(['{OBS}/' + act['probe']] + list(act['pyargs'])),
                          SOURCE_PY[2]]
        elif k == 'null':
            lines += list(act.get('lines', []))
        lines.append('')
    if phases.get('before-assert'):
        lines.append('[before-assert]')
        for ins in phases['before-assert']:
            lines += r_instr_w_defs(case, ins, files)
        lines.append('')
    if case.get('claims') or phases.get('assert'):
        lines.append('[assert]')
        for c in case.get('claims', []):
            lines += r_claim(c, files)
        for ins in phases.get('assert', []):
            lines += r_instr_w_defs(case, ins, files)
        lines.append('')
    if phases.get('cleanup'):
        lines.append('[cleanup]')
        for ins in phases['cleanup']:
            lines += r_instr_w_defs(case, ins, files)
        lines.append('')
    return '\n'.join(lines) + '\n', files
