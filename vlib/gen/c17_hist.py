"""C17 generators, part 3: lists of cases that change settings and cases that observe them (sub-check `histories`).
Independent of the code under test.

A case = {'id', 'conf': {...}, 'ops': {phase: [op, ...]}, 'act': {...}}; every op is rendered to one or two
instruction lines.  Everything a case executes is a fixed-form harmless shell line (pwd / env | sort / find in the
sandbox / cat / echo / exit N / sleep) or the probe program.  Names (variables, symbols, files) come from small shared
pools, so that what one case sets is exactly what another case looks at.
"""
from hypothesis import strategies as st

from vlib.gen.c17_gen import w, chance

IPHASES = ['setup', 'before-assert', 'assert', 'cleanup']
VARS = ['VERIF_C17_A', 'VERIF_C17_B', 'VERIF_PRESET']
SYMS = ['P0', 'P1', 'P2']
FILES = ['f0', 'f1']
EXTRA_ENV = {'VERIF_C17_A': None, 'VERIF_C17_B': None, 'VERIF_PRESET': 'preset-value'}

_OBS = '{ pwd; env | sort; find "@[EXACTLY_ACT]@" "@[EXACTLY_TMP]@" | sort; } > {OBS}/%s.%s 2>&1'
_ACT_OBS = '{ pwd; env | sort; cat; } > {OBS}/%s.act 2>&1'


def render_op(cid, phase, n, op):
    k = op[0]
    tag = '%s-%d' % (phase, n)
    if k == 'env':
        return ['env %s = "%s"' % (op[1], op[2])]
    if k == 'envof':
        return ['env -of %s %s = "%s"' % (op[1], op[2], op[3])]
    if k == 'unset':
        return ['env unset %s' % op[1]]
    if k == 'cd':
        if op[1] == 'new':
            return ['dir -rel-act nd%d' % n, 'cd -rel-act nd%d' % n]
        return ['cd -rel-%s .' % op[1]]
    if k == 'timeout':
        return ['timeout = %s' % op[1]]
    if k == 'def':
        return ['def string %s = %s' % (op[1], op[2])]
    if k == 'file':
        return ['file -rel-%s %s = "%s"' % (op[1], op[2], cid)]
    if k == 'dir':
        return ['dir -rel-%s %s' % (op[1], op[2])]
    if k == 'shfile':
        return ['$ echo %s > %s' % (cid, op[1])]
    if k == 'stdin':
        return ['stdin = "stdin-of-%s"' % cid]
    if k == 'obs':
        return ['$ ' + _OBS % (cid, tag)]
    if k == 'use':
        return ['$ echo "@[%s]@" > {OBS}/%s.%s' % (op[1], cid, tag)]
    if k == 'exists':
        return ['exists %s-rel-%s %s' % ('! ' if op[3] else '', op[1], op[2])]
    if k == 'sleep':
        return ['$ sleep 1.5']
    if k == 'hard':
        return ['$ exit 3']
    if k == 'incl':
        return ['including ' + op[1]]
    if k == 'valerr':
        return ['def string Z%d = @[UNDEFINED_SYMBOL]@' % n]
    if k == 'synerr':
        return ['no-such-instruction x']
    raise ValueError(op)


def render_case(c):
    cid = c['id']
    out = []
    conf = []
    cf = c['conf']
    if cf.get('status'):
        conf.append('status = ' + cf['status'])
    if cf.get('actor'):
        conf.append({'null': 'actor = null', 'source': 'actor = source % sh'}[cf['actor']])
    if cf.get('home'):
        conf.append('home = ' + cf['home'])
    if cf.get('act_home'):
        conf.append('act-home = ' + cf['act_home'])
    if conf:
        out += ['[conf]'] + conf
    for ph in ['setup', 'act', 'before-assert', 'assert', 'cleanup']:
        if ph == 'act':
            a = c['act']
            src = cf.get('actor') == 'source'
            if a['kind'] == 'obs':
                out += ['[act]', ('' if src else '$ ') + _ACT_OBS % cid]
            elif a['kind'] == 'exit':
                out += ['[act]', ('' if src else '$ ') + 'exit %d' % a['code']]
            elif a['kind'] == 'sleep':
                out += ['[act]', ('' if src else '$ ') + 'sleep 1.5']
            elif a['kind'] == 'py' and not src:
                out += ['[act]', '% {PY} {PROBE} {OBS}/' + cid + '.py arg-of-' + cid]
            elif a['kind'] == 'py':
                out += ['[act]', _ACT_OBS % cid]
            continue
        lines = []
        for n, op in enumerate(c['ops'].get(ph, [])):
            lines += render_op(cid, ph, n, op)
        if lines:
            out += ['[%s]' % ph] + lines
    return '\n'.join(out) + '\n'


# ---- strategy ---------------------------------------------------------------------------------------------------
_MUT = w([('env', 8), ('envof', 2), ('unset', 3), ('cd', 6), ('timeout', 2), ('def', 6), ('file', 5), ('dir', 2),
          ('shfile', 2), ('stdin', 2)])
_VAL = st.sampled_from(['v1', 'v2', 'x y', '', '${VERIF_PRESET}-ext', '${VERIF_C17_A}+'])


def _mutator(draw, phase, slow):
    k = draw(_MUT)
    if k == 'envof' and phase != 'setup':
        k = 'env'
    if k == 'stdin' and phase != 'setup':
        k = 'cd'
    if k == 'env':
        return ['env', draw(st.sampled_from(VARS)), draw(_VAL)]
    if k == 'envof':
        return ['envof', draw(st.sampled_from(['act', '!act'])), draw(st.sampled_from(VARS)), draw(_VAL)]
    if k == 'unset':
        return ['unset', draw(st.sampled_from(VARS))]
    if k == 'cd':
        return ['cd', draw(st.sampled_from(['tmp', 'act', 'new', 'new']))]
    if k == 'timeout':
        return ['timeout', draw(st.sampled_from(['1', '1'] if slow else ['5', 'none', '60', '30+30']))]
    if k == 'def':
        return ['def', draw(st.sampled_from(SYMS)), draw(st.sampled_from(['dv1', 'dv2', '"d v"']))]
    if k == 'file':
        return ['file', draw(st.sampled_from(['act', 'tmp'])), draw(st.sampled_from(FILES))]
    if k == 'dir':
        return ['dir', draw(st.sampled_from(['act', 'tmp'])), draw(st.sampled_from(['dd0', 'dd1']))]
    if k == 'shfile':
        return ['shfile', draw(st.sampled_from(FILES + ['g0']))]
    return ['stdin']


def _observer(draw, phase, slow):
    k = draw(w([('obs', 10), ('use', 4), ('exists', 3 if phase == 'assert' else 0), ('sleep', 3 if slow else 0)]))
    if k == 'use':
        return ['use', draw(st.sampled_from(SYMS))]
    if k == 'exists':
        return ['exists', draw(st.sampled_from(['act', 'tmp'])), draw(st.sampled_from(FILES)), chance(draw, 1, 2)]
    return [k]


def _dedupe(ops_by_phase):
    """a case must not define a pool symbol / create a file twice itself (that would be its own validation / hard
    error in every run - legal, but uninformative): later duplicates are dropped"""
    seen = set()
    has_timeout = any(op[0] == 'timeout' for ph in IPHASES for op in ops_by_phase.get(ph, []))
    for ph in IPHASES:
        keep = []
        for op in ops_by_phase.get(ph, []):
            key = None
            if op[0] == 'sleep':
                # a sleeping case keeps the default timeout (its own `timeout = 1` would make the outcome a race);
                # one sleep per case
                if has_timeout:
                    continue
                key = ('sleep',)
            if op[0] == 'def':
                key = ('def', op[1])
            elif op[0] in ('file', 'dir'):
                key = ('path', op[1], op[2])
            if key is not None:
                if key in seen:
                    continue
                seen.add(key)
            keep.append(op)
        ops_by_phase[ph] = keep


# ---- files included by several cases ("the contents of an included file spliced in at the place of the including
# directive"): instruction lines that are valid in every phase, optionally followed by a header and lines of another
# phase.  What one case puts behind its `including` line must not show up in another case that includes the same file.
_SHARED_LINES = ['env VERIF_C17_B = "from-shared-file"', 'def string SH%d = shared-value', 'dir -rel-tmp shd%d',
                 '$ echo shared >> shared%d.log', 'env unset VERIF_PRESET']


@st.composite
def _shared_file(draw, k):
    def lines():
        ls = draw(st.lists(st.sampled_from(_SHARED_LINES), min_size=0, max_size=2, unique=True))
        return [(l % k) if '%d' in l else l for l in ls]
    first = lines()
    out = list(first)
    used = set(first)
    for _ in range(draw(w([(0, 2), (1, 5), (2, 2)]))):
        out.append('[%s]' % draw(st.sampled_from(IPHASES)))
        more = [l for l in lines() if l not in used or not (l.startswith('def') or l.startswith('dir'))]
        used.update(more)
        out.extend(more)
    return '\n'.join(out) + '\n'


@st.composite
def _case(draw, cid, slow, shared=()):
    role = draw(w([('mutator', 4), ('observer', 3), ('both', 3)]))
    conf = {'status': draw(w([(None, 12), ('FAIL', 2), ('SKIP', 1), ('PASS', 1)])),
            'actor': draw(w([(None, 12), ('null', 1), ('source', 2)])),
            'home': draw(w([(None, 8), ('hd', 2)])), 'act_home': draw(w([(None, 10), ('hd', 1)]))}
    ops = {p: [] for p in IPHASES}
    if role in ('observer', 'both') and not chance(draw, 1, 5):
        ops['setup'].append(['obs'])  # first thing: what did earlier cases leave?
    n = draw(st.integers(1, 6))
    phases = sorted(draw(st.lists(st.sampled_from(['setup', 'setup'] + IPHASES), min_size=n, max_size=n)),
                    key=IPHASES.index)
    for ph in phases:
        if role == 'mutator' or (role == 'both' and chance(draw, 1, 2)):
            ops[ph].append(_mutator(draw, ph, slow))
        else:
            ops[ph].append(_observer(draw, ph, slow))
    if role != 'mutator' or chance(draw, 1, 3):
        ops[draw(st.sampled_from(['assert', 'cleanup']))].append(['obs'])
    ending = draw(w([('ok', 12), ('hard', 3), ('valerr', 1), ('synerr', 1)]))
    if ending != 'ok':
        ph = draw(st.sampled_from(IPHASES))
        pos = draw(st.integers(0, len(ops[ph])))
        ops[ph].insert(pos, [ending])
    _dedupe(ops)
    if shared and chance(draw, 2, 3):
        ph = draw(st.sampled_from(IPHASES))
        ops[ph].insert(draw(st.integers(0, len(ops[ph]))), ['incl', draw(st.sampled_from(sorted(shared)))])
    # half of the symbol observers look at a symbol the case defined itself earlier (if any)
    own = []
    for ph in IPHASES:
        for op in ops[ph]:
            if op[0] == 'def':
                own.append(op[1])
            elif op[0] == 'use' and own and chance(draw, 1, 2):
                op[1] = own[-1]
    act = {'kind': draw(w([('obs', 8), ('exit', 3), ('py', 1), ('none', 2)])), 'code': draw(st.sampled_from([0, 1, 3]))}
    return {'id': cid, 'conf': conf, 'ops': ops, 'act': act}


def _orders(draw, n, max_orders):
    """all orders for <= 4 cases (the quantifier: "in every order"); beyond: the given order, its reverse and random
    ones, `max_orders` in all"""
    import itertools
    if n <= 4:
        return [list(p) for p in itertools.permutations(range(n))]
    idx = list(range(n))
    out = [idx, idx[::-1]]
    for _ in range(max_orders - 2):
        p = list(draw(st.permutations(idx)))
        if p not in out:
            out.append(p)
    return out


@st.composite
def histories(draw, tier='quick'):
    # timeout = 1 in one case, sleep 1.5 in another costs seconds: the quick tier has them in `slow_cases` only
    slow = tier != 'quick' and chance(draw, 1, 10)
    if slow:
        n = draw(w([(2, 2), (3, 1)]))
    elif tier == 'quick':
        n = draw(w([(2, 8), (3, 10), (4, 2), (5, 2)]))
    else:
        n = draw(w([(2, 4), (3, 5), (4, 2), (5, 1)]))
    shared = {}
    if not slow and chance(draw, 1, 3):
        for k in range(draw(w([(1, 3), (2, 1)]))):
            shared['shared%d.xly' % k] = draw(_shared_file(k))
    cases = [draw(_case('c%d' % i, slow, tuple(sorted(shared)))) for i in range(n)]
    orders = _orders(draw, n, 6 if tier == 'quick' else 12)
    if slow:
        orders = orders[:2]
    return {'cases': cases, 'orders': orders, 'split': draw(st.integers(1, n - 1)) if chance(draw, 1, 4) else 0,
            'shared': shared}


# ---- the slow ones, enumerated: a timeout set by one case must not end the processes of the next -------------------
def _plain_case(cid, ops, act_kind='none'):
    full = {p: [] for p in IPHASES}
    full.update(ops)
    return {'id': cid, 'conf': {'status': None, 'actor': None, 'home': None, 'act_home': None}, 'ops': full,
            'act': {'kind': act_kind, 'code': 0}}


def timeout_histories(tier):
    """case c0 sets `timeout = 1` in one phase; case c1 runs a process that needs 1.5 s (an instruction of one phase, or
    the action to check) and never sets a timeout itself.  quick: 4 combinations of the phases, order c0 c1;
    thorough: all 20, both orders, and with a third case between the two."""
    combos = [(pa, pb) for pa in IPHASES for pb in IPHASES + ['act']]
    if tier == 'quick':
        combos = [('setup', 'act'), ('before-assert', 'setup'), ('assert', 'cleanup'), ('cleanup', 'assert')]
    for pa, pb in combos:
        c0 = _plain_case('c0', {pa: [['timeout', '1']], 'cleanup': [['obs']] if pa != 'cleanup' else
                                [['timeout', '1'], ['obs']]})
        if pb == 'act':
            c1 = _plain_case('c1', {'assert': [['obs']]}, act_kind='sleep')
        else:
            c1 = _plain_case('c1', {pb: [['sleep'], ['obs']]})
        yield {'cases': [c0, c1], 'orders': [[0, 1]] if tier == 'quick' else [[0, 1], [1, 0]], 'split': 0}
        if tier != 'quick' and pa in ('setup', 'cleanup'):
            c2 = _plain_case('c2', {'setup': [['env', 'VERIF_C17_A', 'v1']], 'assert': [['obs']]}, act_kind='exit')
            yield {'cases': [c0, c2, c1], 'orders': [[0, 1, 2]], 'split': 1 if pb == 'act' else 0}
