"""C17 generators, part 2: suite-level instructions that consume symbols which every case defines differently
(sub-check `suite_symbols`).  Independent of the code under test.

A *unit* is a suite-level instruction (sometimes two or three) of one kind that consumes 1-3 symbols and makes its
result observable: value units (kind 'V') write a file / directory below the sandbox's tmp/ directory which the next
suite-level line copies to {MARKERS} (every line prefixed with `<sandbox tmp dir>|U<k>|`); assertion units (kind 'A')
end the case with FAIL / HARD_ERROR or are followed by a `passed` marker.  The symbols are defined by each case (in a
phase before the unit's phase, or in any phase for units in the suite's [cleanup], which comes after the case's), or
- for some - by the suite's own [setup].  Every case takes its value from the symbol's pool: several valid values of
the right type, a few invalid ones (bad integer / range / regex), a definition of the wrong type, or no definition.

Syntax rules respected (DESIGN 2.10): a program and its arguments end the line; `-stdin` / `-transformed-by` of a
program / the matcher after `-from PROGRAM` are on lines of their own; one FILE-SPEC / FILE-CONDITION per line;
operators and parentheses are separate tokens; here-document markers alone at the end of the line.

Besides symbols, a case may give a *configuration value* that suite-level instructions depend on: pools of type
`conf:home` / `conf:act-home` are rendered as `home = DIR` / `act-home = DIR` in the case's [conf] phase (the suite's
instructions then resolve `-rel-home` / `-rel-act-home` paths against another directory in every case).

Fixtures made by the suite's [setup] for every case (in the sandbox's tmp/ directory): data.txt (5 lines), other.txt
(2 lines), tree/ (f1.txt, f2.log, sub/g.txt); in the home directory (made by the harness): h1.txt, h2.txt, hdir/in1,
which.txt, which.py, and the directories hA/ and hB/ with files of the same names but other contents (hA/onlyA.txt).
"""
from hypothesis import strategies as st

from vlib.gen.c17_gen import w, chance

IPHASES = ['setup', 'before-assert', 'assert', 'cleanup']

FIXTURE_LINES = [
    'file -rel-tmp data.txt = <<EOF', 'a1 x', 'b2 y', 'c3 x', 'd4 y', 'e5 x', 'EOF',
    'file -rel-tmp other.txt = <<EOF', 'o1 y', 'o2 x', 'EOF',
    'dir -rel-tmp tree = {', '  file f1.txt = "x"', '  file f2.log', '  dir sub = {', '    file g.txt', '  }', '}',
]
HOME_FILES = {'h1.txt': 'h1 x\nh1 y\n', 'h2.txt': 'h2 only\n', 'hdir/in1': 'in1\n', 'which.txt': 'which: default x\n',
              'which.py': 'print("py-default")\n'}
for _d in ('hA', 'hB'):
    HOME_FILES.update({_d + '/h1.txt': 'h1 x\nh1 y %s\n' % _d, _d + '/h2.txt': 'h2 only %s\n' % _d,
                       _d + '/hdir/in1': 'in1 %s\n' % _d, _d + '/which.txt': 'which: %s y\n' % _d,
                       _d + '/which.py': 'print("py-%s")\n' % _d})
HOME_FILES['hA/onlyA.txt'] = 'only in hA\n'
HOME_FILES['h(x/which.txt'] = 'which: h(x\n'

# ---- pools: name -> (type, [valid values], [invalid values of the right type]) -----------------------------------
POOLS = {
    'RANGE': ('string', ['1', '2', '2:3', ':2', '4:', '-1', '-2:', '1:1'], ['x', '1:2:3']),
    'INT01': ('string', ['0', '1', '0+0', '2', '1-1'], ['x1']),
    'INT5': ('string', ['5', '4', '2+3', '2', '6-1'], ['1.5']),
    'TINT': ('string', ['5', '60', '7+1', '30'], ['soon']),
    'WORD': ('string', ['x', 'y', 'a1', 'zz', 'Q'], []),
    'REGEX': ('string', ['x$', '^a', '[bd]', 'y', 'nomatch', '^[ace]'], ["'('"]),
    'GLOB': ('string', ['*.txt', 'f*', '*.log', 'g*', '*'], []),
    'FNAME': ('string', ['data.txt', 'other.txt'], ['missing.txt']),
    'HNAME': ('string', ['h1.txt', 'h2.txt'], ['missing.txt']),
    'DNAME': ('string', ['tree', 'tree/sub'], ['nodir']),
    'INTERP': ('string', ['sh', 'cat'], []),
    'LIST': ('list', ['a b', 'x', '"p q" r', 'a1 b2 c3', ''], []),
    'PATH_F': ('path', ['-rel-tmp data.txt', '-rel-tmp other.txt', '-rel-home h1.txt', '-rel-home h2.txt'],
               ['-rel-tmp missing.txt', '-rel-home missing.txt']),
    'PATH_D': ('path', ['-rel-tmp tree', '-rel-tmp tree/sub', '-rel-act .'], ['-rel-tmp nodir']),
    'PATH_ANY': ('path', ['-rel-tmp data.txt', '-rel-tmp tree', '-rel-tmp missing.txt', '-rel-home h1.txt',
                          '-rel-home hdir', '-rel-tmp tree/f2.log'], []),
    'LM': ('line-matcher', ['contents matches x', 'line-num == 2', 'line-num >= 4', '! contents matches x',
                            'constant false', 'contents matches ^[ab]', 'constant true'], ['line-num == 1.5']),
    'TM': ('text-matcher', ['num-lines == 5', 'num-lines == 2', 'is-empty', 'matches a1', 'matches o1',
                            'any line : contents matches ^e', 'constant true', '! matches x'], ["matches '('"]),
    'TT': ('text-transformer', ['char-case -to-upper', 'filter line-num == 2', 'replace x Q', 'filter -line-nums 1:2',
                                'grep y', 'identity', 'strip', 'filter contents matches ^[cd] | char-case -to-upper',
                                'filter -line-nums -1'], ['filter -line-nums a:b']),
    'IM': ('integer-matcher', ['== 0', '> 0', '!= 5', '<= 2', '== 5', '>= 2 && <= 5', '== 1', '== 3'], ['== 0.5']),
    'FM': ('file-matcher', ['type file', 'type dir', 'name *.txt', 'suffix .log', 'constant true',
                            'type file && contents is-empty', '! name f*'], ["name ~ '('"]),
    'FSM': ('files-matcher', ['is-empty', 'num-files == 3', 'num-files == 1', 'any file : type dir',
                              'every file : type file', '! is-empty'], ['num-files == x']),
    'FC': ('files-condition', ['{\n  f1.txt\n}', '{\n  f1.txt : type file\n  sub : type dir\n}', '{\n  nope\n}',
                               '{\n  f2.log : type dir\n}', '{\n  sub/g.txt\n  f2.log\n}',
                               '{\n  f1.txt\n  f2.log\n  sub\n}'], []),
    'FS': ('files-source', ['{\n  file a.txt = "A"\n}', '{\n  dir dd\n  file b.txt\n}', 'dir-contents-of -rel-tmp tree',
                            '{\n  dir e = {\n    file deep.txt = "deep"\n  }\n}'], ['dir-contents-of -rel-tmp nodir']),
    'TS': ('text-source', ['"const text"', '-contents-of -rel-tmp other.txt', '-stdout-from $ echo from-program',
                           '<<EOF\nhere doc\nEOF', '-contents-of -rel-home h2.txt',
                           '-contents-of -rel-tmp data.txt -transformed-by filter -line-nums 2'],
           ['-contents-of -rel-home missing.txt']),
    'PGM': ('program', ['$ echo pgm-one', '% echo a b', '$ cat', '$ exit 1', '$ tr a-z A-Z', '% true',
                        '$ echo to-stderr >&2; echo to-stdout', '-python -c "print(6*7)"'],
            ['% no-such-program-verif-c17']),
    # --- further pools (second round)
    'REFULL': ('string', ["'.. x'", "'a1.*'", "'[a-e][1-5] [xy]'", 'nomatch', "'.*y'"], ["'['"]),
    'TEXTFULL': ('string', ["'(?s).*'", "'(?s)a1.*x.'", "'a1 x'", "'(?s).*e5 x\\n'"], ["'(?'"]),
    'NAME_RE': ('string', ['^f', 'txt$', 'log', '1', 'nomatch', "'^(f|s)'"], ["'*'"]),
    'SUFFIX': ('string', ['.txt', '.log', '.none', "'.t*'"], []),
    'TREEFILE': ('string', ['f1.txt', 'nope', 'sub', 'f2.log', 'sub/g.txt'], []),
    'ENVNAME': ('string', ['VERIF_C17_N1', 'VERIF_C17_N2', 'VERIF_C17_N3'], []),
    'PGMNAME': ('string', ['echo', 'printf', 'expr'], ['no-such-program-verif-c17']),
    'TSHORT': ('string', ['1', '4'], []),
    'ESC': ('string', ["'a b'", '"q\'s"', "'$HOME'", "'*'", "'two  spaces'"], []),
    'HOME': ('conf:home', ['hA', 'hB', '.'], ['nodir']),
    'ACTHOME': ('conf:act-home', ['hA', 'hB', '.'], ['nodir']),
    # a home directory whose name is not a valid regular expression
    'HOMERX': ('conf:home', ['hA', '"h(x"', 'hB'], []),
}
WRONG_TYPE = {  # a definition of another type than the one the pool's consumers need
    'string': ('line-matcher', 'constant true'), 'list': ('text-matcher', 'is-empty'),
    'path': ('integer-matcher', '== 1'), 'line-matcher': ('string', 'oops'), 'text-matcher': ('path', '-rel-tmp data.txt'),
    'text-transformer': ('string', 'oops'), 'integer-matcher': ('string', 'oops'), 'file-matcher': ('list', 'a b'),
    'files-matcher': ('string', 'oops'), 'files-condition': ('string', 'oops'), 'files-source': ('string', 'oops'),
    'text-source': ('line-matcher', 'constant true'), 'program': ('string', 'oops'),
}


def is_conf_pool(pool):
    return POOLS[pool][0].startswith('conf:')


def pool_values(pool):
    """every value a case may give for a symbol of the pool (valid, invalid, wrong type, missing)"""
    typ, valid, invalid = POOLS[pool]
    return list(range(len(valid))) + [['bad', i] for i in range(len(invalid))] + \
        ([] if is_conf_pool(pool) else ['wrong']) + ['missing']


def pool_value(pool, v):
    """v: int index into valid values | ['bad', i] | 'wrong' | 'missing'  ->  (type, value text) or None"""
    typ, valid, invalid = POOLS[pool]
    if v == 'missing':
        return None
    if v == 'wrong':
        return WRONG_TYPE.get(typ)  # None (= nothing said) for configuration values
    if isinstance(v, list):
        return typ, invalid[v[1] % len(invalid)]
    return typ, valid[v % len(valid)]


_D = '-contents-of -rel-tmp data.txt'
_AFTER_SETUP = ['before-assert', 'assert', 'cleanup']
_ANY = ['setup', 'before-assert', 'assert', 'cleanup']
_ASSERT = ['assert']


def _u(uid, phases, syms, lines, out=None, kind='V', conf=None, setup=None):
    """conf / setup: further lines of the unit for the suite's [conf] / [setup] section"""
    return {'id': uid, 'phases': phases, 'syms': syms, 'lines': lines, 'out': out, 'kind': kind, 'conf': conf or [],
            'setup': setup or []}


UNITS = [
    # --- values
    _u('v_linenums', _ANY, {'R': 'RANGE'}, ['file -rel-tmp {out} = %s -transformed-by filter -line-nums @[{R}]@' % _D],
       'file'),
    _u('v_linenums2', _ANY, {'R': 'RANGE', 'R2': 'RANGE'},
       ['file -rel-tmp {out} = %s -transformed-by filter -line-nums @[{R}]@ @[{R2}]@' % _D], 'file'),
    _u('v_str', _ANY, {'S': 'WORD'}, ['file -rel-tmp {out} = "pre-@[{S}]@-post"'], 'file'),
    _u('v_heredoc', _ANY, {'S': 'WORD'}, ['file -rel-tmp {out} = <<EOF', 'line @[{S}]@ end', 'EOF'], 'file'),
    _u('v_shell', _ANY, {'S': 'WORD'}, ['$ echo "sh-@[{S}]@" > @[EXACTLY_TMP]@/{out}'], 'file'),
    _u('v_pgm_args', _ANY, {'S': 'WORD', 'L': 'LIST'}, ['file -rel-tmp {out} = -stdout-from % echo @[{S}]@ @[{L}]@'],
       'file'),
    _u('v_env', _ANY, {'S': 'WORD'}, ['env VERIF_C17_U = "e-@[{S}]@"', '$ echo "$VERIF_C17_U" > @[EXACTLY_TMP]@/{out}'],
       'file'),
    _u('v_def_chain', _ANY, {'S': 'WORD'}, ['def string {X} = "@[{S}]@-derived"', 'file -rel-tmp {out} = "@[{X}]@"'],
       'file'),
    _u('v_def_tt', _ANY, {'R': 'RANGE'}, ['def text-transformer {X} = filter -line-nums @[{R}]@',
                                          'file -rel-tmp {out} = %s -transformed-by {X}' % _D], 'file'),
    _u('v_replace', _ANY, {'RE': 'REGEX', 'S': 'WORD'},
       ['file -rel-tmp {out} = %s -transformed-by replace @[{RE}]@ @[{S}]@' % _D], 'file'),
    _u('v_grep', _ANY, {'RE': 'REGEX'}, ['file -rel-tmp {out} = %s -transformed-by grep @[{RE}]@' % _D], 'file'),
    _u('v_filter_lm', _ANY, {'LM': 'LM'}, ['file -rel-tmp {out} = %s -transformed-by filter @[{LM}]@' % _D], 'file'),
    _u('v_filter_lm_name', _ANY, {'LM': 'LM'}, ['file -rel-tmp {out} = %s -transformed-by filter {LM}' % _D], 'file'),
    _u('v_filter_tm', _ANY, {'TM': 'TM'}, ['file -rel-tmp {out} = %s -transformed-by filter contents @[{TM}]@' % _D],
       'file'),
    _u('v_filter_im', _ANY, {'IM': 'IM'}, ['file -rel-tmp {out} = %s -transformed-by filter line-num @[{IM}]@' % _D],
       'file'),
    _u('v_filter_int', _ANY, {'N': 'INT5'}, ['file -rel-tmp {out} = %s -transformed-by filter line-num <= @[{N}]@' % _D],
       'file'),
    _u('v_tt', _ANY, {'TT': 'TT'}, ['file -rel-tmp {out} = %s -transformed-by @[{TT}]@' % _D], 'file'),
    _u('v_tt_seq', _ANY, {'TT': 'TT', 'TT2': 'TT'},
       ['file -rel-tmp {out} = %s -transformed-by ( @[{TT}]@ | @[{TT2}]@ )' % _D], 'file'),
    _u('v_contents_of', _ANY, {'P': 'PATH_F'}, ['file -rel-tmp {out} = -contents-of @[{P}]@'], 'file'),
    _u('v_contents_of_name', _ANY, {'F': 'FNAME'}, ['file -rel-tmp {out} = -contents-of -rel-tmp @[{F}]@'], 'file'),
    _u('v_contents_of_home', _ANY, {'H': 'HNAME'}, ['file -rel-tmp {out} = -contents-of -rel-home @[{H}]@'], 'file'),
    _u('v_copy', _ANY, {'H': 'HNAME'}, ['copy -rel-home @[{H}]@ -rel-tmp {out}'], 'file'),
    _u('v_copy_path', _ANY, {'P': 'PATH_F'}, ['copy @[{P}]@ -rel-tmp {out}'], 'file'),
    _u('v_cat_path', _ANY, {'P': 'PATH_F'}, ['file -rel-tmp {out} = -stdout-from % cat @[{P}]@'], 'file'),
    _u('v_ts', _ANY, {'TS': 'TS'}, ['file -rel-tmp {out} = @[{TS}]@'], 'file'),
    _u('v_ts_tt', _ANY, {'TS': 'TS', 'TT': 'TT'}, ['file -rel-tmp {out} = @[{TS}]@ -transformed-by @[{TT}]@'], 'file'),
    _u('v_pgm', _ANY, {'PGM': 'PGM'}, ['file -rel-tmp {out} = -stdout-from -ignore-exit-code @ {PGM}'], 'file'),
    _u('v_pgm_stdin', _ANY, {'PGM': 'PGM', 'TS': 'TS'},
       ['file -rel-tmp {out} = -stdout-from -ignore-exit-code @ {PGM}', '  -stdin @[{TS}]@'], 'file'),
    _u('v_pgm_tt', _ANY, {'PGM': 'PGM', 'TT': 'TT'},
       ['file -rel-tmp {out} = -stdout-from -ignore-exit-code @ {PGM}', '  -transformed-by @[{TT}]@'], 'file'),
    _u('v_run_tt', _ANY, {'PGM': 'PGM'},
       ['file -rel-tmp {out} = %s -transformed-by run -ignore-exit-code @ {PGM}' % _D], 'file'),
    _u('v_cd', _ANY, {'DN': 'DNAME'}, ['cd -rel-tmp @[{DN}]@', '$ pwd > @[EXACTLY_TMP]@/{out}', 'cd -rel-act .'], 'file'),
    _u('v_cd_path', _ANY, {'PD': 'PATH_D'}, ['cd @[{PD}]@', '$ pwd > @[EXACTLY_TMP]@/{out}', 'cd -rel-act .'], 'file'),
    _u('v_dir_fs', _ANY, {'FS': 'FS'}, ['dir -rel-tmp {out} = @[{FS}]@'], 'dir'),
    _u('v_dir_name', _ANY, {'S': 'WORD'}, ['dir -rel-tmp {out}/@[{S}]@'], 'dir'),
    _u('v_file_list', _ANY, {'S': 'WORD', 'S2': 'WORD'},
       ['dir -rel-tmp {out} = {', '  file @[{S}]@.txt = "@[{S2}]@"', '}'], 'dir'),
    _u('v_timeout', _ANY, {'N': 'TINT'}, ['timeout = @[{N}]@', 'file -rel-tmp {out} = "timeout set"'], 'file'),
    # --- assertions ([assert] only)
    _u('a_exit_code', _ASSERT, {'N': 'INT01'}, ['exit-code == @[{N}]@'], kind='A'),
    _u('a_exit_code_im', _ASSERT, {'IM': 'IM'}, ['exit-code @[{IM}]@'], kind='A'),
    _u('a_numlines', _ASSERT, {'N': 'INT5'}, ['contents -rel-tmp data.txt : num-lines == @[{N}]@'], kind='A'),
    _u('a_numlines_im', _ASSERT, {'IM': 'IM'}, ['contents -rel-tmp data.txt : num-lines @[{IM}]@'], kind='A'),
    _u('a_matches', _ASSERT, {'RE': 'REGEX'}, ['contents -rel-tmp data.txt : matches @[{RE}]@'], kind='A'),
    _u('a_any_line', _ASSERT, {'RE': 'REGEX'},
       ['contents -rel-tmp data.txt : any line : contents matches @[{RE}]@'], kind='A'),
    _u('a_every_line', _ASSERT, {'LM': 'LM'}, ['contents -rel-tmp data.txt : every line : @[{LM}]@'], kind='A'),
    _u('a_tm', _ASSERT, {'TM': 'TM'}, ['contents -rel-tmp data.txt : @[{TM}]@'], kind='A'),
    _u('a_tm_name', _ASSERT, {'TM': 'TM'}, ['contents -rel-tmp other.txt : ! {TM}'], kind='A'),
    _u('a_tm_tt', _ASSERT, {'TT': 'TT', 'IM': 'IM'},
       ['contents -rel-tmp data.txt : -transformed-by @[{TT}]@ num-lines @[{IM}]@'], kind='A'),
    _u('a_linenums_numlines', _ASSERT, {'R': 'RANGE', 'IM': 'IM'},
       ['contents -rel-tmp data.txt : -transformed-by filter -line-nums @[{R}]@', '  num-lines @[{IM}]@'], kind='A'),
    _u('a_contents_path', _ASSERT, {'P': 'PATH_F'}, ['contents @[{P}]@ : num-lines == 2'], kind='A'),
    _u('a_equals_ts', _ASSERT, {'TS': 'TS'}, ['contents -rel-tmp other.txt : equals @[{TS}]@'], kind='A'),
    _u('a_stdout_tm', _ASSERT, {'TM': 'TM'}, ['stdout @[{TM}]@'], kind='A'),
    _u('a_stdout_from', _ASSERT, {'PGM': 'PGM', 'TM': 'TM'}, ['stdout -from @ {PGM}', '  @[{TM}]@'], kind='A'),
    _u('a_exit_from', _ASSERT, {'PGM': 'PGM', 'IM': 'IM'}, ['exit-code -from @ {PGM}', '  @[{IM}]@'], kind='A'),
    _u('a_exists_fm', _ASSERT, {'FM': 'FM'}, ['exists -rel-tmp tree/f1.txt : @[{FM}]@'], kind='A'),
    _u('a_exists_path', _ASSERT, {'PA': 'PATH_ANY'}, ['exists @[{PA}]@ : type file'], kind='A'),
    _u('a_dc_fsm', _ASSERT, {'FSM': 'FSM'}, ['dir-contents -rel-tmp tree : @[{FSM}]@'], kind='A'),
    _u('a_dc_sel', _ASSERT, {'FM': 'FM', 'IM': 'IM'},
       ['dir-contents -rel-tmp tree : -selection @[{FM}]@ num-files @[{IM}]@'], kind='A'),
    _u('a_dc_every', _ASSERT, {'FM': 'FM'}, ['dir-contents -rel-tmp tree : every file : @[{FM}]@'], kind='A'),
    _u('a_dc_fc', _ASSERT, {'FC': 'FC'}, ['dir-contents -rel-tmp tree : matches @[{FC}]@'], kind='A'),
    _u('a_dc_path', _ASSERT, {'PD': 'PATH_D'}, ['dir-contents @[{PD}]@ : num-files == 3'], kind='A'),
    _u('a_dc_glob', _ASSERT, {'G': 'GLOB'}, ['dir-contents -rel-tmp tree : -selection name @[{G}]@ num-files == 1'],
       kind='A'),
    _u('a_dc_rec', _ASSERT, {'N': 'INT01', 'IM': 'IM'},
       ['dir-contents -rel-tmp tree : -recursive -max-depth @[{N}]@ num-files @[{IM}]@'], kind='A'),
    # --- pass iff exit code 0 (HARD_ERROR outside [assert])
    _u('a_run', _ANY, {'PGM': 'PGM'}, ['run @ {PGM}'], kind='A'),
    _u('a_shell_test', _ANY, {'S': 'WORD'}, ['$ test "@[{S}]@" = x'], kind='A'),
    _u('a_pgm_grep', _ANY, {'S': 'WORD'}, ['% grep -q -e @[{S}]@ @[EXACTLY_TMP]@/data.txt'], kind='A'),
    _u('a_pgm_list', _ANY, {'L': 'LIST'}, ["% sh -c 'test $# -eq 2' sh @[{L}]@"], kind='A'),
    # ===== second round: further instruction kinds and argument positions ==========================================
    # --- text transformers
    _u('v_replace_at_int', _ANY, {'N': 'INT5'},
       ['file -rel-tmp {out} = %s -transformed-by replace -at line-num == @[{N}]@ x Q' % _D], 'file'),
    _u('v_replace_at_lm', _ANY, {'LM': 'LM', 'S': 'WORD'},
       ['file -rel-tmp {out} = %s -transformed-by replace -at @[{LM}]@ -preserve-new-lines . @[{S}]@' % _D], 'file'),
    _u('v_grep_full', _ANY, {'RE': 'REFULL'}, ['file -rel-tmp {out} = %s -transformed-by grep -full @[{RE}]@' % _D],
       'file'),
    _u('v_filter_matches_full', _ANY, {'RE': 'REFULL'},
       ['file -rel-tmp {out} = %s -transformed-by filter contents matches -full @[{RE}]@' % _D], 'file'),
    _u('v_linenums_mixed', _ANY, {'R': 'RANGE'},
       ['file -rel-tmp {out} = %s -transformed-by filter -line-nums 5 @[{R}]@' % _D], 'file'),
    _u('v_linenums_part', _ANY, {'N': 'INT5'},
       ['file -rel-tmp {out} = %s -transformed-by filter -line-nums 2:@[{N}]@' % _D], 'file'),
    _u('v_run_tt_args', _ANY, {'S': 'WORD'},
       ['file -rel-tmp {out} = ' + _D + ' -transformed-by run % grep -e @[{S}]@'], 'file'),
    _u('v_tt_name', _ANY, {'TT': 'TT'}, ['file -rel-tmp {out} = %s -transformed-by {TT}' % _D], 'file'),
    # --- text sources
    _u('v_ts_stderr', _ANY, {'S': 'WORD'}, ['file -rel-tmp {out} = -stderr-from $ echo "e-@[{S}]@" >&2'], 'file'),
    _u('v_ts_stdout_shell', _ANY, {'S': 'WORD'}, ['file -rel-tmp {out} = -stdout-from $ echo "o-@[{S}]@"'], 'file'),
    _u('v_file_append', _ANY, {'S': 'WORD', 'TS': 'TS'},
       ['file -rel-tmp {out} = "first @[{S}]@"', 'file -rel-tmp {out} += @[{TS}]@'], 'file'),
    _u('v_heredoc_esc', _ANY, {'E': 'ESC'}, ['file -rel-tmp {out} = <<EOF', '[@[{E}]@]', 'EOF'], 'file'),
    # --- programs and their arguments
    _u('v_pgm_name', _ANY, {'PN': 'PGMNAME'}, ['file -rel-tmp {out} = -stdout-from -ignore-exit-code % @[{PN}]@ 7 + 1'],
       'file'),
    _u('v_pgm_existing_file', _ANY, {'F': 'FNAME'},
       ['file -rel-tmp {out} = -stdout-from % cat -existing-file -rel-tmp @[{F}]@'], 'file'),
    _u('v_pgm_existing_path', _ANY, {'P': 'PATH_F'},
       ['file -rel-tmp {out} = -stdout-from % cat -existing-file @[{P}]@'], 'file'),
    _u('v_pgm_existing_dir', _ANY, {'DN': 'DNAME'},
       ['file -rel-tmp {out} = -stdout-from % ls -existing-dir -rel-tmp @[{DN}]@'], 'file'),
    _u('v_pgm_esc_args', _ANY, {'E': 'ESC', 'L': 'LIST'},
       ["file -rel-tmp {out} = -stdout-from % printf '[%s]' @[{E}]@ @[{L}]@ end"], 'file'),
    _u('v_python', _ANY, {'S': 'WORD'},
       ['file -rel-tmp {out} = -stdout-from -python -c "print(\'py-@[{S}]@\')"'], 'file'),
    _u('v_pgm_sym_extra_args', _ANY, {'PGM': 'PGM', 'S': 'WORD'},
       ['file -rel-tmp {out} = -stdout-from -ignore-exit-code @ {PGM} @[{S}]@'], 'file'),
    _u('v_pgm_stdin_heredoc', _ANY, {'S': 'WORD'},
       ['file -rel-tmp {out} = -stdout-from % cat', '  -stdin <<EOF', 'in @[{S}]@', 'EOF'], 'file'),
    _u('v_run_out', _ANY, {'S': 'WORD', 'L': 'LIST'},
       ['run % sh -c \'echo "$@" > "$0"\' @[EXACTLY_TMP]@/{out} @[{S}]@ @[{L}]@'], 'file'),
    # --- environment
    _u('v_env_name', _ANY, {'EN': 'ENVNAME'},
       ['env @[{EN}]@ = "set"', '$ echo "1=${VERIF_C17_N1-unset} 2=${VERIF_C17_N2-unset} 3=${VERIF_C17_N3-unset}" > '
                                '@[EXACTLY_TMP]@/{out}'], 'file'),
    _u('v_env_unset', _ANY, {'EN': 'ENVNAME'},
       ['env VERIF_C17_N1 = "a"', 'env VERIF_C17_N2 = "b"', 'env unset @[{EN}]@',
        '$ echo "1=${VERIF_C17_N1-unset} 2=${VERIF_C17_N2-unset}" > @[EXACTLY_TMP]@/{out}'], 'file'),
    _u('v_env_ts', _ANY, {'TS': 'TS'},
       ['env VERIF_C17_U = @[{TS}]@', '$ echo "[$VERIF_C17_U]" > @[EXACTLY_TMP]@/{out}'], 'file'),
    _u('v_env_chain', _ANY, {'S': 'WORD'},
       ['env VERIF_C17_U = "@[{S}]@"', 'env VERIF_C17_W = "${VERIF_C17_U}-more"',
        '$ echo "$VERIF_C17_W" > @[EXACTLY_TMP]@/{out}'], 'file'),
    _u('v_env_heredoc', _ANY, {'S': 'WORD'},
       ['env VERIF_C17_U = <<EOF', 'doc @[{S}]@', 'EOF', '$ echo "[$VERIF_C17_U]" > @[EXACTLY_TMP]@/{out}'], 'file'),
    # --- files and directories
    _u('v_dir_dco', _ANY, {'PD': 'PATH_D'}, ['dir -rel-tmp {out} = dir-contents-of @[{PD}]@'], 'dir'),
    _u('v_dir_dco_name', _ANY, {'DN': 'DNAME'}, ['dir -rel-tmp {out} = dir-contents-of -rel-tmp @[{DN}]@'], 'dir'),
    _u('v_dir_append', _ANY, {'S': 'WORD', 'FS': 'FS'},
       ['dir -rel-tmp {out} = {', '  file first-@[{S}]@', '}', 'dir -rel-tmp {out} += @[{FS}]@'], 'dir'),
    _u('v_copy_name_dst', _ANY, {'S': 'WORD'}, ['dir -rel-tmp {out}', 'copy -rel-tmp data.txt -rel-tmp {out}/@[{S}]@'],
       'dir'),
    _u('v_path_rel_sym', _ANY, {'PD': 'PATH_D'}, ['copy -rel {PD} . -rel-tmp {out}'], 'dir'),
    _u('v_path_sym_prefix', _ANY, {'PD': 'PATH_D'}, ['file -rel-tmp {out} = -stdout-from % ls @[{PD}]@/'], 'file'),
    # --- suite-level definitions that refer to symbols of the case
    _u('v_def_list', _ANY, {'S': 'WORD', 'L': 'LIST'},
       ['def list {X} = pre @[{S}]@ @[{L}]@', 'file -rel-tmp {out} = -stdout-from % echo @[{X}]@'], 'file'),
    _u('v_def_chain2', _ANY, {'S': 'WORD', 'L': 'LIST'},
       ['def string {X} = "@[{S}]@-d"', 'def list {X}2 = @[{X}]@ @[{L}]@ end', 'def program {X}3 = % echo @[{X}2]@',
        'file -rel-tmp {out} = -stdout-from @ {X}3 last'], 'file'),
    _u('v_def_path', _ANY, {'F': 'FNAME'},
       ['def path {X} = -rel-tmp @[{F}]@', 'file -rel-tmp {out} = -contents-of @[{X}]@'], 'file'),
    _u('v_def_pgm', _ANY, {'S': 'WORD'},
       ['def program {X} = % echo @[{S}]@', 'file -rel-tmp {out} = -stdout-from @ {X} more'], 'file'),
    _u('v_def_tm', _ANY, {'RE': 'REGEX'},
       ['def text-matcher {X} = matches @[{RE}]@', 'file -rel-tmp {out} = %s -transformed-by filter contents {X}' % _D],
       'file'),
    _u('v_def_lm', _ANY, {'RE': 'REGEX'},
       ['def line-matcher {X} = contents matches @[{RE}]@', 'file -rel-tmp {out} = %s -transformed-by filter {X}' % _D],
       'file'),
    _u('v_def_im', _ANY, {'N': 'INT5'},
       ['def integer-matcher {X} = >= @[{N}]@', 'file -rel-tmp {out} = %s -transformed-by filter line-num {X}' % _D],
       'file'),
    _u('v_def_ts', _ANY, {'S': 'WORD'},
       ['def text-source {X} = "ts-@[{S}]@"', 'file -rel-tmp {out} = @[{X}]@'], 'file'),
    _u('v_def_fs', _ANY, {'S': 'WORD'},
       ['def files-source {X} = {', '  file @[{S}]@.txt = "@[{S}]@"', '}', 'dir -rel-tmp {out} = @[{X}]@'], 'dir'),
    _u('a_def_fm', _ASSERT, {'G': 'GLOB'},
       ['def file-matcher {X} = name @[{G}]@', 'dir-contents -rel-tmp tree : -selection {X} num-files == 1'], kind='A'),
    _u('a_def_fsm', _ASSERT, {'N': 'INT01'},
       ['def files-matcher {X} = num-files == @[{N}]@', 'dir-contents -rel-tmp tree/sub : {X}'], kind='A'),
    _u('a_def_fc', _ASSERT, {'TF': 'TREEFILE'},
       ['def files-condition {X} = {', '  @[{TF}]@', '}', 'dir-contents -rel-tmp tree : matches {X}'], kind='A'),
    # --- what the case's [conf] says about home / act-home
    _u('v_home_contents', _ANY, {'HM': 'HOME'}, ['file -rel-tmp {out} = -contents-of -rel-home which.txt'], 'file'),
    _u('v_home_copy', _ANY, {'HM': 'HOME'}, ['copy -rel-home hdir -rel-tmp {out}'], 'dir'),
    _u('v_home_python', _ANY, {'HM': 'HOME'},
       ['file -rel-tmp {out} = -stdout-from -python -existing-file -rel-home which.py'], 'file'),
    _u('v_home_symbol', _ANY, {'HM': 'HOME'}, ['file -rel-tmp {out} = "@[EXACTLY_HOME]@"'], 'file'),
    _u('v_home_def_path', _ANY, {'HM': 'HOME'},
       ['def path {X} = -rel-home which.txt', 'file -rel-tmp {out} = -contents-of @[{X}]@'], 'file'),
    _u('v_acthome_contents', _ANY, {'AH': 'ACTHOME'}, ['file -rel-tmp {out} = -contents-of -rel-act-home which.txt'],
       'file'),
    _u('a_home_exists', _ASSERT, {'HM': 'HOME'}, ['exists -rel-home onlyA.txt : type file'], kind='A'),
    _u('a_home_contents', _ASSERT, {'HM': 'HOME', 'RE': 'REGEX'},
       ['contents -rel-home which.txt : matches @[{RE}]@'], kind='A'),
    _u('a_home_in_regex', _ASSERT, {'HM': 'HOMERX'}, ['contents -rel-home which.txt : ! matches @[EXACTLY_HOME]@'],
       kind='A'),  # the regex (validated after the sandbox is made) depends on the home directory
    # --- assertions, second round
    _u('a_stderr_tm', _ASSERT, {'TM': 'TM'}, ['stderr ! @[{TM}]@'], kind='A'),
    _u('a_matches_full', _ASSERT, {'RE': 'TEXTFULL'}, ['contents -rel-tmp data.txt : matches -full @[{RE}]@'],
       kind='A'),
    _u('a_equals_heredoc', _ASSERT, {'S': 'WORD'},
       ['contents -rel-tmp other.txt : equals <<EOF', 'o1 @[{S}]@', 'o2 x', 'EOF'], kind='A'),
    _u('a_exists_name', _ASSERT, {'F': 'FNAME'}, ['exists -rel-tmp @[{F}]@'], kind='A'),
    _u('a_exists_neg_name', _ASSERT, {'TF': 'TREEFILE'}, ['exists ! -rel-tmp tree/@[{TF}]@ : type file'], kind='A'),
    _u('a_contents_name', _ASSERT, {'F': 'FNAME'}, ['contents -rel-tmp @[{F}]@ : num-lines == 5'], kind='A'),
    _u('a_dc_name', _ASSERT, {'DN': 'DNAME'}, ['dir-contents -rel-tmp @[{DN}]@ : num-files == 3'], kind='A'),
    _u('a_dc_name_re', _ASSERT, {'NRE': 'NAME_RE'},
       ['dir-contents -rel-tmp tree : -selection name ~ @[{NRE}]@ num-files == 1'], kind='A'),
    _u('a_dc_stem', _ASSERT, {'G': 'GLOB'}, ['dir-contents -rel-tmp tree : -selection stem @[{G}]@ num-files >= 2'],
       kind='A'),
    _u('a_dc_suffix', _ASSERT, {'SUF': 'SUFFIX'},
       ['dir-contents -rel-tmp tree : -selection suffix @[{SUF}]@ num-files == 1'], kind='A'),
    _u('a_dc_path_glob', _ASSERT, {'G': 'GLOB'},
       ['dir-contents -rel-tmp tree : -recursive -selection path **/@[{G}]@ num-files == 1'], kind='A'),
    _u('a_dc_pruned', _ASSERT, {'G': 'GLOB', 'IM': 'IM'},
       ['dir-contents -rel-tmp tree : -recursive -with-pruned name @[{G}]@ num-files @[{IM}]@'], kind='A'),
    _u('a_dc_fc_full', _ASSERT, {'FC': 'FC'}, ['dir-contents -rel-tmp tree : matches -full @[{FC}]@'], kind='A'),
    _u('a_dc_fc_names', _ASSERT, {'TF': 'TREEFILE', 'FM': 'FM'},
       ['dir-contents -rel-tmp tree : matches {', '  @[{TF}]@ : @[{FM}]@', '}'], kind='A'),
    _u('a_dc_mindepth', _ASSERT, {'N': 'INT01'},
       ['dir-contents -rel-tmp tree : -recursive -min-depth @[{N}]@ num-files >= 2'], kind='A'),
    _u('a_fm_contents', _ASSERT, {'TM': 'TM'}, ['exists -rel-tmp data.txt : contents @[{TM}]@'], kind='A'),
    _u('a_fm_dc', _ASSERT, {'FSM': 'FSM'}, ['exists -rel-tmp tree : dir-contents @[{FSM}]@'], kind='A'),
    _u('a_fm_run', _ASSERT, {'S': 'WORD'}, ['exists -rel-tmp data.txt : run % grep -q -e @[{S}]@'], kind='A'),
    _u('a_tm_run', _ASSERT, {'S': 'WORD'}, ['contents -rel-tmp data.txt : run % grep -q -e @[{S}]@'], kind='A'),
    _u('a_exists_rel_sym', _ASSERT, {'PD': 'PATH_D'}, ['exists -rel {PD} f1.txt : type file'], kind='A'),
    _u('a_stdout_from_args', _ASSERT, {'S': 'WORD'}, ['stdout -from % echo @[{S}]@', '  matches ^[xy]'], kind='A'),
    _u('a_stderr_from', _ASSERT, {'PGM': 'PGM'}, ['stderr -from @ {PGM}', '  is-empty'], kind='A'),
    _u('a_exit_from_sh', _ASSERT, {'N': 'INT01'}, ['exit-code -from $ exit @[{N}]@', '  == 1'], kind='A'),
    _u('a_run_args', _ANY, {'S': 'WORD', 'L': 'LIST'}, ["run % test @[{S}]@ '=' @[{L}]@"], kind='A'),
    _u('a_run_python', _ANY, {'N': 'INT01'}, ['run -python -c "import sys; sys.exit(@[{N}]@)"'], kind='A'),
]
# a unit whose result depends on how long a process may run: costs seconds, enumerated by `slow_cases` only
SLOW_UNITS = [
    _u('v_timeout_effect', _AFTER_SETUP, {'T': 'TSHORT'},
       ['timeout = @[{T}]@', '$ sleep 2', 'file -rel-tmp {out} = "survived the sleep"'], 'file'),
]
ACT_UNITS = [
    _u('act_shell', ['act'], {'S': 'WORD'}, ['$ echo "act-@[{S}]@"'], kind='ACT'),
    _u('act_pgm', ['act'], {'PGM': 'PGM'}, ['@ {PGM}'], kind='ACT'),
    _u('act_args', ['act'], {'S': 'WORD', 'L': 'LIST'}, ['% echo @[{S}]@ @[{L}]@'], kind='ACT'),
    _u('act_source', ['act'], {'I': 'INTERP', 'S': 'WORD'}, ['echo "src-@[{S}]@"'], kind='ACT',
       conf=['actor = source % @[{I}]@']),
    _u('act_file', ['act'], {'H': 'HNAME'}, ['@[{H}]@'], kind='ACT', conf=['actor = file % cat']),
    _u('act_file_acthome', ['act'], {'AH': 'ACTHOME'}, ['which.txt'], kind='ACT', conf=['actor = file % cat']),
    _u('act_args_esc', ['act'], {'E': 'ESC'}, ["% printf '[%s]' @[{E}]@ end"], kind='ACT'),
    _u('act_stdin_home', ['act'], {'HM': 'HOME'}, ['$ cat'], kind='ACT',
       setup=['stdin = -contents-of -rel-home which.txt']),
    _u('act_env_home', ['act'], {'HM': 'HOME'}, ['$ echo "[$VERIF_C17_U]"'], kind='ACT',
       setup=['env -of act VERIF_C17_U = -contents-of -rel-home which.txt']),
    _u('act_source_heredoc', ['act'], {'S': 'WORD'}, ['cat <<EOF', 'src @[{S}]@', 'EOF'], kind='ACT',
       conf=['actor = source % sh']),
]
BY_ID = {u['id']: u for u in UNITS + ACT_UNITS + SLOW_UNITS}


def sym_name(k, role):
    return 'U%s_%s' % (k, role)


def render_unit(unit_inst, k):
    """-> (conf lines, instruction lines incl. the observation line)   k: index of the unit ('A' for the act unit)"""
    u = BY_ID[unit_inst['t']]
    out = 'u%s.out' % k

    def sub(line):
        line = line.replace('{out}', out).replace('{X}', sym_name(k, 'X'))
        for role in u['syms']:
            line = line.replace('{%s}' % role, sym_name(k, role))
        return line

    lines = [sub(l) for l in u['lines']]
    prefix = '@[EXACTLY_TMP]@|U%s|' % k
    if u['kind'] == 'A':
        lines.append('$ echo "%spassed" >> {MARKERS}' % prefix)
    elif u['out'] == 'file':
        lines.append('$ awk -v p="%s" \'{print p $0}\' @[EXACTLY_TMP]@/%s >> {MARKERS}' % (prefix, out))
    elif u['out'] == 'dir':
        lines.append('$ (cd "@[EXACTLY_TMP]@" && find %s | sort && find %s -type f -exec cat {} +) | '
                     'awk -v p="%s" \'{print p $0}\' >> {MARKERS}' % (out, out, prefix))
    return [sub(l) for l in u['conf']], lines, [sub(l) for l in u['setup']]


def render_def(name, typ_value):
    typ, value = typ_value
    return 'def %s %s = %s' % (typ, name, value)


ACT_DUMP = ['$ awk -v p="@[EXACTLY_TMP]@|ACT|stdout " \'{print p $0}\' @[EXACTLY_RESULT]@/stdout >> {MARKERS}',
            '$ awk -v p="@[EXACTLY_TMP]@|ACT|exit " \'{print p $0}\' @[EXACTLY_RESULT]@/exit-code >> {MARKERS}']


def render(case):
    """-> {file: text}: exactly.suite + the case files; one suite file per order is made by the check"""
    files = {}
    conf = []
    phases = {p: [] for p in ['setup', 'act', 'before-assert', 'assert', 'cleanup']}
    phases['setup'].extend(FIXTURE_LINES)
    suite_defs = []
    insts = [(str(k), ui) for k, ui in enumerate(case['units'])] + ([('A', case['act'])] if case['act'] else [])
    for k, ui in insts:
        u = BY_ID[ui['t']]
        for role, pool in sorted(u['syms'].items()):
            v = ui['suite_defs'].get(role)
            if v is not None:
                suite_defs.append(render_def(sym_name(k, role), pool_value(pool, v)))
    phases['setup'].extend(suite_defs)
    for k, ui in insts:
        c, lines, setup = render_unit(ui, k)
        conf.extend(c)
        phases['setup'].extend(setup)
        phases[ui['phase']].extend(lines)
    if case['act'] is None and not case['case_act']:
        phases['act'].append("$ printf 'o1 y\\no2 x\\n'")
    if case['act'] is not None or case['case_act']:
        phases['before-assert'][0:0] = ACT_DUMP  # what the act phase did depends on the case
    out = ['[cases]', '{CASES}']
    if conf:
        out += ['[conf]'] + conf
    for p in ['setup', 'act', 'before-assert', 'assert', 'cleanup']:
        if phases[p]:
            out += ['[%s]' % p] + phases[p]
    files['exactly.suite'] = '\n'.join(out) + '\n'
    for c in case['cases']:
        files[c['id'] + '.case'] = render_case(case, c)
    return files


def render_case(case, c):
    cid = c['id']
    ph = {p: [] for p in ['conf', 'setup', 'act', 'before-assert', 'assert', 'cleanup']}
    insts = [(str(k), ui) for k, ui in enumerate(case['units'])] + ([('A', case['act'])] if case['act'] else [])
    for k, ui in insts:
        u = BY_ID[ui['t']]
        for role, pool in sorted(u['syms'].items()):
            if ui['suite_defs'].get(role) is not None:
                continue
            d = c['defs']['%s.%s' % (k, role)]
            tv = pool_value(pool, d['v'])
            if tv is None:
                continue
            if tv[0].startswith('conf:'):
                line = '%s = %s' % (tv[0][5:], tv[1])
                if line not in ph['conf']:
                    ph['conf'] = [l for l in ph['conf'] if not l.startswith(tv[0][5:] + ' = ')] + [line]
            else:
                ph[d['ph']].append(render_def(sym_name(k, role), tv))
    if case['act'] is None and case['case_act']:
        ph['act'].append('$ echo case-%s; exit %d' % (cid, c.get('exit', 0)))
    ph['cleanup'].insert(0, '$ echo "@[EXACTLY_TMP]@|CASE|%s" >> {MARKERS}' % cid)
    out = []
    for p in ['conf', 'setup', 'act', 'before-assert', 'assert', 'cleanup']:
        if ph[p]:
            out += ['[%s]' % p] + ph[p]
    return '\n'.join(out) + '\n'


# ---- strategy -----------------------------------------------------------------------------------------------------
def _value(draw, pool, odd_ok=True):
    typ, valid, invalid = POOLS[pool]
    kind = draw(w([('valid', 46), ('bad', 2 if invalid and odd_ok else 0),
                   ('wrong', 1 if odd_ok and not is_conf_pool(pool) else 0),
                   ('missing', (6 if is_conf_pool(pool) else 1) if odd_ok else 0)]))
    if kind == 'valid':
        return draw(st.integers(0, len(valid) - 1))
    if kind == 'bad':
        return ['bad', draw(st.integers(0, len(invalid) - 1))]
    return kind


_DEF_PHASES_BEFORE = {'setup': ['setup'], 'act': ['setup'], 'before-assert': ['setup'], 'assert': ['setup', 'setup', 'before-assert'],
                      'cleanup': ['setup', 'setup', 'before-assert', 'assert', 'cleanup']}

_UNIT_IDS_V = [u['id'] for u in UNITS if u['kind'] == 'V']
_UNIT_IDS_A = [u['id'] for u in UNITS if u['kind'] == 'A']


@st.composite
def suites_with_symbol_consumers(draw, tier='quick'):
    n_units = draw(w([(1, 3), (2, 4), (3, 3), (4, 1)]))
    units = []
    for _ in range(n_units):
        uid = draw(st.sampled_from(_UNIT_IDS_V)) if chance(draw, 3, 5) else draw(st.sampled_from(_UNIT_IDS_A))
        u = BY_ID[uid]
        phase = draw(st.sampled_from(u['phases']))
        if phase == 'setup' and not chance(draw, 1, 3):
            later = [p for p in u['phases'] if p != 'setup']
            if later:
                phase = draw(st.sampled_from(later))
        sd = {}
        for role, pool in sorted(u['syms'].items()):
            if is_conf_pool(pool):
                continue  # said by the [conf] phase of every case
            if phase == 'setup' or chance(draw, 1, 8):
                sd[role] = _value(draw, pool, odd_ok=False)  # defined by the suite: the same for every case
        units.append({'t': uid, 'phase': phase, 'suite_defs': sd})
    act = None
    if chance(draw, 1, 4):
        aid = draw(st.sampled_from([u['id'] for u in ACT_UNITS]))
        sd = {}
        for role, pool in sorted(BY_ID[aid]['syms'].items()):
            if chance(draw, 1, 8) and not is_conf_pool(pool):
                sd[role] = _value(draw, pool, odd_ok=False)
        act = {'t': aid, 'phase': 'act', 'suite_defs': sd}
    n_cases = draw(w([(2, 5), (3, 4), (4, 1)]))
    cases = []
    insts = [(str(k), ui) for k, ui in enumerate(units)] + ([('A', act)] if act else [])
    for i in range(n_cases):
        defs = {}
        for k, ui in insts:
            for role, pool in sorted(BY_ID[ui['t']]['syms'].items()):
                if ui['suite_defs'].get(role) is None:
                    defs['%s.%s' % (k, role)] = {'v': _value(draw, pool),
                                                 'ph': draw(st.sampled_from(_DEF_PHASES_BEFORE[ui['phase']]))}
        cases.append({'id': 'c%d' % i, 'defs': defs, 'exit': draw(w([(0, 4), (1, 1)]))})
    # the point of the exercise: some symbol has another value in another case
    keys = sorted(cases[0]['defs'])
    if keys and all(str(c['defs'][k]['v']) == str(cases[0]['defs'][k]['v']) for c in cases for k in keys):
        k = keys[draw(st.integers(0, len(keys) - 1))]
        unit_k, role = k.split('.')
        pool = BY_ID[(act if unit_k == 'A' else units[int(unit_k)])['t']]['syms'][role]
        n_valid = len(POOLS[pool][1])
        v0 = cases[0]['defs'][k]['v']
        cases[-1]['defs'][k]['v'] = ((v0 if isinstance(v0, int) else 0) + 1) % n_valid if n_valid > 1 else 'missing'
    idx = list(range(n_cases))
    orders = [idx, idx[::-1]]
    if n_cases >= 3 and tier != 'quick':
        orders.append(idx[1:] + idx[:1])
    return {'units': units, 'act': act, 'cases': cases, 'case_act': chance(draw, 1, 2), 'orders': orders}
