"""C08 - rendering of a symbol program (see vlib/ref/c08_symbols.py for the case format) as test case text.

Pure function of the case.  Respects DESIGN.md 2.10: operators/parentheses are separate tokens, a program's
argument list runs to end of line (-stdin / -transformed-by of a program start a new line), one FILE-SPEC /
FILE-CONDITION per line, reserved words are quoted when they are meant as strings, no comment lines inside
instructions, no '#', no backslash, no quote characters inside values.
"""
from vlib.ref.c08_symbols import str_text, use_name, with_leaf, ENV_PREFIX

RESERVED = {'(', ')', '[', ']', '{', '}', '=', '|', ':', '!', '&&', '||', 'file', 'dir', '+='}
_NAKED_OK = set('abcdefghijklmnopqrstuvwxyzABCDEFGHIJKLMNOPQRSTUVWXYZ0123456789_./:@[]+-,=')

PROBE_CMD = '% {PY} {PROBE} {OBS}/'
SHELL_CMD = '$ printf \'%%s|\' "%s" >> {OBS}/_%s'


HERE_DOC_MARKER = 'EOF'


def r_str(s) -> str:
    """The token.  `:>` and here-document forms (RICH-STRING) must be the last thing on their line; a here-document
    contains new-lines: the lines that follow the line on which it starts."""
    text = str_text(s)
    q = s['q']
    if q == 't':
        return ':> ' + text
    if q == 'd':
        return '<<%s\n%s\n%s' % (HERE_DOC_MARKER, text, HERE_DOC_MARKER)
    if q == 'h':
        return "'" + text + "'"
    if q == 'n':
        if (text and all(ch in _NAKED_OK for ch in text) and text not in RESERVED and not text.startswith('-')
                and not text.startswith('<<') and not text.startswith(':>')):
            return text
        q = 's'
    return '"' + text + '"'


def r_list(lst) -> str:
    return ' '.join(r_str(el) for el in lst)


def r_path(p) -> str:
    rel = p['rel']
    name = r_str(p['name'])
    if rel is None:
        return name
    if isinstance(rel, dict):
        return '-rel %s %s' % (rel['ref'], name)
    return '-rel-%s %s' % (rel, name)


def _r_ref(e) -> str:
    return e['ref'] if e.get('form', 'plain') == 'plain' else '@[%s]@' % e['ref']


def _is_infix(e) -> bool:
    return e.get('op') in ('and', 'or', 'seq')


def _operand(t, e) -> str:
    """An operand position where infix operators need parentheses."""
    s = r_expr(t, e)
    return '( %s )' % s if _is_infix(e) else s


_LITS = {
    'integer-matcher': {'true': 'constant true', 'false': 'constant false'},
    'line-matcher': {'true': 'constant true', 'false': 'constant false'},
    'text-matcher': {'true': 'constant true', 'false': 'constant false', 'is-empty': 'is-empty'},
    'text-transformer': {'identity': 'identity', 'upper': 'char-case -to-upper', 'lower': 'char-case -to-lower',
                         'strip': 'strip'},
    'file-matcher': {'true': 'constant true', 'false': 'constant false', 'type-dir': 'type dir',
                     'type-file': 'type file'},
    'files-matcher': {'true': 'constant true', 'false': 'constant false', 'is-empty': 'is-empty'},
}


def r_expr(t, e) -> str:
    """Single-line rendering of an expression of logic type t (everything but literal file sets and programs)."""
    if t == 'text-source':
        return r_ts(e)
    if 'c' not in e and 'ref' in e:
        return _r_ref(e)
    if 'lit' in e:
        return _LITS[t][e['lit']]
    if e.get('c') == 'run':
        # PGM-AND-ARGS runs to END-OF-LINE: the generators put this form last on the line only
        return 'run ' + '\n'.join(r_program(e['p']))
    if 'op' in e:
        op = e['op']
        if op == 'paren':
            return '( %s )' % r_expr(t, e['a'])
        if op == 'not':
            return '! ' + _operand(t, e['a'])
        sym = {'and': '&&', 'or': '||', 'seq': '|'}[op]
        return '%s %s %s' % (_operand(t, e['a']), sym, _operand(t, e['b']))
    c = e['c']
    if t == 'integer-matcher' and c == 'cmp':
        return '%s %s' % (e['o'], r_str(e['i']))
    if t == 'line-matcher':
        if c == 'contents':
            return 'contents ' + _operand('text-matcher', e['m'])
        if c == 'line-num':
            return 'line-num ' + _operand('integer-matcher', e['m'])
    if t == 'text-matcher':
        if c == 'equals':
            return 'equals ' + r_ts(e['s'])
        if c == 'matches':
            return 'matches ' + r_str(e['r'])
        if c == 'num-lines':
            return 'num-lines ' + _operand('integer-matcher', e['m'])
        if c == 'every-line':
            return 'every line : ' + _operand('line-matcher', e['m'])
        if c == 'transformed':
            return '-transformed-by %s %s' % (_operand('text-transformer', e['t']), _operand('text-matcher', e['m']))
    if t == 'text-transformer':
        if c == 'filter':
            return 'filter ' + _operand('line-matcher', e['m'])
        if c == 'replace':
            return 'replace %s %s' % (r_str(e['r']), r_str(e['s']))
    if t == 'file-matcher':
        if c == 'contents':
            return 'contents ' + _operand('text-matcher', e['m'])
        if c == 'dir-contents':
            return 'dir-contents ' + _operand('files-matcher', e['m'])
        if c == 'name':
            return 'name ' + r_str(e['g'])
    if t == 'files-matcher':
        if c == 'num-files':
            return 'num-files ' + _operand('integer-matcher', e['m'])
        if c == 'every-file':
            return 'every file : ' + _operand('file-matcher', e['m'])
        if c == 'matches':
            return 'matches ' + r_expr('files-condition', e['fc'])
        if c == 'selection':
            return '-selection %s %s' % (_operand('file-matcher', e['s']), _operand('files-matcher', e['m']))
    raise ValueError('cannot render %r as %s on one line' % (e, t))


def r_ts(ts) -> str:
    if ts.get('c') == 'pgm':
        return '-stdout-from ' + '\n'.join(r_program(ts['p']))
    if ts.get('c') == 'contents-of':
        s = '-contents-of ' + r_path(ts['p'])
    else:
        s = '@[%s]@' % ts['ref'] if 'ref' in ts else r_str(ts['s'])
    if ts.get('t') is not None:
        s += ' -transformed-by ' + _operand('text-transformer', ts['t'])
    return s


def r_program(p, indent='  '):
    """-> list of lines"""
    if p['c'] == 'probe':
        first = PROBE_CMD + p['o']
    elif p['c'] == 'shell':
        # SHELL-COMMAND-LINE: the rest of the line, one string.  Values never contain " $ ` or a backslash.
        first = SHELL_CMD % (str_text(p['s']), p['o'])
    else:
        first = '@ ' + p['ref']
    args = r_list(p['a'])
    lines = [first + (' ' + args if args else '')]
    if p.get('in') is not None:
        if p.get('t') is not None:
            # a -transformed-by on the next line would be taken as the TRANSFORMATION of the TEXT-SOURCE (the manual
            # does not say on which line that one has to be): parentheses end the TEXT-SOURCE
            lines.append(indent + '-stdin ( %s )' % r_ts(p['in']))
        else:
            lines.append(indent + '-stdin ' + r_ts(p['in']))
    if p.get('t') is not None:
        lines.append(indent + '-transformed-by ' + _operand('text-transformer', p['t']))
    return lines


def r_fs(e, indent=''):
    """files-source -> list of lines (the first one continues the current line)"""
    if 'c' not in e and 'ref' in e:
        return [_r_ref(e)]
    if e.get('op') == 'paren':
        inner = r_fs(e['a'], indent)
        return ['( ' + inner[0]] + inner[1:-1] + [inner[-1] + ' )'] if len(inner) > 1 else ['( %s )' % inner[0]]
    lines = ['{']
    for ent in e['e']:
        head = '%s  %s %s' % (indent, ent['k'], r_str(ent['n']))
        if ent.get('s') is None:
            lines.append(head)
        elif ent['k'] == 'file':
            lines.append(head + ' = ' + r_ts(ent['s']))
        else:
            sub = r_fs(ent['s'], indent + '  ')
            lines.append(head + ' = ' + sub[0])
            lines.extend(sub[1:])
    lines.append(indent + '}')
    return lines


def r_fc(e):
    """files-condition -> list of lines"""
    if 'c' not in e and 'ref' in e:
        return [_r_ref(e)]
    if e.get('op') == 'paren':
        inner = r_fc(e['a'])
        return ['( %s )' % inner[0]] if len(inner) == 1 else ['( ' + inner[0]] + inner[1:-1] + [inner[-1] + ' )']
    lines = ['{']
    for name, fm in e['e']:
        if fm is None:
            lines.append('  ' + r_str(name))
        else:
            lines.append('  %s : %s' % (r_str(name), r_expr('file-matcher', fm)))
    lines.append('}')
    return lines


def r_value(t, v):
    """-> list of lines of the VALUE of `def t NAME = VALUE`"""
    if t == 'string':
        return [r_str(v)]
    if t == 'list':
        return [r_list(v)]
    if t == 'path':
        return [r_path(v)]
    if t == 'program':
        return r_program(v)
    if t == 'files-source':
        return r_fs(v)
    if t == 'files-condition':
        return r_fc(v)
    return [r_expr(t, v)]


# assert-phase uses: `constant true ||` makes the outcome independent of the symbol's value
# ("Operands are evaluated lazily, from left to right") while the reference is still validated.
def _r_assert(t, e):
    if t == 'integer-matcher':
        return ['exit-code ( constant true || %s )' % _operand(t, e)]
    if t == 'text-matcher':
        return ['stdout ( constant true || %s )' % _operand(t, e)]
    if t == 'line-matcher':
        return ['stdout every line : ( constant true || %s )' % _operand(t, e)]
    if t == 'text-transformer':
        return ['stdout ( constant true || -transformed-by %s constant true )' % _operand(t, e)]
    if t == 'file-matcher':
        return ['exists -rel-act . : ( constant true || %s )' % _operand(t, e)]
    if t == 'files-matcher':
        return ['dir-contents -rel-act . : ( constant true || %s )' % _operand(t, e)]
    if t == 'files-condition':
        return ['dir-contents -rel-act . : ( constant true || matches %s )' % r_expr(t, e)]
    if t == 'text-source':
        return ['stdout ( constant true || equals %s )' % r_ts(e)]
    raise ValueError('no assert use for type ' + t)


def r_item(item, phase, idx):
    k = item['k']
    if k == 'def':
        v = r_value(item['t'], item['v'])
        first = 'def %s %s =' % (item['t'], item['n'])
        return [first + (' ' + v[0] if v[0] else '')] + v[1:]
    if k == 'file':
        return ['file %s.txt = %s' % (use_name(phase, idx), r_ts(item['s']))]
    if k == 'dir':
        v = r_fs(item['s'])
        return ['dir %s = %s' % (use_name(phase, idx), v[0])] + v[1:]
    if k == 'run':
        v = r_program(item['p'])
        p = item['p']
        if item.get('bare') and p['c'] in ('probe', 'shell') and p.get('in') is None and p.get('t') is None:
            return v  # the instructions `%` and `$` (they take neither -stdin nor -transformed-by)
        return ['run ' + v[0]] + v[1:]
    if k == 'env':
        if item.get('name') is not None:
            # NAME is a STRING: always written between double quotes here (the value may contain anything)
            return ['env "%s%s" = %s' % (ENV_PREFIX, str_text(item['name']), r_ts(item['s']))]
        return ['env %s%s = %s' % (ENV_PREFIX, use_name(phase, idx), r_ts(item['s']))]
    if k == 'stdin':
        return ['stdin = ' + r_ts(item['s'])]
    if k == 'timeout':
        return ['timeout = ' + r_str(item['i'])]
    if k == 'assert':
        return _r_assert(item['t'], item['e'])
    if k == 'fileat':
        return ['file %s = %s' % (r_path(with_leaf(item['p'], use_name(phase, idx) + '.txt')), r_ts(item['s']))]
    if k == 'dirat':
        return ['dir ' + r_path(with_leaf(item['p'], use_name(phase, idx)))]
    if k == 'from':
        v = r_program(item['p'])
        matcher = '  >= 0' if item['ch'] == 'exit-code' else '  ! equals "<never>"'
        return ['%s -from %s' % (item['ch'], v[0])] + v[1:] + [matcher]
    if k == 'stop':
        return ['$ false']
    if k == 'nexists':
        return ['exists ! ' + r_path(with_leaf(item['p'], use_name(phase, idx)))]
    raise ValueError(k)


MARK_FIRST = 'S'
MARK_LAST = 'C'


def pieces(case):
    """-> [(phase, first item index, end item index, is first piece, is last piece)] in file order"""
    order = list(case['order'])
    out = []
    seen = {}
    for ph in order:
        if ph == 'act':
            out.append((ph, 0, 0, True, True))
            continue
        n = len(case['items'].get(ph, []))
        total = order.count(ph)
        cuts = [0] + sorted(min(n, c) for c in (case.get('cuts') or {}).get(ph, []))[:total - 1]
        cuts += [n] * (total + 1 - len(cuts))
        k = seen.get(ph, 0)
        seen[ph] = k + 1
        out.append((ph, cuts[k], cuts[k + 1] if k < total - 1 else n, k == 0, k == total - 1))
    return out


def file_actor(act) -> bool:
    """The action is written for the "file interpreter" actor: FILE [PROGRAM-ARGUMENT]..."""
    return (act is not None and act.get('actor') == 'file' and act['c'] == 'probe' and act.get('in') is None
            and act.get('t') is None)


SUITE_FILE = 'exactly.suite'
MAIN_FILE = 't.case'


def _suite_counts(case):
    """phase -> number of items that are written in the suite file: the leading ones ("The section contents is included
    before the contents of the phase of each test case"), for [cleanup] the last ones ("included after")"""
    su = case.get('suite') or {}
    return {ph: max(0, min(int(su.get(ph, 0)), len(case['items'].get(ph, [])))) for ph in case['items']}


def in_suite(case, n_suite, ph, i) -> bool:
    n = n_suite.get(ph, 0)
    if ph == 'cleanup':
        return i >= len(case['items'].get(ph, [])) - n
    return i < n


def _piece_lines(case, piece, n_suite, lo=None, hi=None, header=True, marks=True):
    """The lines of (a part of) a piece of a phase."""
    ph, plo, phi, first, last = piece
    lines = []
    if ph == 'act':
        if file_actor(case.get('act')):
            args = r_list(case['act']['a'])
            return ['[act]', '{PROBE} {OBS}/' + case['act']['o'] + (' ' + args if args else ''), '']
        if case.get('act') is not None:
            return ['[act]'] + r_program(case['act']) + ['']
        return []
    if header:
        lines.append('[%s]' % ph)
    items = case['items'].get(ph, [])
    for i in range(plo if lo is None else lo, phi if hi is None else hi):
        if not in_suite(case, n_suite, ph, i):
            lines.extend(r_item(items[i], ph, i))
    return lines


def render_files(case, here=None) -> dict:
    """-> {file name: text}.  `t.case` is the test case; `exactly.suite` (same directory: the case is run as part of
    it) holds the leading case['suite'][phase] items of the phases; case['inc'] = [{'p': piece selector, 'a': offset,
    'b': length, 'm': 'plain'|'header'|'nested'|'absorb'}] moves a range of the items of a piece into an included file
    (`including FILE`: "equivalent to having the contents of the included file in the including file"; 'header': the
    included file declares the phase itself; 'nested': through a second inclusion, relative to the directory of the
    including file; 'absorb': the included file also contains the complete following piece - another phase - of the
    main file).  None of this changes the meaning of the case - but for `-rel-here` ("the location of the current source
    file"): if `here` is a dict it receives {(phase, item index): directory relative to the home directory} for the
    items that are written in a file of another directory."""
    n_suite = _suite_counts(case)
    pcs = pieces(case)
    files = {}
    main = []
    if file_actor(case.get('act')):
        main += ['[conf]', 'actor = file % {PY}', '']
    cands = [k for k, pc in enumerate(pcs) if pc[0] != 'act']
    spec_of = {}
    for sp in (case.get('inc') or []):
        if cands:
            spec_of.setdefault(cands[int(sp['p']) % len(cands)], sp)
    absorbed = set()
    n_inc = 0
    for k, pc in enumerate(pcs):
        if k in absorbed:
            continue
        ph, lo, hi, first, last = pc
        if ph == 'act':
            main += _piece_lines(case, pc, n_suite)
            continue
        sp = spec_of.get(k)
        main.append('[%s]' % ph)
        if ph == 'setup' and first:
            main.append('$ echo %s >> {MARKERS}' % MARK_FIRST)
        if sp is None:
            main += _piece_lines(case, pc, n_suite, header=False)
        else:
            mode = sp.get('m', 'plain')
            a = min(lo + max(0, int(sp.get('a', 0))), hi)
            b = hi if mode == 'absorb' else min(a + max(0, int(sp.get('b', 1))), hi)
            n_inc += 1
            name = 'inc%d.xly' % n_inc
            body = _piece_lines(case, pc, n_suite, a, b, header=(mode == 'header'))
            tail_mark = []
            if mode == 'absorb' and k + 1 < len(pcs):
                if ph == 'cleanup' and last:
                    body.append('$ echo %s >> {MARKERS}' % MARK_LAST)
                    last = False
                nxt = pcs[k + 1]
                absorbed.add(k + 1)
                body.append('')
                body += _piece_lines(case, nxt, n_suite)
                if nxt[0] == 'setup' and nxt[3]:
                    body.insert(body.index('[setup]') + 1, '$ echo %s >> {MARKERS}' % MARK_FIRST)
                if nxt[0] == 'cleanup' and nxt[4]:
                    body.append('$ echo %s >> {MARKERS}' % MARK_LAST)
            main += _piece_lines(case, pc, n_suite, lo, a, header=False)
            if mode == 'nested':
                if here is not None:
                    for i in range(a, b):
                        if not in_suite(case, n_suite, ph, i):
                            here[(ph, i)] = 'd1/e'
                files['d1/' + name] = 'including e/%s\n' % name
                files['d1/e/' + name] = '\n'.join(body) + '\n'
                main.append('including d1/' + name)
            else:
                files[name] = '\n'.join(body) + '\n'
                main.append('including ' + name)
            main += _piece_lines(case, pc, n_suite, b, hi, header=False)
        if ph == 'cleanup' and last:
            main.append('$ echo %s >> {MARKERS}' % MARK_LAST)
        main.append('')
    files[MAIN_FILE] = '\n'.join(main) + '\n'
    if any(n_suite.values()):
        su = []
        for ph in [p_ for p_ in ('setup', 'before-assert', 'assert', 'cleanup') if n_suite.get(p_)]:
            su.append('[%s]' % ph)
            for i in range(len(case['items'][ph])):
                if in_suite(case, n_suite, ph, i):
                    su.extend(r_item(case['items'][ph][i], ph, i))
            su.append('')
        files[SUITE_FILE] = '\n'.join(su) + '\n'
    return files


def render(case) -> str:
    """All files as one text: the test case, then `==> NAME` + contents for every further file (the format that
    tools/try.py reads)."""
    files = render_files(case)
    out = files[MAIN_FILE]
    for name in sorted(files):
        if name != MAIN_FILE:
            out += '==> %s\n%s' % (name, files[name])
    return out
