"""Generators for property C06: typed expression trees, the renderer (minimal parentheses, then redundant ones),
the layout engine (blanks and line breaks, classified as permitted / not known to be permitted) and the
malformation operators.  Independent of the code under test.

Tree format: see vlib/ref/c06_ref.py.  An *item list* is what the renderer produces:
  ['('] [')'] ['!'] ['&&'] ['||'] ['|'] ['leaf', LEAF]   (LEAF = the leaf list with item lists in the nested slots)
"""
import functools
import random

from hypothesis import strategies as st

from vlib.ref.c06_ref import NESTED

# ---- choice tape -------------------------------------------------------------------------------------------------


class Tape:
    """Layout decisions.  A case carries {'seed': int, 'density': 0..3}; the decisions are a deterministic
    function of these (random.Random(seed)).  `next(n)` is 0 - always "the plain choice" - with a probability
    that falls with the density, else uniform in range(n); density 0 = the plain layout (what Hypothesis
    shrinks towards)."""
    _P = [0.0, 0.3, 0.6, 0.9]

    def __init__(self, lay=None):
        lay = lay or {}
        self.p = self._P[int(lay.get('density', 0)) % 4]
        self.rng = random.Random(int(lay.get('seed', 0))) if self.p else None

    def next(self, n):
        if self.rng is None:
            return 0
        a = self.rng.random()
        b = self.rng.randrange(n)
        return b if a < self.p else 0


# ---- trees -----------------------------------------------------------------------------------------------------------
LETTERS = ['a', 'b', 'c']
EQ_STRINGS = ['a', 'b', 'ab', 'c']
GLOBS = ['*.txt', 'a*', 's*', '?.txt', 'emp', '*']
TYPES = ['dir', 'file', 'file', 'dir', 'symlink']
RUN_OUT = ['', 'a\n', 'b\nab\n', 'ab', 'c\nc\n']
_b = st.booleans()


def _flat(host):
    if host == 'im':
        cmp_ = st.builds(lambda o, n: ['cmp', o, n], st.sampled_from(['==', '!=', '<', '<=', '>', '>=']),
                         st.integers(0, 4))
        return st.one_of(cmp_, cmp_, cmp_, st.builds(lambda b: ['const', b], _b))
    const = st.builds(lambda b: ['const', b], _b)
    if host == 'lm':
        return const
    run = st.builds(lambda e: ['run', None, e], st.sampled_from([0, 1, 0, 3]))
    if host == 'tm':
        return st.one_of(const, const, const, st.just(['is-empty']),
                         st.builds(lambda x: ['matches', x], st.sampled_from(LETTERS + ['ab'])),
                         st.builds(lambda x: ['equals', x], st.sampled_from(EQ_STRINGS)), run)
    if host == 'fm':
        return st.one_of(const, const, const, st.builds(lambda x: ['type', x], st.sampled_from(TYPES)),
                         st.builds(lambda x: ['name', x], st.sampled_from(GLOBS)), run)
    if host == 'fsm':
        return st.one_of(const, const, st.just(['is-empty']))
    if host == 'tr':
        return st.one_of(st.just(['identity']),
                         st.builds(lambda a, s: ['replace', a, s], st.sampled_from(LETTERS),
                                   st.sampled_from(['a', 'b', 'c', 'bb', 'A'])),
                         st.builds(lambda a, s: ['replace', a, s], st.sampled_from(LETTERS),
                                   st.sampled_from(['a', 'b', 'c', 'ab'])),
                         st.just(['upper']), st.just(['lower']),
                         st.builds(lambda o: ['run', None, o], st.sampled_from(RUN_OUT)))
    raise ValueError(host)


def _nested(host, d):
    """leaves with nested operands; the operands are expressions of depth <= d"""
    e = lambda h: expr(h, d)
    if host == 'lm':
        return [st.builds(lambda x: ['line-num', x], e('im')), st.builds(lambda x: ['contents', x], e('tm'))]
    if host == 'tm':
        return [st.builds(lambda x: ['num-lines', x], e('im')),
                st.builds(lambda x: ['every-line', x], e('lm')),
                st.builds(lambda x: ['any-line', x], e('lm')),
                st.builds(lambda x, y: ['transformed', x, y], e('tr'), e('tm'))]
    if host == 'fm':
        return [st.builds(lambda x: ['contents', x], e('tm')), st.builds(lambda x: ['contents', x], e('tm')),
                st.builds(lambda x: ['dir-contents', x], e('fsm'))]
    if host == 'fsm':
        return [st.builds(lambda x: ['num-files', x], e('im')),
                st.builds(lambda x: ['every-file', x], e('fm')),
                st.builds(lambda x: ['any-file', x], e('fm')),
                st.builds(lambda x, y: ['selection', x, y], e('fm'), e('fsm')),
                st.builds(lambda x, y: ['pruned', x, y], e('fm'), e('fsm'))]
    if host == 'tr':
        return [st.builds(lambda x: ['filter', x], e('lm')),
                st.builds(lambda x, a, s: ['replace-at', x, a, s], e('lm'), st.sampled_from(LETTERS),
                          st.sampled_from(['a', 'b', 'bb', 'A']))]
    return []


def _ops(host, sub):
    if host == 'tr':
        return [st.builds(lambda a, b: ['pipe', a, b], sub, sub)] * 3
    return [st.builds(lambda a, b: ['and', a, b], sub, sub), st.builds(lambda a, b: ['or', a, b], sub, sub),
            st.builds(lambda a, b: ['and', a, b], sub, sub), st.builds(lambda a, b: ['or', a, b], sub, sub),
            st.builds(lambda a: ['not', a], sub)]


@functools.lru_cache(maxsize=None)
def expr(host, d):
    flat = _flat(host)
    if d <= 0:
        return flat
    sym = flat.filter(lambda l: l[0] != 'run').map(lambda l: ['sym', None, l])
    leaves = [flat, flat, flat, sym] + _nested(host, d - 1)
    return st.one_of(leaves + _ops(host, expr(host, d - 1)))


@functools.lru_cache(maxsize=None)
def root_expr(host, d):
    """an expression that has an operator at its root most of the time"""
    sub = expr(host, d - 1)
    return st.one_of(_ops(host, sub) + _ops(host, sub) + [expr(host, d)])


MAX_OBSERVABLE = 3


MAX_SYMBOLS = 4


def number_run_leaves(tree, host, counter=None):
    """gives the observable leaves the ids L1..L3 and the symbol leaves the names S1..S4, in left-to-right order;
    further ones become constants / the leaf the symbol stands for"""
    if counter is None:
        counter = [0, 0]
    op = tree[0]
    if op == 'not':
        return ['not', number_run_leaves(tree[1], host, counter)]
    if op in ('and', 'or', 'pipe'):
        a = number_run_leaves(tree[1], host, counter)
        return [op, a, number_run_leaves(tree[2], host, counter)]
    if op == 'run':
        if tree[1] is not None:
            return list(tree)
        if counter[0] >= MAX_OBSERVABLE:
            return ['identity'] if host == 'tr' else ['const', tree[2] == 0]
        counter[0] += 1
        return ['run', 'L%d' % counter[0], tree[2]]
    if op == 'sym':
        if tree[1] is not None:
            return list(tree)
        if counter[1] >= MAX_SYMBOLS:
            return list(tree[2])
        counter[1] += 1
        return ['sym', 'S%d' % counter[1], list(tree[2])]
    out = list(tree)
    for idx, h in NESTED.get((host, op), ()):
        out[idx] = number_run_leaves(tree[idx], h, counter)
    return out


def symbol_definitions(tree, host, acc=None):
    """[(name, host, text of the defining leaf)] of the symbol leaves of a numbered tree"""
    if acc is None:
        acc = []
    op = tree[0]
    if op == 'not':
        symbol_definitions(tree[1], host, acc)
    elif op in ('and', 'or', 'pipe'):
        symbol_definitions(tree[1], host, acc)
        symbol_definitions(tree[2], host, acc)
    elif op == 'sym':
        acc.append((tree[1], host, ' '.join(_leaf_template(host, tree[2])[0])))
    else:
        for idx, h in NESTED.get((host, op), ()):
            symbol_definitions(tree[idx], h, acc)
    return acc


_LINES = st.sampled_from(['a', 'b', 'ab', 'c', '', 'a', 'b'])


def texts():
    built = st.builds(lambda ls, nl: '\n'.join(ls) + ('\n' if nl and ls else ''),
                      st.lists(_LINES, min_size=0, max_size=4), _b)
    return st.one_of(built, built, st.sampled_from(['', 'a', 'a\n', 'b\n', 'ab\n', 'c']))


def worlds():
    from vlib.ref.c06_ref import FILE_MODELS, DIR_MODELS
    return st.fixed_dictionaries({
        'exit': st.integers(0, 4), 'text': texts(), 'file': st.sampled_from(FILE_MODELS),
        'dir': st.sampled_from(DIR_MODELS + ['d']), 'k': st.integers(0, 3),
    })


def tapes():
    return st.fixed_dictionaries({'seed': st.integers(0, 2 ** 31 - 1), 'density': st.sampled_from([0, 1, 2, 2, 3, 3])})


# ---- trees from a seed (the main source: Hypothesis' own tree strategies above are heavily biased towards tiny
# and repeated trees; they are kept for a minority of the cases because they shrink structurally) ---------------------
def _r_flat(rng, host):
    const = lambda: ['const', rng.random() < 0.5]
    if host == 'im':
        if rng.random() < 0.75:
            return ['cmp', rng.choice(['==', '!=', '<', '<=', '>', '>=']), rng.randrange(5)]
        return const()
    if host == 'lm':
        return const()
    if host == 'tm':
        k = rng.randrange(8)
        return [const, const, const, lambda: ['is-empty'], lambda: ['matches', rng.choice(LETTERS + ['ab'])],
                lambda: ['equals', rng.choice(EQ_STRINGS)], lambda: ['run', None, rng.choice([0, 1, 0, 3])],
                lambda: ['run', None, rng.choice([0, 1])]][k]()
    if host == 'fm':
        k = rng.randrange(7)
        return [const, const, const, lambda: ['type', rng.choice(TYPES)], lambda: ['name', rng.choice(GLOBS)],
                lambda: ['run', None, rng.choice([0, 1, 0, 3])], lambda: ['type', rng.choice(TYPES)]][k]()
    if host == 'fsm':
        return const() if rng.random() < 0.6 else ['is-empty']
    if host == 'tr':
        k = rng.randrange(8)
        return [lambda: ['identity'] if rng.random() < 0.5 else ['lower'],
                lambda: ['replace', rng.choice(LETTERS), rng.choice(['a', 'b', 'c', 'bb', 'A'])],
                lambda: ['replace', rng.choice(LETTERS), rng.choice(['a', 'b', 'c', 'ab'])],
                lambda: ['replace', rng.choice(LETTERS), rng.choice(['a', 'b', 'c', 'ab'])],
                lambda: ['upper'], lambda: ['lower'], lambda: ['run', None, rng.choice(RUN_OUT)],
                lambda: ['upper']][k]()
    raise ValueError(host)


_NESTED_KINDS = {
    'lm': ['line-num', 'contents'], 'tm': ['num-lines', 'every-line', 'any-line', 'transformed'],
    'fm': ['contents', 'contents', 'dir-contents'],
    'fsm': ['num-files', 'num-files', 'every-file', 'any-file', 'selection', 'pruned'],
    'tr': ['filter', 'replace-at'], 'im': [],
}
_P_NESTED = {'im': 0.0, 'lm': 0.75, 'tm': 0.35, 'fm': 0.3, 'fsm': 0.6, 'tr': 0.2}


# what a child of an operator is, by the parent operator: biased towards the places where the precedence rules
# decide (an && under an ||, a ! as operand of an infix operator), with enough || under && and compound operands
# of ! to exercise parentheses that override precedence
_CHILD = {
    None: [('or', 45), ('and', 33), ('not', 12), ('leaf', 10)],
    'or': [('and', 45), ('leaf', 28), ('not', 15), ('or', 12)],
    'and': [('leaf', 33), ('not', 24), ('or', 25), ('and', 18)],
    'not': [('leaf', 55), ('and', 15), ('or', 18), ('not', 12)],
    'pipe': [('pipe', 45), ('leaf', 55)],
}


def _weighted(rng, pairs):
    x = rng.randrange(sum(w for _, w in pairs))
    for v, w in pairs:
        if x < w:
            return v
        x -= w
    raise AssertionError()


def random_expr(rng, host, d, root=False, parent=None):
    """a random expression of operator depth <= d (nested operands count)"""
    if host == 'tr':
        kind = 'leaf' if d <= 0 else _weighted(rng, [('pipe', 90), ('leaf', 10)] if root else _CHILD['pipe'])
    else:
        kind = 'leaf' if d <= 0 else _weighted(rng, _CHILD[parent])
    if kind == 'pipe':
        return ['pipe', random_expr(rng, host, d - 1, parent='pipe'), random_expr(rng, host, d - 1, parent='pipe')]
    if kind == 'not':
        return ['not', random_expr(rng, host, d - 1, parent='not')]
    if kind in ('and', 'or'):
        return [kind, random_expr(rng, host, d - 1, parent=kind), random_expr(rng, host, d - 1, parent=kind)]
    if d > 0 and rng.random() < _P_NESTED[host]:
        k = rng.choice(_NESTED_KINDS[host])
        leaf = [k] + [random_expr(rng, h, d - 1) for _, h in NESTED[(host, k)]]
        if k == 'replace-at':
            leaf += [rng.choice(LETTERS), rng.choice(['a', 'b', 'bb', 'A'])]
        return leaf
    leaf = _r_flat(rng, host)
    if leaf[0] != 'run' and rng.random() < 0.12:
        return ['sym', None, leaf]
    return leaf


def random_world(rng):
    from vlib.ref.c06_ref import FILE_MODELS, DIR_MODELS
    if rng.random() < 0.3:
        text = rng.choice(['', 'a', 'a\n', 'b\n', 'ab\n', 'c'])
    else:
        ls = [rng.choice(['a', 'b', 'ab', 'c', '', 'a', 'b']) for _ in range(rng.randrange(5))]
        text = '\n'.join(ls) + ('\n' if ls and rng.random() < 0.6 else '')
    return {'exit': rng.randrange(5), 'text': text, 'file': rng.choice(FILE_MODELS),
            'dir': rng.choice(DIR_MODELS + ['d']), 'k': rng.randrange(4)}


# ---- renderer: tree -> item list ----------------------------------------------------------------------------------------
_SYM = {'and': '&&', 'or': '||', 'pipe': '|'}


def needs_parens_when_simple(tree):
    return tree[0] in ('and', 'or', 'pipe')


def render(tree, host, simple, tape, feats):
    """item list of `tree`; `simple` = the context takes a simple expression (compound ones get parentheses)"""
    items = _render(tree, host, tape, feats)
    if simple and needs_parens_when_simple(tree) and not _is_group(items):
        items = [['(']] + items + [[')']]
    return items


def _is_group(items):
    """the item list is one parenthesised group"""
    if not items or items[0][0] != '(' or items[-1][0] != ')':
        return False
    depth = 0
    for i, it in enumerate(items):
        if it[0] == '(':
            depth += 1
        elif it[0] == ')':
            depth -= 1
            if depth == 0 and i != len(items) - 1:
                return False
    return True


def _wrap(items):
    return [['(']] + items + [[')']]


def _render(t, host, tape, feats):
    op = t[0]
    if op in ('and', 'or', 'pipe'):
        items = _child(t[1], op, 'L', host, tape, feats) + [[_SYM[op]]] + _child(t[2], op, 'R', host, tape, feats)
    elif op == 'not':
        items = [['!']] + _child(t[1], 'not', 'R', host, tape, feats)
    else:
        leaf = list(t)
        for idx, h in NESTED.get((host, op), ()):
            leaf[idx] = render(t[idx], h, True, tape, feats)
        if op == 'sym':
            leaf = leaf[:3] + [tape.next(2)]
            feats.add('lay:symbol-reference')
        items = [['leaf', leaf]]
    # redundant parentheses (a program runs to the end of the line: it is put in parentheses more often, so that
    # what follows it is inside parentheses or on the same line)
    v = tape.next(8)
    if (op == 'run' and v < 5) or (op != 'run' and v >= 6):
        items = _wrap(items)
        feats.add('lay:program-in-parens' if op == 'run' else 'lay:redundant-parens')
        if tape.next(6) == 5:
            items = _wrap(items)
            feats.add('lay:double-parens')
    return items


def _child(c, parent_op, side, host, tape, feats):
    items = _render(c, host, tape, feats)
    need = (parent_op == 'and' and c[0] == 'or') or (parent_op == 'not' and c[0] in ('and', 'or'))
    if not need and parent_op == c[0] and side == 'R' and parent_op != 'not':
        # a right-nested chain of one operator: both `a && ( b && c )` and `a && b && c` have the tree's value
        if tape.next(2) == 1:
            need = True
            feats.add('lay:right-nested-chain-parenthesised')
        else:
            feats.add('lay:right-nested-chain-bare')
    if need and not _is_group(items):
        items = _wrap(items)
    return items


# ---- item list -> tokens with gap classes -------------------------------------------------------------------------------
# gap classes (the gap *before* a token):
#   H  after the head of the instruction           P  permitted break (after an infix operator, after `!`,
#   R  before an infix operator outside ( )           between tokens inside parentheses)
#   I  before a nested operand of a primitive      N  inside a primitive (never broken)
RUN_WORDS = ['run', '%', '{PY}', '-I', '-S', '{C06LEAF}', '{OBS}/trace']


def _leaf_template(host, leaf):
    """-> list of words (str) and nested operands (('sub', items, host)); last element True if it runs to EOL"""
    k = leaf[0]
    sub = lambda i: ('sub', leaf[i], dict(NESTED[(host, k)])[i])
    if k == 'const':
        return ['constant', 'true' if leaf[1] else 'false'], False
    if k == 'cmp':
        return [leaf[1], str(leaf[2])], False
    if k == 'line-num':
        return ['line-num', sub(1)], False
    if k == 'contents':
        return ['contents', sub(1)], False
    if k == 'is-empty':
        return ['is-empty'], False
    if k == 'matches':
        return ['matches', leaf[1]], False
    if k == 'equals':
        return ['equals', "'%s'" % leaf[1]], False
    if k == 'num-lines':
        return ['num-lines', sub(1)], False
    if k == 'every-line':
        return ['every', 'line', ':', sub(1)], False
    if k == 'any-line':
        return ['any', 'line', ':', sub(1)], False
    if k == 'transformed':
        return ['-transformed-by', sub(1), sub(2)], False
    if k == 'type':
        return ['type', leaf[1]], False
    if k == 'name':
        return ['name', leaf[1]], False
    if k == 'dir-contents':
        return ['dir-contents', sub(1)], False
    if k == 'num-files':
        return ['num-files', sub(1)], False
    if k == 'every-file':
        return ['every', 'file', ':', sub(1)], False
    if k == 'any-file':
        return ['any', 'file', ':', sub(1)], False
    if k == 'selection':
        return ['-selection', sub(1), sub(2)], False
    if k in ('pruned', 'pruned-r'):
        return ['-with-pruned', sub(1), sub(2)], False
    if k == 'sym':
        return [leaf[1] if not (len(leaf) > 3 and leaf[3]) else '@[%s]@' % leaf[1]], False
    if k == 'identity':
        return ['identity'], False
    if k == 'replace':
        return ['replace', leaf[1], leaf[2]], False
    if k == 'replace-at':
        return ['replace', '-at', sub(1), leaf[2], leaf[3]], False
    if k == 'upper':
        return ['char-case', '-to-upper'], False
    if k == 'lower':
        return ['char-case', '-to-lower'], False
    if k == 'filter':
        return ['filter', sub(1)], False
    if k == 'run':
        if host == 'tr':
            return RUN_WORDS + [leaf[1], '0', leaf[2].encode('utf-8').hex() or '-'], True
        return RUN_WORDS + [leaf[1], str(leaf[2]), '-'], True
    raise ValueError('leaf %r' % (leaf,))


class _Flat:
    def __init__(self):
        self.out = []
        self.depth = 0

    def emit(self, s, kind, override=None, eol=False):
        prev = self.out[-1] if self.out else None
        if prev is None:
            cls = 'H'
        elif override:
            cls = override
        elif prev['kind'] in ('op', 'not'):
            cls = 'P'
        elif self.depth > 0:
            cls = 'P'
        elif kind == 'op':
            cls = 'R'
        else:
            cls = 'N'
        forced = prev is not None and prev['eol'] and kind != 'rp'
        self.out.append({'s': s, 'kind': kind, 'cls': cls, 'forced': forced, 'eol': eol, 'depth': self.depth,
                         'after': prev['kind'] if prev else None})

    def items(self, items, host, first=None):
        for it in items:
            k = it[0]
            ov, first = first, None
            if k == '(':
                self.emit('(', 'lp', ov)
                self.depth += 1
            elif k == ')':
                self.emit(')', 'rp', ov)
                self.depth -= 1
            elif k == '!':
                self.emit('!', 'not', ov)
            elif k in ('&&', '||', '|', '&', '|||', '&&&'):  # the last three only in malformed variants
                self.emit(k, 'op', ov)
            else:
                template, eol = _leaf_template(host, it[1])
                n = len(template)
                after_sub = False
                for j, w in enumerate(template):
                    if isinstance(w, str):
                        o = ov if j == 0 else ('I' if after_sub else 'N')
                        self.emit(w, 'word', o, eol=(eol and j == n - 1))
                        after_sub = False
                    else:
                        self.items(w[1], w[2], first='I')
                        after_sub = True


def flatten(items, host):
    f = _Flat()
    f.items(items, host)
    return f.out


# ---- layout -----------------------------------------------------------------------------------------------------------
_BREAKS = ['\n', '\n   ', ' \n\n  ', '\n\t', '\n', '  \n ']


def layout(tokens, head_cls, head_forced, tape, feats):
    """-> (text of the expression incl. the separator after the instruction head, risky)

    risky = a line break was placed where the manual/examples do not show it to be permitted."""
    parts = []
    risky = False
    for i, t in enumerate(tokens):
        cls, forced = (head_cls, head_forced) if i == 0 else (t['cls'], t['forced'])
        if forced:
            sep = '\n' + ['', '  ', '\t', ''][tape.next(4)]
            feats.add('lay:break-after-program')
            if cls in ('R', 'I', 'N'):
                risky = True
                feats.add('lay:risky-break-after-program')
        elif cls in ('P', 'H'):
            v = tape.next(16)
            if v < 8:
                sep = ' '
            elif v < 10:
                sep = ['   ', ' \t'][v - 8]
                feats.add('lay:extra-blanks')
            else:
                sep = _BREAKS[v - 10]
                if cls == 'H':
                    feats.add('lay:break-after-head')
                elif t['after'] == 'not':
                    feats.add('lay:break-after-not')
                elif t['after'] == 'op':
                    feats.add('lay:break-after-infix')
                elif t['kind'] == 'op':
                    feats.add('lay:break-before-infix-in-parens')
                else:
                    feats.add('lay:break-in-parens')
                if '\n\n' in sep:
                    feats.add('lay:blank-line')
        elif cls in ('R', 'I'):
            v = tape.next(24)
            if v == 23:
                sep = '\n' + ['', '  '][tape.next(2)]
                risky = True
                feats.add('lay:risky-break-before-infix' if cls == 'R' else 'lay:risky-break-before-operand')
            elif v == 22:
                sep = '  '
                feats.add('lay:extra-blanks')
            else:
                sep = ' '
        else:
            sep = ' '
        parts.append(sep)
        parts.append(t['s'])
    return ''.join(parts), risky


def plain_layout(tokens):
    parts = []
    for i, t in enumerate(tokens):
        parts.append('\n' if (i > 0 and t['forced']) else ' ')
        parts.append(t['s'])
    return ''.join(parts)


# ---- malformation -----------------------------------------------------------------------------------------------------
MUTATIONS = ['dup-op', 'drop-operand', 'drop-close', 'drop-open', 'extra-close', 'empty-parens', 'leading-op',
             'lonely-not', 'glue-open', 'glue-close', 'half-op', 'long-op']


def _lists(items, host, tail_safe, acc):
    """all item lists (root and nested) with their host and whether what follows the list is the outer
    expression (an operator, `)` or the end) rather than further words of a primitive"""
    acc.append((items, host, tail_safe))
    for it in items:
        if it[0] == 'leaf':
            leaf = it[1]
            slots = NESTED.get((host, leaf[0]), ())
            for n, (idx, h) in enumerate(slots):
                last_slot = n == len(slots) - 1 and leaf[0] != 'replace-at'
                _lists(leaf[idx], h, tail_safe and last_slot, acc)
    return acc


def _operand_spans(items):
    """(start, end) index pairs of the operands (without prefix `!`) of an item list, at every paren depth"""
    spans = []
    stack = []
    for i, it in enumerate(items):
        if it[0] == 'leaf':
            spans.append((i, i + 1))
        elif it[0] == '(':
            stack.append(i)
        elif it[0] == ')':
            if stack:
                spans.append((stack.pop(), i + 1))
    return spans


def malform(items, host, mutation, tape):
    """-> token strings of a malformed variant of the expression, or None if the mutation does not apply.
    The items are deep-copied; layout is plain (one line, except after programs)."""
    import copy
    items = copy.deepcopy(items)
    lists = _lists(items, host, True, [])
    ops_of = lambda h: ['|'] if h == 'tr' else ['&&', '||']
    if mutation in ('glue-open', 'glue-close'):
        toks = [t['s'] for t in flatten(items, host)]
        forced = [t['forced'] for t in flatten(items, host)]
        want = '(' if mutation == 'glue-open' else ')'
        idxs = [i for i, s in enumerate(toks) if s == want and (i + 1 < len(toks) if want == '(' else i > 0)]
        if not idxs:
            return None
        i = idxs[tape.next(len(idxs))]
        out = []
        for j, s in enumerate(toks):
            sep = '\n' if (j > 0 and forced[j]) else ' '
            if mutation == 'glue-open' and j == i + 1:
                sep = ''
            if mutation == 'glue-close' and j == i:
                sep = ''
            out.append(sep + s)
        return ''.join(out)
    cands = []
    for L, h, tail_safe in lists:
        spans = _operand_spans(L)
        if mutation == 'dup-op':
            for i, it in enumerate(L):
                if it[0] in ('&&', '||', '|'):
                    for o in ops_of(h):
                        cands.append((L, 'ins', i + 1, [[o]]))
        elif mutation in ('half-op', 'long-op'):
            # an operator written with one character too few / too many, at every position of a chain
            # (a lone `|` is the composition operator of transformers only; `||` is no transformer operator)
            repl = ({'&&': '&', '||': '|'} if mutation == 'half-op' else {'&&': '&&&', '||': '|||', '|': '||'})
            for i, it in enumerate(L):
                if it[0] in repl and not (h == 'tr' and mutation == 'half-op'):
                    cands.append((L, 'rep', i, i + 1, [[repl[it[0]]]]))
        elif mutation == 'drop-operand':
            for (a, b) in spans:
                # the operand to the right of an infix operator (with its `!` prefixes)
                s = a
                while s > 0 and L[s - 1][0] == '!':
                    s -= 1
                if s > 0 and L[s - 1][0] in ('&&', '||', '|'):
                    if b < len(L) or tail_safe:
                        cands.append((L, 'del', s, b))
        elif mutation == 'drop-close':
            for i, it in enumerate(L):
                if it[0] == ')':
                    cands.append((L, 'del', i, i + 1))
        elif mutation == 'drop-open':
            for i, it in enumerate(L):
                if it[0] == '(':
                    cands.append((L, 'del', i, i + 1))
        elif mutation == 'extra-close':
            for (a, b) in spans:
                cands.append((L, 'ins', b, [[')']]))
        elif mutation == 'empty-parens':
            for (a, b) in spans:
                cands.append((L, 'rep', a, b, [['('], [')']]))
        elif mutation == 'leading-op':
            if L is items:
                for o in ops_of(h):
                    cands.append((L, 'ins', 0, [[o]]))
            for i, it in enumerate(L):
                if it[0] == '(':
                    for o in ops_of(h):
                        cands.append((L, 'ins', i + 1, [[o]]))
        elif mutation == 'lonely-not' and h != 'tr':
            for (a, b) in spans:
                if b < len(L) or tail_safe:
                    cands.append((L, 'rep', a, b, [['!']]))
    if not cands:
        return None
    c = cands[tape.next(len(cands))]
    L = c[0]
    if c[1] == 'ins':
        L[c[2]:c[2]] = c[3]
    elif c[1] == 'del':
        del L[c[2]:c[3]]
    else:
        L[c[2]:c[3]] = c[4]
    return plain_layout(flatten(items, host))


def applicable_mutations(items, host):
    return [m for m in MUTATIONS if malform(items, host, m, Tape()) is not None]
