"""C08 - generators of symbol programs (case format: vlib/ref/c08_symbols.py).

* `programs()`  Hypothesis strategy: a program that is valid by construction (every reference picks a symbol that is
  already defined - in execution order - and has a type the context accepts), then at most one *fault* is applied
  (definition moved later, use moved earlier, duplicate, builtin name, reference retargeted to another / an undefined
  name, definition dropped, act line referring to a later phase, item moved to another phase, a string that a
  "strings only" context depends on gets a reference to a list / path).  The oracle never looks at how the program
  was made.  Everything a case executes is harmless: the probe, and `printf '%s|' "TEXT" >> {OBS}/_shN` where TEXT
  is made of the literal pieces below (no quote, $, backquote, backslash) and of symbol values built from them.
* `matrix_cases()`  every (syntactic context, defined type, chain) cell.
* `scope_cases()`  definition phase x use phase x order inside a phase x file order of the phases; duplicates;
  builtin names.
"""
import copy
import itertools

from hypothesis import strategies as _hst

from vlib.ref.c08_symbols import ALL_TYPES, DATA_TYPES, LOGIC_TYPES, ITEM_PHASES, EXEC_ORDER, BUILTIN_TYPES, \
    REL_OPTIONS, STRICT_CONTEXTS, item_refs, value_refs, _program_refs



class st:  # noqa: N801 - same spelling as the Hypothesis module it stands for
    """Descriptors of the generators' choices.  They are interpreted either by Hypothesis (`programs()`: every
    descriptor becomes the strategy of the same name) or by a byte string (`program_from_bytes()`: coverage-guided
    campaigns), so that both searches share one generator."""

    @staticmethod
    def integers(a, b):
        return ('int', a, b)

    @staticmethod
    def booleans():
        return ('bool',)

    @staticmethod
    def sampled_from(seq):
        return ('pick', list(seq))

    @staticmethod
    def lists(elem, min_size=0, max_size=3):
        return ('list', elem, min_size, max_size)

    @staticmethod
    def permutations(seq):
        return ('perm', list(seq))


def _strategy(desc):
    k = desc[0]
    if k == 'int':
        return _hst.integers(desc[1], desc[2])
    if k == 'bool':
        return _hst.booleans()
    if k == 'pick':
        return _hst.sampled_from(desc[1])
    if k == 'list':
        return _hst.lists(_strategy(desc[1]), min_size=desc[2], max_size=desc[3])
    if k == 'perm':
        return _hst.permutations(desc[1])
    raise ValueError(desc)


class ByteDraw:
    """Interprets the descriptors with the bytes of a string (0 when the string is used up: the first choice)."""

    def __init__(self, data: bytes):
        self.data = data
        self.pos = 0

    def _byte(self) -> int:
        b = self.data[self.pos] if self.pos < len(self.data) else 0
        self.pos += 1
        return b

    def __call__(self, desc):
        k = desc[0]
        if k == 'int':
            return desc[1] + self._byte() % (desc[2] - desc[1] + 1)
        if k == 'bool':
            return bool(self._byte() & 1)
        if k == 'pick':
            return desc[1][self._byte() % len(desc[1])]
        if k == 'list':
            return [self(desc[1]) for _ in range(desc[2] + self._byte() % (desc[3] - desc[2] + 1))]
        if k == 'perm':
            rest = list(desc[1])
            out = []
            while rest:
                out.append(rest.pop(self._byte() % len(rest)))
            return out
        raise ValueError(desc)


NAMES = ['A', 'B', 'C', 'D', 'E', 'F', 'G']
MORE_NAMES = NAMES + ['H', 'I', 'J', 'K']  # thorough tier (handed out in this order: the latest is the last one)
UNDEFINED = 'U'
# literal pieces of strings: harmless in every context they can reach (file names, regex, INTEGER = Python syntax
# without parentheses, program arguments); near misses of the reference syntax included.
LIT = ['a', 'b', 'cd', 'x y', 'p/q', '', ' ', '0', '1', '7', '12', '-', '_', 'e.f', ':', '@[', ']@', '@[a b]@', '@[A]',
       'A', 'B', '@[A ]@']
LIT_WORD = ['a', 'b', 'cd', 'n1', 'e.f', 'p/q', 'A']  # file-name safe (non-empty, no leading/trailing slash)
LIT_INT = ['0', '1', '7', '12', '-1', '0b1', '1_0']
ASSERT_TYPES = ['integer-matcher', 'line-matcher', 'file-matcher', 'files-matcher', 'files-condition', 'text-source',
                'text-matcher', 'text-transformer']
PROBES = ['p1', 'p2', 'p3']
NESTED_PROBES = ['q1', 'q2', 'p1']  # programs inside text sources / transformers / matchers
SHELL_OUTS = ['sh1', 'sh2']

CANONICAL_ORDER = list(EXEC_ORDER)


def S(*frags, q='n'):
    return {'q': q, 'f': list(frags)}


def R(name):
    return {'ref': name}


# ------------------------------------------------------------------------------------------------
# literal (reference free) values, used by the enumerated sub-spaces
# ------------------------------------------------------------------------------------------------
def literal_value(t, tag='1'):
    if t == 'string':
        return S(tag)
    if t == 'list':
        return [S(tag)]
    if t == 'path':
        return {'rel': 'tmp', 'name': S('d' + tag)}
    if t == 'integer-matcher':
        return {'c': 'cmp', 'o': '==', 'i': S('0')}
    if t == 'line-matcher':
        return {'lit': 'true'}
    if t == 'file-matcher':
        return {'lit': 'type-dir'}
    if t == 'files-matcher':
        return {'lit': 'is-empty'}
    if t == 'files-condition':
        return {'c': 'set', 'e': [[S('f1'), None]]}
    if t == 'files-source':
        return {'c': 'set', 'e': [{'k': 'file', 'n': S('f1'), 's': None}]}
    if t == 'text-source':
        return {'c': 'str', 's': S('txt', q='s'), 't': None}
    if t == 'text-matcher':
        return {'lit': 'is-empty'}
    if t == 'text-transformer':
        return {'lit': 'upper'}
    if t == 'program':
        return {'c': 'probe', 'o': 'p1', 'a': [S('d')], 'in': None, 't': None}
    raise ValueError(t)


def same_type_wrapper(t, name):
    """A value of type t whose only content is a reference to `name` (of type t)."""
    if t == 'string':
        return S(R(name), q='s')
    if t == 'list':
        return [S(R(name))]
    if t == 'path':
        return {'rel': R(name), 'name': S('w')}
    if t == 'text-source':
        return {'ref': name, 't': None}
    if t == 'program':
        return {'c': 'symref', 'ref': name, 'a': [], 'in': None, 't': None}
    return {'ref': name, 'form': 'plain'}


def _def(t, n, v):
    return {'k': 'def', 't': t, 'n': n, 'v': v}


def _probe(o, args, stdin=None, tt=None):
    return {'c': 'probe', 'o': o, 'a': args, 'in': stdin, 't': tt}


def _show(name):
    """file uK.txt = "[@[name]@]" - shows the value of a data symbol"""
    return {'k': 'file', 's': {'c': 'str', 's': S('[', R(name), ']', q='s'), 't': None}}


def _ref(name, form='plain'):
    return {'ref': name, 'form': form}


# context name -> function(X) -> (items placed after the definitions, phase of these items, act)
def _ctx_table():
    c = {}

    def setup(*items):
        return list(items), 'setup', None

    def assert_(*items):
        return list(items), 'assert', None

    c['str-soft'] = lambda x: setup(_def('string', 'Z', S('a', R(x), 'b', q='s')), _show('Z'))
    c['str-naked'] = lambda x: setup(_def('string', 'Z', S('a', R(x))), _show('Z'))
    c['str-whole'] = lambda x: setup(_def('string', 'Z', S(R(x))), _show('Z'))
    c['str-hard'] = lambda x: setup(_def('string', 'Z', S(R(x), q='h')), _show('Z'))
    c['str-two-refs'] = lambda x: setup(_def('string', 'Z', S(R(x), ' ', R(x), q='s')), _show('Z'))
    c['list-elem'] = lambda x: setup(_def('list', 'Z', [S('a'), S(R(x)), S('b')]),
                                     {'k': 'run', 'p': _probe('p2', [S(R('Z'))])}, _show('Z'))
    c['list-frag'] = lambda x: setup(_def('list', 'Z', [S('q', R(x), q='s'), S('r', R(x))]),
                                     {'k': 'run', 'p': _probe('p2', [S(R('Z'))])})
    c['arg-elem'] = lambda x: setup({'k': 'run', 'p': _probe('p2', [S('a'), S(R(x)), S('b')])})
    c['arg-frag'] = lambda x: setup({'k': 'run', 'p': _probe('p2', [S('a ', R(x), q='s')])})
    c['act-arg'] = lambda x: ([], 'setup', _probe('act', [S(R(x)), S('z')]))
    c['act-prog'] = lambda x: ([], 'setup', {'c': 'symref', 'ref': x, 'a': [S('z')], 'in': None, 't': None})
    c['run-prog'] = lambda x: setup({'k': 'run', 'p': {'c': 'symref', 'ref': x, 'a': [S('b')], 'in': None, 't': None}})
    c['prog-def'] = lambda x: setup(_def('program', 'Z', {'c': 'symref', 'ref': x, 'a': [S('c')], 'in': None,
                                                          't': None}),
                                    {'k': 'run', 'p': {'c': 'symref', 'ref': 'Z', 'a': [], 'in': None, 't': None}})
    c['stdin-ts'] = lambda x: setup({'k': 'run', 'p': _probe('p2', [], stdin={'ref': x, 't': None})})
    c['prog-tt'] = lambda x: setup({'k': 'run', 'p': _probe('p2', [], tt=_ref(x))})
    c['file-ts-whole'] = lambda x: setup({'k': 'file', 's': {'ref': x, 't': None}})
    c['file-ts-soft'] = lambda x: setup({'k': 'file', 's': {'c': 'str', 's': S(R(x), q='s'), 't': None}})
    c['file-tt-plain'] = lambda x: setup({'k': 'file', 's': {'c': 'str', 's': S('aBc', q='s'), 't': _ref(x)}})
    c['file-tt-special'] = lambda x: setup({'k': 'file', 's': {'c': 'str', 's': S('aBc', q='s'),
                                                               't': _ref(x, 'special')}})
    c['ts-def'] = lambda x: setup(_def('text-source', 'Z', {'ref': x, 't': {'lit': 'upper'}}),
                                  {'k': 'file', 's': {'ref': 'Z', 't': None}})
    c['rel'] = lambda x: setup(_def('path', 'Z', {'rel': R(x), 'name': S('n')}), _show('Z'))
    c['pathpfx'] = lambda x: setup(_def('path', 'Z', {'rel': None, 'name': S(R(x), '/n')}), _show('Z'))
    c['pathpfx-alone'] = lambda x: setup(_def('path', 'Z', {'rel': None, 'name': S(R(x))}), _show('Z'))
    c['pathpfx-soft'] = lambda x: setup(_def('path', 'Z', {'rel': None, 'name': S(R(x), '/n m', q='s')}), _show('Z'))
    # a reference at the start of a FILE-NAME that is NOT followed by "/": the symbol is one component of the file name
    # like any other (a string), it is not "a reference to a path symbol that FILE-NAME begins with"
    c['pathpfx-odd'] = lambda x: setup(_def('path', 'Z', {'rel': None, 'name': S(R(x), '.bak')}), _show('Z'))
    c['pathpfx-odd-dir'] = lambda x: setup(_def('path', 'Z', {'rel': None, 'name': S(R(x), '-x/y')}), _show('Z'))
    c['pathcomp'] = lambda x: setup(_def('path', 'Z', {'rel': 'tmp', 'name': S('n/', R(x))}), _show('Z'))
    c['pathcomp-relsym'] = lambda x: setup(_def('path', 'Z', {'rel': R('EXACTLY_ACT'), 'name': S(R(x))}), _show('Z'))
    c['pathcomp-default'] = lambda x: setup(_def('path', 'Z', {'rel': None, 'name': S('n', R(x))}), _show('Z'))
    c['int-def'] = lambda x: setup(_def('integer-matcher', 'Z', {'c': 'cmp', 'o': '==', 'i': S(R(x))}))
    c['int-used'] = lambda x: assert_({'k': 'assert', 't': 'integer-matcher',
                                       'e': {'c': 'cmp', 'o': '>=', 'i': S(R(x))}})
    c['regex'] = lambda x: setup(_def('text-matcher', 'Z', {'c': 'matches', 'r': S(R(x))}))
    c['replace'] = lambda x: setup(_def('text-transformer', 'Z', {'c': 'replace', 'r': S('a'), 's': S(R(x), q='s')}))
    # the REGEX / replacement STRING built from the symbol are *used*: the text contains the value
    c['replace-regex-used'] = lambda x: setup({'k': 'file', 's': {
        'c': 'str', 's': S('<', R(x), '>', R(x), 'a', q='s'),
        't': {'op': 'paren', 'a': {'c': 'replace', 'r': S(R(x)), 's': S('R', q='s')}}}})
    c['replace-string-used'] = lambda x: setup(
        _def('text-transformer', 'Z', {'c': 'replace', 'r': S('a'), 's': S('<', R(x), '>', q='s')}),
        {'k': 'file', 's': {'c': 'str', 's': S('banana', q='s'), 't': _ref('Z')}})
    c['glob'] = lambda x: setup(_def('file-matcher', 'Z', {'c': 'name', 'g': S(R(x))}))
    c['fname-fs'] = lambda x: setup(_def('files-source', 'Z',
                                         {'c': 'set', 'e': [{'k': 'file', 'n': S('f1', R(x)), 's': None}]}),
                                    {'k': 'dir', 's': _ref('Z')})
    c['fname-fc'] = lambda x: setup(_def('files-condition', 'Z', {'c': 'set', 'e': [[S('f1', R(x)), None]]}))
    c['fs-file-ts'] = lambda x: setup({'k': 'dir', 's': {'c': 'set', 'e': [{'k': 'file', 'n': S('f1'),
                                                                            's': {'ref': x, 't': None}}]}})
    c['fs-dir'] = lambda x: setup({'k': 'dir', 's': {'c': 'set', 'e': [{'k': 'dir', 'n': S('f1'), 's': _ref(x)}]}})
    c['dir-use-plain'] = lambda x: setup({'k': 'dir', 's': _ref(x)})
    c['dir-use-special'] = lambda x: setup({'k': 'dir', 's': _ref(x, 'special')})
    # logic types: plain name, special syntax, under an operator, in the assert-phase use
    for t in ['integer-matcher', 'line-matcher', 'file-matcher', 'files-matcher', 'text-matcher', 'text-transformer',
              'files-condition']:
        c['def-%s-plain' % t] = (lambda t_: lambda x: setup(_def(t_, 'Z', _ref(x))))(t)
        c['def-%s-special' % t] = (lambda t_: lambda x: setup(_def(t_, 'Z', _ref(x, 'special'))))(t)
        c['assert-%s' % t] = (lambda t_: lambda x: assert_({'k': 'assert', 't': t_, 'e': _ref(x)}))(t)
        if t == 'files-condition':
            continue
        if t == 'text-transformer':
            c['def-%s-op' % t] = (lambda t_: lambda x: setup(
                _def(t_, 'Z', {'op': 'seq', 'a': {'lit': 'identity'}, 'b': _ref(x, 'special')})))(t)
        else:
            c['def-%s-op' % t] = (lambda t_: lambda x: setup(
                _def(t_, 'Z', {'op': 'and', 'a': {'lit': 'true'}, 'b': {'op': 'not', 'a': _ref(x)}})))(t)
    c['assert-text-source'] = lambda x: assert_({'k': 'assert', 't': 'text-source', 'e': {'ref': x, 't': None}})
    # a logic type inside a composite of another type
    c['lm-in-filter'] = lambda x: setup(_def('text-transformer', 'Z', {'c': 'filter', 'm': _ref(x)}))
    c['im-in-num-lines'] = lambda x: setup(_def('text-matcher', 'Z', {'c': 'num-lines', 'm': _ref(x)}))
    c['im-in-line-num'] = lambda x: setup(_def('line-matcher', 'Z', {'c': 'line-num', 'm': _ref(x, 'special')}))
    c['lm-in-every-line'] = lambda x: setup(_def('text-matcher', 'Z', {'c': 'every-line', 'm': _ref(x)}))
    c['tm-in-lm-contents'] = lambda x: setup(_def('line-matcher', 'Z', {'c': 'contents', 'm': _ref(x)}))
    c['tm-in-fm-contents'] = lambda x: setup(_def('file-matcher', 'Z', {'c': 'contents', 'm': _ref(x, 'special')}))
    c['fsm-in-dir-contents'] = lambda x: setup(_def('file-matcher', 'Z', {'c': 'dir-contents', 'm': _ref(x)}))
    c['im-in-num-files'] = lambda x: setup(_def('files-matcher', 'Z', {'c': 'num-files', 'm': _ref(x)}))
    c['fm-in-every-file'] = lambda x: setup(_def('files-matcher', 'Z', {'c': 'every-file', 'm': _ref(x)}))
    c['fm-in-selection'] = lambda x: setup(_def('files-matcher', 'Z', {'c': 'selection', 's': _ref(x),
                                                                       'm': {'lit': 'true'}}))
    c['fc-in-matches'] = lambda x: setup(_def('files-matcher', 'Z', {'c': 'matches', 'fc': _ref(x)}))
    c['fm-in-fc'] = lambda x: setup(_def('files-condition', 'Z', {'c': 'set', 'e': [[S('f1'), _ref(x)]]}))
    c['tt-in-transformed'] = lambda x: setup(_def('text-matcher', 'Z', {'c': 'transformed', 't': _ref(x),
                                                                        'm': {'lit': 'true'}}))
    c['ts-in-equals'] = lambda x: setup(_def('text-matcher', 'Z', {'c': 'equals', 's': {'ref': x, 't': None}}))
    # RICH-STRING forms, further instructions, programs inside other values
    def ts_str(q, *frags):
        return {'c': 'str', 's': {'q': q, 'f': list(frags)}, 't': None}

    def symref(x, *args):
        return {'c': 'symref', 'ref': x, 'a': list(args), 'in': None, 't': None}

    def shell(o, x):
        return {'c': 'shell', 'o': o, 's': S('v ', R(x), ' w', q='s'), 'a': [], 'in': None, 't': None}

    c['str-heredoc'] = lambda x: setup(_def('string', 'Z', {'q': 'd', 'f': ['a ', R(x), '\n', "'", R(x), "' b"]}),
                                       _show('Z'))
    c['str-eol'] = lambda x: setup(_def('string', 'Z', {'q': 't', 'f': ['  a "', R(x), "' b  "]}), _show('Z'))
    c['ts-heredoc'] = lambda x: setup({'k': 'file', 's': ts_str('d', R(x), '\n', 'x ', R(x))})
    c['ts-eol'] = lambda x: setup({'k': 'file', 's': ts_str('t', '[', R(x), ']')})
    c['arg-heredoc'] = lambda x: setup({'k': 'run', 'p': _probe('p2', [S('a'), {'q': 'd', 'f': [R(x)]}])})
    c['arg-eol'] = lambda x: setup({'k': 'run', 'p': _probe('p2', [S('a'), {'q': 't', 'f': ['r  ', R(x)]}])})
    c['fs-file-heredoc'] = lambda x: setup({'k': 'dir', 's': {'c': 'set', 'e': [
        {'k': 'file', 'n': S('f1'), 's': ts_str('d', 'h ', R(x))}, {'k': 'file', 'n': S('f2'), 's': None}]}})
    c['prog-stdin-heredoc'] = lambda x: setup({'k': 'run', 'p': _probe('p2', [S('a')], stdin=ts_str('d', R(x)))})
    c['env-ts-whole'] = lambda x: setup({'k': 'env', 's': {'ref': x, 't': None}}, {'k': 'run', 'p': _probe('p2', [])})
    c['env-str'] = lambda x: setup({'k': 'env', 's': ts_str('s', 'v', R(x))}, {'k': 'run', 'p': _probe('p2', [])})
    c['env-name'] = lambda x: setup({'k': 'env', 's': ts_str('s', 'v'), 'name': S('n', R(x), q='s')},
                                    {'k': 'run', 'p': _probe('p2', [])})
    c['stdin-ts'] = lambda x: ([{'k': 'stdin', 's': {'ref': x, 't': None}}], 'setup', _probe('act', []))
    c['stdin-str'] = lambda x: ([{'k': 'stdin', 's': ts_str('n', 'v', R(x))}], 'setup', _probe('act', [S('a')]))
    c['timeout-int'] = lambda x: setup({'k': 'timeout', 'i': S('100+', R(x))})
    c['stdout-from-prog'] = lambda x: setup({'k': 'file', 's': {'c': 'pgm', 'p': symref(x, S('n')), 't': None}})
    c['stdout-from-arg'] = lambda x: setup({'k': 'file', 's': {'c': 'pgm', 'p': _probe('q1', [S(R(x))]), 't': None}})
    c['stdout-from-stdin'] = lambda x: setup({'k': 'file', 's': {'c': 'pgm', 't': None,
                                                                 'p': _probe('q1', [], stdin={'ref': x, 't': None})}})
    c['stdout-from-tt'] = lambda x: setup({'k': 'file', 's': {'c': 'pgm', 't': None,
                                                              'p': _probe('q1', [], tt=_ref(x))}})
    c['shell-cmd'] = lambda x: setup({'k': 'run', 'p': shell('sh1', x)})
    c['bare-shell'] = lambda x: setup({'k': 'run', 'p': shell('sh2', x), 'bare': True})
    c['bare-probe-arg'] = lambda x: setup({'k': 'run', 'p': _probe('p2', [S('a'), S(R(x))]), 'bare': True})
    c['act-shell'] = lambda x: ([], 'setup', shell('sh1', x))
    c['act-arg-heredoc'] = lambda x: ([], 'setup', _probe('act', [S('a'), {'q': 'd', 'f': ['h ', R(x)]}]))
    c['shell-prog-def'] = lambda x: setup(_def('program', 'Z', shell('sh1', x)), {'k': 'run', 'p': symref('Z')})
    c['tm-run-prog'] = lambda x: setup(_def('text-matcher', 'Z', {'c': 'run', 'p': symref(x, S('m'))}))
    c['tm-run-arg'] = lambda x: (
        [_def('text-matcher', 'Z', {'c': 'run', 'p': _probe('q1', [S(R(x))])}),
         {'k': 'assert', 't': 'text-matcher', 'e': _ref('Z')}], 'assert', None)
    c['tt-run-prog'] = lambda x: setup(_def('text-transformer', 'Z', {'c': 'run', 'p': symref(x, S('t'))}),
                                       {'k': 'file', 's': {'c': 'str', 's': S('txt', q='s'), 't': _ref('Z')}})
    c['tt-run-arg'] = lambda x: setup(_def('text-transformer', 'Z', {'c': 'run', 'p': _probe('q1', [S(R(x))])}),
                                      {'k': 'file', 's': {'c': 'str', 's': S('txt', q='s'), 't': _ref('Z')}})
    pg = _def('program', 'PG', _probe('p3', [S('g')]))
    c['symref-arg'] = lambda x: setup(pg, {'k': 'run', 'p': symref('PG', S('a'), S(R(x)))})
    c['symref-arg-frag'] = lambda x: setup(pg, {'k': 'run', 'p': symref('PG', S('a ', R(x), q='s'))})
    c['symref-stdin'] = lambda x: setup(pg, {'k': 'run', 'p': dict(symref('PG'), **{'in': {'ref': x, 't': None}})})
    c['symref-stdin-str'] = lambda x: setup(pg, {'k': 'run', 'p': dict(symref('PG'), **{'in': ts_str('s', R(x))})})
    c['symref-tt'] = lambda x: setup(pg, {'k': 'run', 'p': dict(symref('PG'), t=_ref(x))})
    # the PATH argument of instructions (`file`, `dir`: "Accepted relativities: act, tmp, cd"; `exists`)
    def at(kind, p):
        it = {'k': kind, 'p': p}
        if kind == 'fileat':
            it['s'] = ts_str('s', 'txt')
        return it

    for kind, nm in [('fileat', 'file-dst'), ('dirat', 'dir-dst'), ('nexists', 'exists-path')]:
        ph_ = assert_ if kind == 'nexists' else setup
        c[nm + '-rel'] = (lambda k_, f_: lambda x: f_(at(k_, {'rel': R(x), 'name': S('n')})))(kind, ph_)
        c[nm + '-pfx'] = (lambda k_, f_: lambda x: f_(at(k_, {'rel': None, 'name': S(R(x), '/n')})))(kind, ph_)
        c[nm + '-comp'] = (lambda k_, f_: lambda x: f_(at(k_, {'rel': 'tmp', 'name': S('n/', R(x))})))(kind, ph_)
    # -contents-of SOURCE-FILE-PATH ("default is home directory"); HOME_PATH_CONTEXTS: X0 is a path in the home dir
    def src(p, tt=None):
        return {'c': 'contents-of', 'p': p, 't': tt}

    c['contents-of-rel'] = lambda x: setup({'k': 'file', 's': src({'rel': R(x), 'name': S('dat.txt')})})
    c['contents-of-pfx'] = lambda x: setup({'k': 'file', 's': src({'rel': None, 'name': S(R(x), '/dat.txt')})})
    c['contents-of-comp'] = lambda x: setup({'k': 'file', 's': src({'rel': None, 'name': S('dat', R(x), '.txt')},
                                                                   tt={'lit': 'upper'})})
    c['contents-of-in-ts-def'] = lambda x: setup(_def('text-source', 'Z', src({'rel': R(x), 'name': S('z.txt')})))
    c['contents-of-tt'] = lambda x: setup({'k': 'file', 's': src({'rel': 'home', 'name': S('dat.txt')}, tt=_ref(x))})
    # exit-code / stdout -from PROGRAM (assert phase)
    c['from-prog'] = lambda x: assert_({'k': 'from', 'ch': 'exit-code', 'p': symref(x, S('f'))})
    c['from-arg'] = lambda x: assert_({'k': 'from', 'ch': 'stdout', 'p': _probe('p2', [S('a'), S(R(x))])})
    c['from-arg-frag'] = lambda x: assert_({'k': 'from', 'ch': 'exit-code', 'p': _probe('p2', [S('a ', R(x), q='s')])})
    c['from-stdin'] = lambda x: assert_({'k': 'from', 'ch': 'exit-code',
                                         'p': _probe('p2', [], stdin={'ref': x, 't': None})})
    c['from-tt'] = lambda x: assert_({'k': 'from', 'ch': 'stdout', 'p': _probe('p2', [], tt=_ref(x))})
    c['act-file-actor-arg'] = lambda x: ([], 'setup', dict(_probe('act', [S(R(x)), S('z')]), actor='file'))
    c['act-file-actor-frag'] = lambda x: ([], 'setup', dict(_probe('act', [S('a', R(x), q='s')]), actor='file'))
    c['act-symref-arg'] = lambda x: ([pg], 'setup', symref('PG', S(R(x)), S('z')))
    c['fm-run-prog'] = lambda x: setup(_def('file-matcher', 'Z', {'c': 'run', 'p': symref(x)}))
    c['fm-run-arg'] = lambda x: setup(_def('file-matcher', 'Z', {'c': 'run', 'p': _probe('q1', [S('a', R(x), q='s')])}))
    return c


CONTEXTS = _ctx_table()
HOME_PATH_CONTEXTS = ['contents-of-rel', 'contents-of-pfx', 'contents-of-in-ts-def']
CHAINS = ['0', 's1', 's2', 't1', 't2', 'm1', 'm2']  # m: strings with two references, the second one leads to X0
DEEP_CHAINS = ['s3', 't3', 'm3', 't4']  # thorough: every context; quick: the contexts of DEEP_QUICK_CONTEXTS
DEEP_QUICK_CONTEXTS = ['contents-of-rel', 'contents-of-comp', 'env-name', 'file-dst-rel', 'file-dst-pfx', 'dir-dst-comp', 'exists-path-pfx', 'pathpfx', 'pathpfx-odd', 'pathcomp', 'pathcomp-relsym', 'int-def', 'int-used', 'timeout-int', 'fname-fs',
                       'fname-fc', 'rel', 'str-soft', 'list-elem', 'arg-elem', 'act-arg', 'file-ts-whole',
                       'run-prog', 'def-text-matcher-plain', 'file-tt-plain', 'dir-use-plain', 'replace-regex-used']


def matrix_case(ctx, t, chain, late=False):
    """def X0 of type t; chain of wrappers; context uses the last one.  late: the context is put into [cleanup]
    (the definitions stay in [setup]) and the phases are written in reverse order."""
    items = {p: [] for p in ITEM_PHASES}
    if chain[0] == 'm':
        items['setup'].append(_def('string', 'S0', S('s')))
    x0 = literal_value(t)
    if t == 'path' and ctx in HOME_PATH_CONTEXTS:
        x0 = {'rel': 'home', 'name': S('hd1')}
    items['setup'].append(_def(t, 'X0', x0))
    last = 'X0'
    if chain != '0':
        mode, n = chain[0], int(chain[1])
        for i in range(1, n + 1):
            name = 'X%d' % i
            if mode == 'm':
                items['setup'].append(_def('string', name, S(R('S0'), R(last), q='s' if i % 2 else 'n')))
            elif mode == 's':
                items['setup'].append(_def('string', name, S(R(last), q='s' if i % 2 else 'n')))
            else:
                items['setup'].append(_def(t, name, same_type_wrapper(t, last)))
            last = name
    ctx_items, phase, act = CONTEXTS[ctx](last)
    if late:
        if phase != 'setup' or act is not None or any(it['k'] == 'stdin' for it in ctx_items):
            return None
        items['cleanup'].extend(ctx_items)
        return {'order': CANONICAL_ORDER[::-1], 'act': None, 'items': items,
                'tag': 'matrix-late/%s/%s/%s' % (ctx, t, chain)}
    items[phase].extend(ctx_items)
    return {'order': CANONICAL_ORDER, 'act': act, 'items': items, 'tag': 'matrix/%s/%s/%s' % (ctx, t, chain)}


def matrix_cases(tier):
    for ctx in sorted(CONTEXTS):
        for t in ALL_TYPES:
            for chain in CHAINS + (DEEP_CHAINS if (tier == 'thorough' or ctx in DEEP_QUICK_CONTEXTS) else []):
                if chain[0] in 'sm' and t not in DATA_TYPES:
                    continue  # a string cannot be built from a logic value: that is cell (str-soft, t) itself
                yield matrix_case(ctx, t, chain)
                if tier == 'thorough':
                    c = matrix_case(ctx, t, chain, late=True)
                    if c is not None:
                        yield c


# ------------------------------------------------------------------------------------------------
# scope: where the definition is vs where the reference is
# ------------------------------------------------------------------------------------------------
def _orders(tier):
    perms = list(itertools.permutations(EXEC_ORDER))
    if tier == 'quick':
        return [list(p) for i, p in enumerate(perms) if i % 9 == 0 or i == len(perms) - 1]
    return [list(p) for p in perms]


def scope_cases(tier):
    orders = _orders(tier)
    filler = _def('string', 'FILL', S('f'))
    filler2 = _def('string', 'FILL2', S('g'))
    n = 0
    for def_phase in ITEM_PHASES:
        for use_phase in EXEC_ORDER:
            same = def_phase == use_phase
            for def_first in ([True, False] if same else [True]):
                for use_kind in (['file', 'def'] if use_phase != 'act' else ['act', 'act-file']):
                    for order in orders:
                        n += 1
                        items = {p: [] for p in ITEM_PHASES}
                        d = _def('string', 'X', S('v%d' % (n % 7)))
                        act = None
                        if use_kind in ('act', 'act-file'):
                            act = _probe('act', [S('a', R('X'))])
                            if use_kind == 'act-file':
                                act['actor'] = 'file'
                            use = None
                        elif use_kind == 'file':
                            use = _show('X')
                        else:
                            use = _def('list', 'Y', [S(R('X')), S('t')])
                        if same:
                            items[def_phase] = [d, filler, use] if def_first else [use, filler, d]
                        else:
                            items[def_phase].append(d)
                            if use is not None:
                                items[use_phase].append(use)
                        yield {'order': order, 'act': act, 'items': items,
                               'tag': 'scope/%s/%s/%s' % (def_phase, use_phase, use_kind)}
    # a phase written in two pieces (one at the start, one at the end of the file): what counts is the order of
    # the contents of the phase and the execution order of the phases, not where the pieces are
    for def_phase in ITEM_PHASES:
        order = [def_phase] + [q for q in EXEC_ORDER if q != def_phase] + [def_phase]
        for use_phase in EXEC_ORDER:
            for def_first in (True, False):
                for use_kind in (['file', 'def'] if use_phase != 'act' else ['act']):
                    items = {p: [] for p in ITEM_PHASES}
                    d = _def('string', 'X', S('w'))
                    act = None
                    use = None
                    if use_kind == 'act':
                        act = _probe('act', [S('a', R('X'))])
                    elif use_kind == 'file':
                        use = _show('X')
                    else:
                        use = _def('list', 'Y', [S(R('X')), S('t')])
                    if use_phase == def_phase:
                        items[def_phase] = [d, use] if def_first else [use, d]
                    else:
                        items[def_phase] = [d, filler] if def_first else [filler, d]
                        if use is not None:
                            items[use_phase].append(use)
                    yield {'order': order, 'cuts': {def_phase: [1]}, 'act': act, 'items': items,
                           'tag': 'split/%s/%s/%s/%s' % (def_phase, use_phase, use_kind,
                                                         'def-in-first-piece' if def_first else 'def-in-last-piece')}
    # included files: "The effect of including a file is equivalent to having the contents of the included file in the
    # including file" - the definition and/or the use live in an included file (plain, with its own phase header,
    # through a nested inclusion in another directory, or in a file that also holds the next phase of the main file)
    inc_orders = [CANONICAL_ORDER, CANONICAL_ORDER[::-1], ['assert', 'setup', 'cleanup', 'act', 'before-assert']]
    for def_phase in ITEM_PHASES:
        for use_phase in EXEC_ORDER:
            same = def_phase == use_phase
            for def_first in ([True, False] if same else [True]):
                for mode in ['plain', 'header', 'nested', 'absorb']:
                    for target in ['def', 'use', 'both']:
                        for order in (inc_orders if tier == 'thorough' else inc_orders[:2]):
                            items = {p: [] for p in ITEM_PHASES}
                            d = _def('string', 'X', S('i'))
                            act = None
                            use = None
                            if use_phase == 'act':
                                act = _probe('act', [S('a', R('X'))])
                            else:
                                use = _def('list', 'Y', [S(R('X')), S('t')]) if mode == 'header' else _show('X')
                            if same:
                                items[def_phase] = [d, filler, use] if def_first else [use, filler, d]
                            else:
                                items[def_phase] = [filler, d]
                                if use is not None:
                                    items[use_phase] = [use, filler2]
                            cands = [p for p in order if p != 'act']
                            inc = []
                            if target in ('def', 'both'):
                                inc.append({'p': cands.index(def_phase), 'a': items[def_phase].index(d), 'b': 1,
                                            'm': mode})
                            if target in ('use', 'both'):
                                if use is not None and not (same and target == 'both'):
                                    inc.append({'p': cands.index(use_phase), 'a': items[use_phase].index(use), 'b': 1,
                                                'm': mode})
                                elif use is None and order.index('act') > 0:
                                    # the act phase itself is written in an included file
                                    prev = order[order.index('act') - 1]
                                    if not any(sp['p'] == cands.index(prev) for sp in inc):
                                        inc.append({'p': cands.index(prev), 'a': 9, 'b': 0, 'm': 'absorb'})
                            yield {'order': order, 'act': act, 'items': items, 'inc': inc,
                                   'tag': 'included/%s/%s/%s/%s' % (def_phase, use_phase, mode, target)}
    # -rel-here: "the location of the current source file" - of the file in which the definition is written
    for mode in ['plain', 'header', 'nested', 'absorb']:
        for use_phase in ['setup', 'cleanup']:
            items = {p: [] for p in ITEM_PHASES}
            items['setup'] = [filler, _def('path', 'X', {'rel': 'here', 'name': S('n')}),
                              _def('path', 'X2', {'rel': R('X'), 'name': S('m')})]
            items[use_phase] = items[use_phase] + [_show('X2'), _def('path', 'H2', {'rel': 'here', 'name': S('o')}),
                                                   _show('H2')]
            yield {'order': CANONICAL_ORDER, 'act': _probe('act', [S(R('X'))]), 'items': items,
                   'inc': [{'p': 0, 'a': 1, 'b': 1, 'm': mode}],
                   'tag': 'rel-here/%s/%s' % (mode, use_phase)}
    # contents of the suite that the case belongs to: "included before the contents of the phase of each test case"
    # ([cleanup]: "included after")
    def place(ph, in_suite_items, in_case_items):
        return (in_case_items + in_suite_items) if ph == 'cleanup' else (in_suite_items + in_case_items)

    for def_phase in ITEM_PHASES:
        for use_phase in EXEC_ORDER:
            same = def_phase == use_phase
            for where in ['def-in-suite', 'use-in-suite', 'both-in-suite']:
                if use_phase == 'act' and where != 'def-in-suite':
                    continue
                for order in inc_orders[:2]:
                    for def_first in ([True, False] if (same and where == 'both-in-suite') else [True]):
                        items = {p: [] for p in ITEM_PHASES}
                        d = _def('string', 'X', S('su'))
                        act = None
                        use = None
                        if use_phase == 'act':
                            act = _probe('act', [S('a', R('X'))])
                        else:
                            use = _show('X')
                        suite = {}
                        if same:
                            if where == 'def-in-suite':
                                items[def_phase] = place(def_phase, [d], [use])
                                suite[def_phase] = 1
                            elif where == 'use-in-suite':
                                items[def_phase] = place(def_phase, [use], [d])
                                suite[def_phase] = 1
                            else:
                                items[def_phase] = place(def_phase, [d, use] if def_first else [use, d], [filler])
                                suite[def_phase] = 2
                        else:
                            in_suite_d = where in ('def-in-suite', 'both-in-suite')
                            items[def_phase] = place(def_phase, [d] if in_suite_d else [filler],
                                                     [filler] if in_suite_d else [d])
                            if in_suite_d:
                                suite[def_phase] = 1
                            if use is not None:
                                in_suite_u = where in ('use-in-suite', 'both-in-suite')
                                items[use_phase] = place(use_phase, [use] if in_suite_u else [filler2],
                                                         [filler2] if in_suite_u else [use])
                                if in_suite_u:
                                    suite[use_phase] = 1
                        yield {'order': order, 'act': act, 'items': items, 'suite': suite,
                               'tag': 'suite/%s/%s/%s' % (def_phase, use_phase, where)}
    # a symbol is not visible inside its own definition ("available to all instructions FOLLOWING the definition"),
    # neither directly nor through a later symbol
    for t in ALL_TYPES:
        for ph in ITEM_PHASES:
            for variant in ('direct', 'in-string', 'mutual'):
                items = {p: [] for p in ITEM_PHASES}
                if variant == 'direct':
                    items[ph].append(_def(t, 'X', same_type_wrapper(t, 'X')))
                elif variant == 'in-string':
                    if t not in DATA_TYPES:
                        continue
                    items[ph].append(_def('string', 'X', S('x', R('X'), q='s')) if t == 'string' else
                                     _def(t, 'X', [S('x', R('X'), q='s')] if t == 'list' else
                                          {'rel': 'tmp', 'name': S('x/', R('X'))}))
                else:
                    items[ph].append(_def(t, 'X', same_type_wrapper(t, 'Y')))
                    items[ph].append(_def(t, 'Y', same_type_wrapper(t, 'X')))
                yield {'order': orders[(len(t) + len(ph)) % len(orders)], 'act': None, 'items': items,
                       'tag': 'self-reference/%s/%s/%s' % (t, ph, variant)}
    # an instruction fails when it is executed: what follows is skipped, [cleanup] is executed and sees every symbol
    # that is defined before it in execution order - executed definition or not
    for stop_phase in ITEM_PHASES:
        for def_phase in ITEM_PHASES:
            for def_after in ([True, False] if def_phase == stop_phase else [True]):
                for use in ['file', 'via-cleanup-def', 'skipped-phase', 'none']:
                    for order in inc_orders[:2]:
                        items = {p: [] for p in ITEM_PHASES}
                        d = _def('string', 'X', S('k'))
                        if def_phase == stop_phase:
                            items[stop_phase] = [filler, {'k': 'stop'}, d] if def_after else [d, {'k': 'stop'}, filler]
                        else:
                            items[stop_phase] = [filler, {'k': 'stop'}, filler2]
                            items[def_phase].append(d)
                        if use == 'file':
                            items['cleanup'].append(_show('X'))
                        elif use == 'via-cleanup-def':
                            items['cleanup'] += [_def('list', 'Y', [S(R('X')), S('t')]),
                                                 {'k': 'run', 'p': _probe('p1', [S(R('Y'))])}]
                        elif use == 'skipped-phase':
                            items['assert'].append(_show('X'))
                        yield {'order': order, 'act': _probe('act', [S('a')]), 'items': items,
                               'tag': 'stopped/%s/%s/%s/%s' % (stop_phase, def_phase,
                                                               'def-after' if def_after else 'def-before', use)}
    # duplicates: same name twice (same or different type), anywhere
    for p1, p2 in itertools.combinations_with_replacement(ITEM_PHASES, 2):
        for t2 in ['string', 'list', 'line-matcher']:
            for order in orders[::3]:
                items = {p: [] for p in ITEM_PHASES}
                items[p1].append(_def('string', 'X', S('v')))
                items[p2].append(_def(t2, 'X', literal_value(t2)))
                yield {'order': order, 'act': None, 'items': items, 'tag': 'dup/%s/%s/%s' % (p1, p2, t2)}
    # builtin names cannot be redefined - whatever type, wherever
    for b in sorted(BUILTIN_TYPES):
        for ph in ITEM_PHASES:
            for t in ['string', 'path', 'text-matcher']:
                items = {p: [] for p in ITEM_PHASES}
                items[ph].append(_def(t, b, literal_value(t)))
                yield {'order': orders[(len(b) + len(ph)) % len(orders)], 'act': None, 'items': items,
                       'tag': 'builtin/%s/%s/%s' % (b, ph, t)}
    # ... but can be referenced everywhere, with their documented type
    for b in sorted(BUILTIN_TYPES):
        for ph in ITEM_PHASES:
            items = {p: [] for p in ITEM_PHASES}
            items[ph].append(_show(b))
            # ... also inside a REGEX that is used (KF-C08-1: a home directory path there was an INTERNAL_ERROR)
            items[ph].append({'k': 'file', 's': {'c': 'str', 's': S('<', R(b), '>', q='s'),
                                                 't': {'c': 'replace', 'r': S(R(b)), 's': S('R')}}})
            items['assert'].append({'k': 'assert', 't': 'text-matcher', 'e': {'c': 'matches', 'r': S('^', R(b))}})
            items[ph].append(_def('path', 'Q', {'rel': R(b), 'name': S('n')}))
            yield {'order': CANONICAL_ORDER, 'act': None, 'items': items, 'tag': 'builtin-ref/%s/%s' % (b, ph)}


# ------------------------------------------------------------------------------------------------
# values: every pair of base values (empty string, strings, empty list, lists with empty / spaced elements, path)
# combined by bare list elements, by fragments of a list element and by a string; then once more
# ------------------------------------------------------------------------------------------------
VALUE_BASES = [
    ('SE', 'string', S('', q='s')),
    ('S1', 'string', S('a')),
    ('S2', 'string', S('x  y ', q='s')),
    ('LE', 'list', []),
    ('L1', 'list', [S('b')]),
    ('L3', 'list', [S('c'), S('u v', q='s'), S('', q='s')]),
    ('PT', 'path', {'rel': 'tmp', 'name': S('d/e')}),
    ('PA', 'path', {'rel': R('EXACTLY_ACT'), 'name': S('', q='s')}),
]


def values_cases(tier):
    for (nx, tx, vx), (ny, ty, vy) in itertools.product(VALUE_BASES, VALUE_BASES):
        for phase2 in (['setup', 'cleanup'] if tier == 'thorough' else ['setup' if (len(nx) + len(ny)) % 2 else 'assert']):
            items = {p: [] for p in ITEM_PHASES}
            items['setup'].append(_def(tx, nx, vx))
            if ny != nx:
                items['setup'].append(_def(ty, ny, vy))
            items['setup'] += [
                _def('list', 'CL', [S(R(nx)), S('m'), S(R(ny))]),  # elements spliced
                _def('list', 'CF', [S('<', R(nx), '|', R(ny), '>', q='s'), S(R(nx), R(ny))]),  # inside one element
                _def('string', 'CS', S(R(nx), ',', R(ny), q='s')),
            ]
            items[phase2] += [
                _def('list', 'DL', [S(R('CL')), S(R('CF')), S(R('CS')), S('[', R('CL'), ']', q='s')]),
                _def('string', 'DS', S(R('CL'), ';', R('CF'), ';', R('CS'), q='s')),
                {'k': 'run', 'p': _probe('p1', [S(R('DL')), S(R('DS'), q='s'), S(R('DS'))],
                                         stdin={'c': 'str', 's': S(R('DL'), q='s'), 't': None})},
                {'k': 'file', 's': {'ref': 'DS', 't': None}},
                {'k': 'env', 's': {'c': 'str', 's': S(R('DL'), '=', R('CS'), q='s'), 't': None}},
                {'k': 'run', 'p': _probe('p2', [S(R('CL'))]), 'bare': True},
            ]
            act = _probe('act', [S(R('CL')), S(R('CF'))]) if phase2 != 'setup' else None
            yield {'order': CANONICAL_ORDER, 'act': act, 'items': items, 'tag': 'values/%s/%s' % (nx, ny)}


# ------------------------------------------------------------------------------------------------
# random programs
# ------------------------------------------------------------------------------------------------
class _Env:
    """What the generator knows about the symbols defined so far (execution order)."""

    def __init__(self):
        self.sym = {}  # name -> {'t': type, 'pure': bool (built from strings only), 'int': bool}
        for n, t in sorted(BUILTIN_TYPES.items()):
            self.sym[n] = {'t': t, 'pure': True, 'int': False, 'builtin': True}
        for n, r in (('EXACTLY_ACT', 'act'), ('EXACTLY_ACT_HOME', 'act-home'), ('EXACTLY_HOME', 'home'),
                     ('EXACTLY_RESULT', 'result'), ('EXACTLY_TMP', 'tmp')):
            self.sym[n]['root'] = r

    def names(self, types, pure=False, intish=False, user_only=False):
        return sorted(n for n, e in self.sym.items()
                      if e['t'] in types and (not pure or e['t'] != 'string' or e['pure'])
                      and (not intish or e['int'])
                      and (not user_only or not e.get('builtin')))


def _pick(draw, env, types, p=0.6, pure=False, intish=False, user_only=False):
    """A defined symbol with a type the context accepts (user symbols preferred: they make chains), or None."""
    user = env.names(types, pure=pure, intish=intish, user_only=True)
    if user and draw(st.integers(0, 99)) < min(95, int(p * 100) + 20):
        if draw(st.integers(0, 2)) == 0:
            return user[-1]  # the one defined last (names are handed out in alphabetic order): chains get longer
        return draw(st.sampled_from(user))
    if not user_only:
        builtin = [n for n in env.names(types, pure=pure, intish=intish) if n not in user]
        if builtin and draw(st.integers(0, 99)) < (15 if p < 1.0 else 60):
            return draw(st.sampled_from(builtin))
    return None


def _g_str(draw, env, types=DATA_TYPES, lits=LIT, max_frags=3, p_ref=0.55, pure=False, allow_hard=True,
           rich=False):
    """rich: the position takes a RICH-STRING and is the last thing of its line: `:> text` and here-documents too"""
    form = draw(st.integers(0, 9)) if rich else 9
    if form <= 0:
        # here-document: 1-3 lines
        frags = []
        used = []
        for i in range(draw(st.integers(1, 3))):
            if i:
                frags.append('\n')
            for _ in range(draw(st.integers(0, 2))):
                x = _pick(draw, env, types, p_ref, pure=pure)
                if x is not None:
                    frags.append(R(x))
                    used.append(x)
                else:
                    frags.append(draw(st.sampled_from(lits + [' # ', '  ', '-x'])))
        return {'q': 'd', 'f': frags}, used
    n = draw(st.integers(1, max_frags))
    frags = []
    used = []
    for _ in range(n):
        x = _pick(draw, env, types, p_ref, pure=pure)
        if x is not None:
            frags.append(R(x))
            used.append(x)
        else:
            frags.append(draw(st.sampled_from(lits)))
    if form <= 2:
        if draw(st.booleans()):
            frags.insert(draw(st.integers(0, len(frags))), draw(st.sampled_from([' # ', ' -x ', '  '])))
        return {'q': 't', 'f': frags}, used
    q = draw(st.sampled_from(['n', 'n', 's', 's', 's', 'h'] if allow_hard else ['n', 's', 's']))
    return {'q': q, 'f': frags}, (used if q != 'h' else [])


def _g_list(draw, env, max_len=3):
    out = []
    used = []
    for _ in range(draw(st.integers(0, max_len))):
        if draw(st.booleans()):
            x = _pick(draw, env, DATA_TYPES, 0.8)
            if x is not None:
                out.append(S(R(x)))
                used.append(x)
                continue
        s, u = _g_str(draw, env, max_frags=2)
        out.append(s)
        used.extend(u)
    return out, used


def _g_path(draw, env):
    shape = draw(st.sampled_from(['opt', 'opt', 'relsym', 'pfx', 'pfx', 'plain']))
    used = []

    def tail(prefix_literal):
        frags = [prefix_literal]
        x = _pick(draw, env, ['string'], 0.4, pure=True, user_only=True)
        if x is not None:
            frags.append('/')
            frags.append(R(x))
            used.append(x)
        return frags

    if shape == 'relsym':
        x = _pick(draw, env, ['path'], 1.0)
        if x is not None:
            used.append(x)
            return {'rel': R(x), 'name': S(*tail(draw(st.sampled_from(LIT_WORD))))}, used
        shape = 'opt'
    if shape == 'pfx':
        x = _pick(draw, env, ['path', 'string'], 1.0, pure=True)
        if x is not None and not (env.sym[x].get('builtin') and env.sym[x]['t'] == 'string'):
            used.append(x)
            frs = [R(x)]
            if draw(st.booleans()):
                frs.append('/' + draw(st.sampled_from(LIT_WORD)))
            return {'rel': None, 'name': S(*frs, q=draw(st.sampled_from(['n', 's'])))}, used
        shape = 'plain'
    if shape == 'opt':
        return {'rel': draw(st.sampled_from(REL_OPTIONS)), 'name': S(*tail(draw(st.sampled_from(LIT_WORD))))}, used
    return {'rel': None, 'name': S(*tail(draw(st.sampled_from(LIT_WORD))))}, used


_WRITE_ROOTS = ('act', 'tmp', 'cd')


def _root_of(env, p):
    """The relativity of a generated path (what the generator needs to know to choose a destination)"""
    rel = p['rel']
    if isinstance(rel, dict):
        return env.sym.get(rel['ref'], {}).get('root')
    if rel is not None:
        return rel
    first = p['name']['f'][0] if p['name']['f'] else ''
    if not isinstance(first, str) and env.sym.get(first['ref'], {}).get('t') == 'path':
        return env.sym[first['ref']].get('root')
    return 'cd'


def _g_argpath(draw, env, write=True):
    """The PATH argument of `file` / `dir` (write: a destination inside the sandbox, whatever the strings are: the
    FILE-NAME begins with a literal word, or the path is relative to a path symbol) or of `exists !`."""
    used = []
    frags = [draw(st.sampled_from(LIT_WORD))]
    y = _pick(draw, env, ['string'], 0.4, pure=True, user_only=True)
    if y is not None:
        frags += ['/', R(y)]
        used.append(y)
    name = S(*frags, q=draw(st.sampled_from(['n', 's'])))
    shape = draw(st.sampled_from(['relsym', 'relsym', 'opt', 'pfx']))
    paths = [n for n in env.names(['path']) if not write or env.sym[n].get('root') in _WRITE_ROOTS]
    if shape in ('relsym', 'pfx') and paths:
        user = [n for n in paths if not env.sym[n].get('builtin')]
        x = draw(st.sampled_from(user if (user and draw(st.integers(0, 3)) > 0) else paths))
        used.append(x)
        if shape == 'pfx':
            return {'rel': None, 'name': S(R(x), '/', *frags, q=name['q'])}, used
        return {'rel': R(x), 'name': name}, used
    rels = list(_WRITE_ROOTS) if write else ['home', 'act-home', 'act', 'tmp', 'cd']
    return {'rel': draw(st.sampled_from(rels)), 'name': name}, used


def _g_ts(draw, env, depth, eol=False):
    """eol: the text source is the last thing of its instruction line(s): RICH-STRING forms and -stdout-from PROGRAM
    (PGM-AND-ARGS runs to END-OF-LINE) can be used."""
    used = []
    if eol and depth <= 2 and draw(st.integers(0, 7)) == 0:
        p, u = _g_program(draw, env, depth + 1, allow_extras=depth == 0, nested=True)
        return {'c': 'pgm', 'p': p, 't': None}, u
    x = _pick(draw, env, ['text-source', 'string'], 0.45)
    if draw(st.integers(0, 11)) == 0:
        # -contents-of a file in the home directory (the harness makes the files)
        homes = [n for n in env.names(['path']) if env.sym[n].get('root') in ('home', 'act-home')]
        frags = [draw(st.sampled_from(['dat', 'h/dat', 'e.f']))]
        y = _pick(draw, env, ['string'], 0.4, pure=True, user_only=True)
        if y is not None:
            frags += ['_', R(y)]
            used.append(y)
        shape = draw(st.sampled_from(['relsym', 'pfx', 'opt', 'default']))
        if shape in ('relsym', 'pfx') and homes:
            hx = draw(st.sampled_from(homes))
            used.append(hx)
            pth = ({'rel': R(hx), 'name': S(*frags)} if shape == 'relsym' else
                   {'rel': None, 'name': S(R(hx), '/', *frags)})
        elif shape == 'opt':
            pth = {'rel': draw(st.sampled_from(['home', 'act-home'])), 'name': S(*frags)}
        else:
            pth = {'rel': None, 'name': S(*frags)}
        ts = {'c': 'contents-of', 'p': pth, 't': None}
    elif x is not None:
        used.append(x)
        ts = {'ref': x, 't': None}
    else:
        s, u = _g_str(draw, env, allow_hard=False, rich=eol)
        used.extend(u)
        if (s['q'] == 'n' and len(s['f']) == 1 and not isinstance(s['f'][0], str)
                and env.sym[s['f'][0]['ref']]['t'] != 'string'):
            s['q'] = 's'  # a naked token that is one reference is the SYMBOL-REFERENCE form (text-source or string)
        ts = {'c': 'str', 's': s, 't': None}
        if s['q'] in ('t', 'd'):
            return ts, used  # nothing can follow on the line
    if draw(st.integers(0, 3)) == 0:
        tt, u = _g_expr(draw, env, 'text-transformer', depth + 1)
        ts['t'] = tt
        used.extend(u)
    return ts, used


def _g_program(draw, env, depth, allow_extras=True, nested=False):
    used = []
    x = _pick(draw, env, ['program'], 0.6)
    if x is None and draw(st.integers(0, 7)) == 0:
        s, u = _g_str(draw, env, lits=[l for l in LIT if l], allow_hard=False)
        s['q'] = 's'  # SHELL-COMMAND-LINE: the rest of the line is one string; the text goes between double quotes
        p = {'c': 'shell', 'o': draw(st.sampled_from(SHELL_OUTS)), 's': s, 'a': [], 'in': None, 't': None}
        used.extend(u)
    else:
        args, u = _g_list(draw, env)
        used.extend(u)
        if draw(st.integers(0, 5)) == 0:
            # "If a RICH-STRING that spans whole lines is used, it will be the last element in the list"
            s, u = _g_str(draw, env, rich=True)
            args.append(s)
            used.extend(u)
        if x is not None:
            used.append(x)
            p = {'c': 'symref', 'ref': x, 'a': args, 'in': None, 't': None}
        else:
            p = {'c': 'probe', 'o': draw(st.sampled_from(NESTED_PROBES if nested else PROBES)), 'a': args,
                 'in': None, 't': None}
    if allow_extras and draw(st.integers(0, 4)) == 0:
        p['t'], u = _g_expr(draw, env, 'text-transformer', depth + 1)
        used.extend(u)
    if allow_extras and draw(st.integers(0, 2)) == 0:
        # with a -transformed-by line the text source is put inside parentheses: no end-of-line forms then
        p['in'], u = _g_ts(draw, env, depth + 1, eol=p['t'] is None)
        used.extend(u)
    return p, used


def _g_fs(draw, env, depth):
    x = _pick(draw, env, ['files-source'], 0.5)
    if x is not None:
        return {'ref': x, 'form': draw(st.sampled_from(['plain', 'special']))}, [x]
    used = []
    ents = []
    for i in range(draw(st.integers(1, 2))):
        name_frags = ['f%d' % (i + 1)]
        y = _pick(draw, env, ['string'], 0.35, pure=True, user_only=True)
        if y is not None:
            name_frags.append(R(y))
            used.append(y)
        name = S(*name_frags, q=draw(st.sampled_from(['n', 's'])))
        if draw(st.booleans()) or depth >= 2:
            ts = None
            if draw(st.booleans()):
                ts, u = _g_ts(draw, env, depth + 1, eol=True)
                used.extend(u)
            ents.append({'k': 'file', 'n': name, 's': ts})
        else:
            sub = None
            if draw(st.booleans()):
                sub, u = _g_fs(draw, env, depth + 1)
                used.extend(u)
            ents.append({'k': 'dir', 'n': name, 's': sub})
    return {'c': 'set', 'e': ents}, used


_COMPOSITES = {
    'integer-matcher': ['cmp'],
    'line-matcher': ['contents', 'line-num'],
    'text-matcher': ['equals', 'matches', 'num-lines', 'every-line', 'transformed'],
    'text-transformer': ['filter', 'replace'],
    'file-matcher': ['contents', 'dir-contents', 'name'],
    'files-matcher': ['num-files', 'every-file', 'matches', 'selection'],
}
_LIT_VARIANTS = {
    'integer-matcher': ['true', 'false'],
    'line-matcher': ['true', 'false'],
    'text-matcher': ['true', 'false', 'is-empty'],
    'text-transformer': ['identity', 'upper', 'upper', 'lower', 'strip'],
    'file-matcher': ['true', 'false', 'type-dir', 'type-file'],
    'files-matcher': ['true', 'false', 'is-empty'],
}


def _g_int_str(draw, env):
    x = _pick(draw, env, ['string'], 0.6, pure=True, intish=True)
    if x is not None:
        pre = draw(st.sampled_from(['', '', '-', '1']))
        return S(pre, R(x), q=draw(st.sampled_from(['n', 's']))) if pre else S(R(x)), [x]
    if draw(st.integers(0, 7)) == 0:
        y = _pick(draw, env, ['string'], 1.0, pure=True, user_only=True)
        if y is not None:
            return S(R(y)), [y]  # possibly not an integer: "either" for the oracle
    return S(draw(st.sampled_from(LIT_INT))), []


def _g_expr(draw, env, t, depth=0):
    """-> (expression of logic type t, [names used])"""
    if t == 'text-source':
        return _g_ts(draw, env, depth, eol=depth == 0)
    if t == 'program':
        return _g_program(draw, env, depth)
    if t == 'files-source':
        return _g_fs(draw, env, depth)
    if t == 'files-condition':
        x = _pick(draw, env, [t], 0.5)
        if x is not None:
            return {'ref': x, 'form': draw(st.sampled_from(['plain', 'special']))}, [x]
        if depth > 0:
            return None, []  # literal sets only at the top level of a definition (one FILE-CONDITION per line)
        used = []
        ents = []
        for i in range(draw(st.integers(1, 2))):
            frs = ['f%d' % (i + 1)]
            y = _pick(draw, env, ['string'], 0.35, pure=True, user_only=True)
            if y is not None:
                frs.append(R(y))
                used.append(y)
            fm = None
            if draw(st.booleans()):
                fm, u = _g_expr(draw, env, 'file-matcher', depth + 1)
                used.extend(u)
            ents.append([S(*frs, q=draw(st.sampled_from(['n', 's']))), fm])
        return {'c': 'set', 'e': ents}, used
    x = _pick(draw, env, [t], 0.5)
    if x is not None:
        return {'ref': x, 'form': draw(st.sampled_from(['plain', 'special']))}, [x]
    roll = draw(st.integers(0, 9))
    if depth >= 2 or roll < 3:
        return {'lit': draw(st.sampled_from(_LIT_VARIANTS[t]))}, []
    if roll < 5 and depth < 2:
        a, ua = _g_expr(draw, env, t, depth + 1)
        if roll == 3:
            return {'op': 'not' if t != 'text-transformer' else 'paren', 'a': a}, ua
        b, ub = _g_expr(draw, env, t, depth + 1)
        op = 'seq' if t == 'text-transformer' else draw(st.sampled_from(['and', 'or']))
        return {'op': op, 'a': a, 'b': b}, ua + ub
    c = draw(st.sampled_from(_COMPOSITES[t]))
    d = depth + 1
    if c == 'cmp':
        s, u = _g_int_str(draw, env)
        return {'c': 'cmp', 'o': draw(st.sampled_from(['==', '!=', '<', '<=', '>', '>='])), 'i': s}, u
    if (t, c) == ('line-matcher', 'contents') or (t, c) == ('file-matcher', 'contents'):
        m, u = _g_expr(draw, env, 'text-matcher', d)
        return {'c': 'contents', 'm': m}, u
    if c in ('line-num', 'num-lines', 'num-files'):
        m, u = _g_expr(draw, env, 'integer-matcher', d)
        return {'c': c, 'm': m}, u
    if c == 'equals':
        s, u = _g_ts(draw, env, d)
        return {'c': 'equals', 's': s}, u
    if (t, c) == ('text-matcher', 'matches'):
        s, u = _g_str(draw, env, lits=['a', 'b', 'cd', '.', 'x y', '0', '^', '$', 'e.f'], allow_hard=False)
        return {'c': 'matches', 'r': s}, u
    if c == 'every-line' or c == 'filter':
        m, u = _g_expr(draw, env, 'line-matcher', d)
        return {'c': c, 'm': m}, u
    if c == 'transformed':
        tt, u1 = _g_expr(draw, env, 'text-transformer', d)
        m, u2 = _g_expr(draw, env, 'text-matcher', d)
        return {'c': 'transformed', 't': tt, 'm': m}, u1 + u2
    if c == 'replace':
        r, u1 = _g_str(draw, env, lits=['a', 'b', 'cd', '.', '0', 'e.f'], allow_hard=False)
        s, u2 = _g_str(draw, env, lits=['a', 'b', 'x y', '', '-', '0'], allow_hard=False)
        return {'c': 'replace', 'r': r, 's': s}, u1 + u2
    if c == 'dir-contents':
        m, u = _g_expr(draw, env, 'files-matcher', d)
        return {'c': c, 'm': m}, u
    if c == 'name':
        s, u = _g_str(draw, env, lits=['a', 'b', '*', '?', 'e.f', 'cd'], allow_hard=False)
        return {'c': 'name', 'g': s}, u
    if c == 'every-file':
        m, u = _g_expr(draw, env, 'file-matcher', d)
        return {'c': c, 'm': m}, u
    if (t, c) == ('files-matcher', 'matches'):
        fc, u = _g_expr(draw, env, 'files-condition', d)
        if fc is None:
            return {'lit': 'is-empty'}, []
        return {'c': 'matches', 'fc': fc}, u
    if c == 'selection':
        s, u1 = _g_expr(draw, env, 'file-matcher', d)
        m, u2 = _g_expr(draw, env, 'files-matcher', d)
        return {'c': 'selection', 's': s, 'm': m}, u1 + u2
    raise ValueError((t, c))


_TYPE_WEIGHTS = (['string'] * 7 + ['list'] * 4 + ['path'] * 4 + ['text-source'] * 3 + ['program'] * 3 +
                 ['text-transformer'] * 3 + ['integer-matcher'] * 3 + ['files-source'] * 2 + ['text-matcher'] * 2 +
                 ['line-matcher'] * 2 + ['file-matcher'] * 2 + ['files-matcher'] * 2 + ['files-condition'] * 2)


def _g_value(draw, env, t):
    if t == 'string':
        return _g_str(draw, env, rich=True)
    if t == 'list':
        return _g_list(draw, env)
    if t == 'path':
        return _g_path(draw, env)
    if t in ('text-matcher', 'text-transformer', 'file-matcher') and draw(st.integers(0, 4)) == 0:
        # `run PROGRAM` - PGM-AND-ARGS runs to END-OF-LINE: generated as the whole value only
        p, u = _g_program(draw, env, 1, nested=True)
        return {'c': 'run', 'p': p}, u
    return _g_expr(draw, env, t, 0)


def _walk_refs(node, out):
    """all {'ref': ...} nodes of a JSON structure"""
    if isinstance(node, dict):
        if 'ref' in node:
            out.append(node)
        for k in sorted(node):
            _walk_refs(node[k], out)
    elif isinstance(node, list):
        for x in node:
            _walk_refs(x, out)


FAULTS = [None, None, None, None, None, None, None, 'def-later', 'def-later', 'use-earlier', 'dup', 'builtin-name',
          'retarget', 'retarget-type', 'retarget-type', 'undefined', 'drop-def', 'act-late', 'move-item', 'move-item',
          'impurify', 'impurify']
IMPURE_NAME = 'L'


@_hst.composite
def programs(draw, max_items=8, names=tuple(NAMES)):
    return build_program(lambda desc: draw(_strategy(desc)), max_items, names)


def program_from_bytes(data: bytes, max_items=8, names=tuple(NAMES)):
    """The same generator, driven by a byte string (structural decoding: bytes select among the generator's
    alternatives, nothing of the bytes is ever copied into the case)."""
    return build_program(ByteDraw(data), max_items, names)


def build_program(draw, max_items, names):
    # drawn first: the distribution of late draws of a large example is skewed towards the first alternative
    fault = draw(st.sampled_from(FAULTS))
    order = list(draw(st.permutations(EXEC_ORDER)))
    cuts = {}
    if draw(st.integers(0, 2)) == 0:
        # a phase may be written in several pieces: its contents are the pieces in file order
        for ph in draw(st.lists(st.sampled_from(ITEM_PHASES), min_size=1, max_size=2)):
            order.insert(draw(st.integers(0, len(order))), ph)
            cuts.setdefault(ph, []).append(draw(st.integers(0, max(5, max_items - 3))))
    stop_roll = draw(st.integers(0, 9))  # 0: one instruction fails when it is executed
    stop_pos = draw(st.integers(0, 11))
    stop_use = draw(st.integers(0, 2))
    inc = []
    if draw(st.integers(0, 3)) == 0:
        # parts of the case live in included files
        for _ in range(draw(st.integers(1, 2))):
            inc.append({'p': draw(st.integers(0, 7)), 'a': draw(st.integers(0, 2)), 'b': draw(st.integers(0, 3)),
                        'm': draw(st.sampled_from(['plain', 'plain', 'header', 'nested', 'absorb']))})
    suite = {}
    if draw(st.integers(0, 5)) == 0:
        # the leading items of some phases come from the suite the case belongs to
        for ph in draw(st.lists(st.sampled_from(ITEM_PHASES), min_size=1, max_size=2)):
            suite[ph] = draw(st.integers(1, 2))
    env = _Env()
    items = {p: [] for p in ITEM_PHASES}
    n_items = draw(st.integers(2, max_items))
    free = list(names)
    phase_i = 0
    act = None
    act_done = False
    n_run = 0

    def make_act():
        if draw(st.integers(0, 2)) == 0:
            return None
        p, _u = _g_program(draw, env, 0, allow_extras=False)
        if p['c'] == 'probe':
            p['o'] = 'act'
            if draw(st.integers(0, 3)) == 0:
                p['actor'] = 'file'  # [conf] actor = file % python: FILE [PROGRAM-ARGUMENT]...
        if p['a'] and p['a'][-1]['q'] == 'd':
            # the lines of [act] belong to the actor (empty lines ...): a here-document there is C10's matter
            p['a'][-1] = {'q': 't', 'f': [f for f in p['a'][-1]['f'] if f != '\n']}
        return p

    for _ in range(n_items):
        phase_i = min(3, phase_i + draw(st.sampled_from([0, 0, 0, 1, 1, 2])))
        if phase_i >= 1 and not act_done:
            act = make_act()
            act_done = True
        phase = ITEM_PHASES[phase_i]
        n_user = len(names) - len(free)
        kind = draw(st.sampled_from((['def', 'def', 'use', 'use', 'use'] if phase == 'assert' else
                                     ['def', 'def', 'def', 'use', 'use']) if n_user >= 2 else ['def'] * 5 + ['use']))
        if kind == 'def' and free:
            t = draw(st.sampled_from(_TYPE_WEIGHTS))
            name = free.pop(0)
            if t == 'string' and draw(st.integers(0, 5)) == 0:
                v, used = S(draw(st.sampled_from(['0', '1', '7', '12']))), []  # usable in INTEGER contexts
            else:
                v, used = _g_value(draw, env, t)
            if v is None:
                continue
            items[phase].append(_def(t, name, v))
            pure = t == 'string' and all(env.sym[u]['t'] == 'string' and env.sym[u]['pure'] for u in used)
            intish = False
            if t == 'string' and v['q'] != 'h':
                lits = [f for f in v['f'] if isinstance(f, str)]
                refs = [f['ref'] for f in v['f'] if not isinstance(f, str)]
                intish = (all(l in ('0', '1', '7', '12') for l in lits) and all(env.sym[r]['int'] for r in refs)
                          and len(lits) + len(refs) == 1)
            env.sym[name] = {'t': t, 'pure': pure if t == 'string' else False, 'int': intish}
            if t == 'path':
                env.sym[name]['root'] = _root_of(env, v)
        else:
            kinds = ['file', 'file', 'file', 'dir', 'env', 'timeout', 'fileat', 'dirat']
            if n_run < 2:
                kinds += ['run', 'run']
            if phase == 'assert':
                kinds += ['assert', 'assert', 'assert', 'assert', 'nexists', 'nexists', 'from', 'from', 'from']
            if phase == 'setup' and not any(it['k'] == 'stdin' for it in items['setup']):
                kinds += ['stdin', 'stdin']
            uk = draw(st.sampled_from(kinds))
            if uk == 'env':
                ts, _u = _g_ts(draw, env, 0, eol=True)
                it = {'k': 'env', 's': ts}
                if draw(st.integers(0, 4)) == 0:
                    y = _pick(draw, env, ['string'], 0.9, pure=True, user_only=True)
                    if y is not None:
                        it['name'] = S('v', R(y), q='s')
                items[phase].append(it)
            elif uk == 'stdin':
                ts, _u = _g_ts(draw, env, 0, eol=True)
                items[phase].append({'k': 'stdin', 's': ts})
            elif uk == 'timeout':
                s_, _u = _g_int_str(draw, env)
                # a timeout of 100 s and more: never reached
                items[phase].append({'k': 'timeout', 'i': {'q': 's' if s_['q'] == 's' else 'n',
                                                            'f': ['100+'] + s_['f']}})
            elif uk == 'file':
                ts, _u = _g_ts(draw, env, 0, eol=True)
                items[phase].append({'k': 'file', 's': ts})
            elif uk == 'fileat':
                pth, _u = _g_argpath(draw, env)
                ts, _u = _g_ts(draw, env, 0, eol=True)
                items[phase].append({'k': 'fileat', 'p': pth, 's': ts})
            elif uk == 'dirat':
                pth, _u = _g_argpath(draw, env)
                items[phase].append({'k': 'dirat', 'p': pth})
            elif uk == 'from':
                p, _u = _g_program(draw, env, 0)
                items[phase].append({'k': 'from', 'ch': draw(st.sampled_from(['exit-code', 'stdout'])), 'p': p})
            elif uk == 'nexists':
                pth, _u = _g_argpath(draw, env, write=False)
                items[phase].append({'k': 'nexists', 'p': pth})
            elif uk == 'dir':
                fs, _u = _g_fs(draw, env, 0)
                items[phase].append({'k': 'dir', 's': fs})
            elif uk == 'run':
                n_run += 1
                p, _u = _g_program(draw, env, 0)
                items[phase].append({'k': 'run', 'p': p, 'bare': draw(st.integers(0, 2)) == 0})
            else:
                have = [t_ for t_ in ASSERT_TYPES if env.names([t_], user_only=True)]
                t = draw(st.sampled_from(have if (have and draw(st.integers(0, 3)) > 0) else ASSERT_TYPES))
                e, _u = _g_expr(draw, env, t, 1)
                if e is None:
                    continue
                items[phase].append({'k': 'assert', 't': t, 'e': e})
    if not act_done:
        act = make_act()
    if stop_roll == 0:
        # execution stops at one instruction (`$ false`); [cleanup] is executed all the same and may use the symbols
        # whose definitions are skipped
        flat = [(ph, i) for ph in ITEM_PHASES for i in range(len(items[ph]) + 1)]
        ph, i = flat[(stop_pos * 7) % len(flat)]
        items[ph].insert(i, {'k': 'stop'})
        if ph != 'cleanup' and stop_use > 0:
            later = [it for q in ITEM_PHASES[ITEM_PHASES.index(ph):-1]
                     for j, it in enumerate(items[q]) if it['k'] == 'def' and (q != ph or j > i)]
            data = [it for it in later if it['t'] in DATA_TYPES]
            if data:
                items['cleanup'].append(_show(data[stop_pos % len(data)]['n']))
            elif later and later[0]['t'] == 'text-transformer':
                items['cleanup'].append({'k': 'file', 's': {'c': 'str', 's': S('aBc', q='s'), 't': _ref(later[0]['n'])}})
    case = {'order': list(order), 'act': act, 'items': items}
    if cuts:
        case['cuts'] = {ph: sorted(c) for ph, c in sorted(cuts.items())}
    if inc:
        case['inc'] = inc
    if suite:
        case['suite'] = {ph: n for ph, n in sorted(suite.items())}
    if fault is not None:
        case = _apply_fault(draw, case, fault, env)
    return case


def _flat(case):
    return [(ph, i) for ph in ITEM_PHASES for i in range(len(case['items'][ph]))]


def _apply_fault(draw, case, fault, env):
    case = copy.deepcopy(case)
    items = case['items']
    flat = _flat(case)
    defs = [(ph, i) for ph, i in flat if items[ph][i]['k'] == 'def']
    case['fault'] = fault
    if fault in ('def-later', 'use-earlier', 'move-item'):
        cands = defs if fault == 'def-later' else [x for x in flat if (fault == 'move-item' or x not in defs)]
        if not cands:
            return case
        ph, i = draw(st.sampled_from(cands))
        it = items[ph].pop(i)
        pi = ITEM_PHASES.index(ph)
        if fault == 'def-later':
            tp = draw(st.integers(pi, 3))
        elif fault == 'use-earlier':
            tp = draw(st.integers(0, pi))
        else:
            tp = draw(st.integers(0, 3))
        target = ITEM_PHASES[tp]
        if it['k'] in ('assert', 'nexists', 'from') and target != 'assert':
            target = 'assert'
        if it['k'] == 'stdin':
            target = 'setup'  # the instruction exists in [setup] only
        lo, hi = 0, len(items[target])
        if target == ph:
            if fault == 'def-later':
                lo = min(i + 1, hi)
            elif fault == 'use-earlier':
                hi = max(0, i - 1) if i > 0 else 0
        items[target].insert(draw(st.integers(lo, max(lo, hi))), it)
    elif fault == 'dup':
        if not defs:
            return case
        ph, i = draw(st.sampled_from(defs))
        name = items[ph][i]['n']
        t = draw(st.sampled_from([items[ph][i]['t'], 'string', 'list']))
        v = copy.deepcopy(items[ph][i]['v']) if t == items[ph][i]['t'] else literal_value(t)
        target = ITEM_PHASES[draw(st.integers(0, 3))]
        items[target].insert(draw(st.integers(0, len(items[target]))), _def(t, name, v))
    elif fault == 'builtin-name':
        b = draw(st.sampled_from(sorted(BUILTIN_TYPES)))
        t = draw(st.sampled_from(['string', 'path', 'list', 'text-transformer']))
        target = ITEM_PHASES[draw(st.integers(0, 3))]
        items[target].insert(draw(st.integers(0, len(items[target]))), _def(t, b, literal_value(t)))
    elif fault in ('retarget', 'retarget-type', 'undefined'):
        refs = []
        _walk_refs(case['items'], refs)
        _walk_refs(case['act'], refs)
        if not refs:
            return case
        node = refs[draw(st.integers(0, len(refs) - 1))]
        if fault == 'undefined':
            node['ref'] = UNDEFINED
        else:
            names = sorted(set(env.sym) | {'OS_PATH_SEP', 'EXACTLY_RESULT'})
            if fault == 'retarget-type':
                cur = env.sym.get(node['ref'], {}).get('t')
                other = [n for n in names if n in env.sym and env.sym[n]['t'] != cur and not env.sym[n].get('builtin')]
                names = other or names
            node['ref'] = draw(st.sampled_from(names))
    elif fault == 'impurify':
        # a string that a "strings only" context depends on (directly or through other strings) gets a reference to
        # a list or a path: the type check has to follow the chain
        by_name = {items[ph][i]['n']: items[ph][i] for ph, i in defs}
        todo = [name for ph, i in flat for name, ctx in item_refs(items[ph][i]) if ctx in STRICT_CONTEXTS]
        if case['act'] is not None:
            todo += [name for name, ctx in _program_refs(case['act']) if ctx in STRICT_CONTEXTS]
        closure = []
        while todo:
            n = todo.pop()
            d = by_name.get(n)
            if n in closure or d is None or d['t'] != 'string':
                continue
            closure.append(n)
            todo.extend(r for r, _ in value_refs('string', d['v']))
        cands = sorted(n for n in closure if by_name[n]['v']['q'] != 'h')
        if not cands:
            # no "strings only" context depends on a string: add one at the very end
            cands = sorted(n for n, d in by_name.items() if d['t'] == 'string' and d['v']['q'] != 'h')
            if not cands:
                return case
            cands = [draw(st.sampled_from(cands))]
            use = draw(st.sampled_from(['pathcomp', 'fname', 'int', 'envname']))
            if use == 'pathcomp':
                it = _def('path', IMPURE_NAME + '2', {'rel': 'tmp', 'name': S('n/', R(cands[0]))})
            elif use == 'fname':
                it = {'k': 'dir', 's': {'c': 'set', 'e': [{'k': 'file', 'n': S('f1', R(cands[0])), 's': None}]}}
            elif use == 'envname':
                it = {'k': 'env', 's': {'c': 'str', 's': S('v'), 't': None}, 'name': S('n', R(cands[0]), q='s')}
            else:
                it = {'k': 'timeout', 'i': S('100+', R(cands[0]))}
            items['cleanup'].append(it)
        target = by_name[draw(st.sampled_from(cands))]
        kind = draw(st.sampled_from(['list', 'list', 'path']))
        items['setup'].insert(0, _def(kind, IMPURE_NAME, literal_value(kind)))
        target['v']['f'].insert(draw(st.integers(0, len(target['v']['f']))), R(IMPURE_NAME))
    elif fault == 'drop-def':
        if not defs:
            return case
        ph, i = draw(st.sampled_from(defs))
        items[ph].pop(i)
    elif fault == 'act-late':
        later = [items[ph][i] for ph, i in defs if ph != 'setup']
        if not later:
            return case
        d = draw(st.sampled_from(later))
        if d['t'] == 'program':
            case['act'] = {'c': 'symref', 'ref': d['n'], 'a': [], 'in': None, 't': None}
        else:
            case['act'] = _probe('act', [S('a'), S(R(d['n']))])
    return case
