"""C03: assembling test cases around one carrier instruction, and the Hypothesis strategy for them.

A *generated-defect case* (JSON):
  effects    {phase: [marker|file|dir|probe ...]}   observable effects of every instruction phase
  order      file order of the six phases
  blank_lines, final_newline                         layout
  carrier    {ph, pos, where: main|inc|suite, actor, elems: [{name, toks}], inc_marker}
             one valid instruction (c03_grammar) at position `pos` among the effect instructions of phase `ph`,
             in the main file, in an included file, or in the phase section of the suite the case belongs to
  at_eof     the carrier is the very last thing of its file
  defects    [{ei, op, mode}]   each: one operator of c03_grammar applied to one hole of carrier element ei, and how
             Exactly is started on the result (run | keep | act | symbol | symbol-def | symbol-ref | suite)
  symbol_check  also examine the report of `exactly symbol` on the valid case
The *control* is the same case without the edit.
"""
from hypothesis import strategies as st

from vlib.gen import c03_grammar as CG

IPHASES = CG.IPHASES
EXEC_ORDER = CG.PHASES
ABBR = {'setup': 's', 'before-assert': 'b', 'assert': 'a', 'cleanup': 'c'}
MODES = ['run', 'keep', 'act', 'symbol', 'symbol-def', 'symbol-ref', 'symbol-suite', 'suite']
SUITE_NAME = 'exactly.suite'


def effect_lines(ph, i, kind):
    tag = '%s%d' % (ABBR[ph], i)
    if kind == 'marker':
        return ['$ echo %s >> {MARKERS}' % tag]
    if kind == 'probe':
        return ['% {PY} {PROBE} {OBS}/probe ' + tag, '$ echo %s >> {MARKERS}' % tag]
    if kind == 'file':
        return ['file -rel-act made-%s.txt = "x"' % tag, '$ echo %s >> {MARKERS}' % tag]
    return ['dir -rel-tmp made-%s' % tag, '$ echo %s >> {MARKERS}' % tag]


def markers_before_carrier(case):
    """markers the control run must have left whatever the carrier instruction does when it runs: those of all
    earlier phases and those before it in its own phase"""
    car = case['carrier']
    out = []
    cph = car['ph']
    other_place = car['where'] == 'suite' or (car['where'] == 'inc' and car.get('inc_from') not in (None, cph))
    for ph in ['setup', 'act', 'before-assert', 'assert', 'cleanup']:
        if cph != 'conf' and EXEC_ORDER.index(ph) > EXEC_ORDER.index(cph):
            break
        if ph == 'act':
            if cph != 'act':
                out.append('act')
            continue
        for i, _ in enumerate(case['effects'][ph]):
            if ph == cph and (i >= car['pos'] or other_place):
                # (the contents of a suite come first; contents included from another phase come where the text
                # order puts them: nothing of the phase is demanded then)
                break
            out.append('%s%d' % (ABBR[ph], i))
    return out


def all_markers(case):
    out = []
    for ph in ['setup', 'act', 'before-assert', 'assert', 'cleanup']:
        if ph == 'act':
            out.append('act')
        else:
            out += ['%s%d' % (ABBR[ph], i) for i in range(len(case['effects'][ph]))]
    return out


def is_at_eof(case):
    car = case['carrier']
    if car['where'] in ('inc', 'suite'):
        return True
    # build_files puts the phase of the carrier last and leaves out the blank lines when at_eof is set
    return bool(case.get('at_eof')) and \
        (car['ph'] in ('conf', 'act') or car['pos'] >= len(case['effects'][car['ph']]))


def later_phase_of(ph, k):
    """an instruction phase executed after `ph` (None if there is none)"""
    later = [p for p in IPHASES if EXEC_ORDER.index(p) > EXEC_ORDER.index(ph)]
    if not later:
        return None
    return later[k % len(later)]


# instructions (not definitions) that refer to every symbol of the prelude in a way that is valid: with them the
# defective reference of the carrier is not the first reference to its symbol
PRE_USE_SETUP = [
    'env C03_PRE_USE = "@[S]@ @[N]@ @[L]@ @[P]@ @[PD]@ @[PH]@"',
    'file -rel-act pre_use_1.txt = @[TS]@',
    'file -rel-act pre_use_2.txt = "a" -transformed-by ( TT | filter ( contents TM && LM && line-num IM ) )',
    'dir -rel-act pre_use_d = @[FSRC]@',
    'run @ PGM',
]
PRE_USE_ASSERT = [
    'exists -rel-act d : type dir && ( dir-contents ( FSM || matches FC ) || constant true )',
    'exists -rel-act f.txt : FM',
]


PRE_USE_REFERENCES = {n: 1 for n in ['S', 'N', 'L', 'P', 'PD', 'PH', 'TS', 'TT', 'TM', 'LM', 'IM', 'FSRC', 'PGM', 'FSM',
                                     'FC', 'FM']}


def build_files(case, defect=None):
    """-> {'files': {rel: text}, 'suite': name of the suite file or None, 'later_textually_earlier': bool}"""
    car = case['carrier']
    cph = car['ph']
    elems = car['elems']
    needs = []
    later = None
    if defect is not None:
        op = defect['op']
        elems = CG.apply(elems, defect['ei'], op)
        needs = list(op.get('needs') or [])
        later = op.get('later')
    carrier_lines = CG.carrier_lines(elems)
    later_line = later_ph = None
    if later is not None:
        later_line = 'def %s LATER_SYM = %s' % (later['type'], CG.VALID_VALUE[later['type']])
        if later['place'] == 'later-phase' or cph not in IPHASES:
            later_ph = later_phase_of(cph, later.get('k', 0))
        if later_ph is None and cph not in IPHASES:
            later_ph = 'cleanup'
    prelude = list(CG.SANDBOX_PRELUDE) + [d for _, d in CG.SYMBOL_DEFS] + CG.extra_def_lines(needs)
    if case.get('pre_use'):
        prelude += PRE_USE_SETUP

    ph_lines = {p: [] for p in EXEC_ORDER}
    where = car['where']
    carrier_block = list(carrier_lines)
    if later_line is not None and later_ph is None:
        carrier_block.append(later_line)
    files = {}
    suite_sections = None
    place_ph = cph
    if where == 'inc':
        inc = (['$ echo inc >> {MARKERS}'] if car.get('inc_marker') and cph in IPHASES else []) + carrier_block
        if car.get('inc_from') not in (None, cph):
            # included from another phase: the included file says which phase its contents belong to
            place_ph = car['inc_from']
            inc = ['[%s]' % cph] + inc
        inc_text = '\n'.join(inc) + ('\n' if case.get('final_newline', True) else '')
        if car.get('inc_depth', 1) == 2:
            # the included file includes the file with the carrier (path relative to the including file)
            files['sub/inc2.xly'] = inc_text
            files['sub/' + CG.INC_NAME] = 'including inc2.xly\n'
            placed = ['including sub/' + CG.INC_NAME]
        else:
            files[CG.INC_NAME] = inc_text
            placed = ['including ' + CG.INC_NAME]
    elif where == 'suite':
        suite_sections = {'setup': list(prelude)}
        suite_sections.setdefault(cph, [])
        suite_sections[cph] += carrier_block
        prelude = []
        placed = []
    else:
        placed = carrier_block
    if any(e['name'] == 'including' for e in elems):
        files['empty.xly'] = ''
    ph_lines['setup'] += prelude
    for p in IPHASES:
        lines = []
        for i, kind in enumerate(case['effects'][p]):
            if p == place_ph and i == car['pos']:
                lines += placed
            lines += effect_lines(p, i, kind)
        if p == place_ph and car['pos'] >= len(case['effects'][p]):
            lines += placed
        ph_lines[p] += lines
    if cph == 'act':
        ph_lines['act'] = list(placed)
        actor = car.get('actor', 'command')
        if actor == 'file':
            ph_lines['conf'].append('actor = file % sh')
        elif actor == 'source':
            ph_lines['conf'].append('actor = source % sh')
    else:
        ph_lines['act'] = ['$ echo act >> {MARKERS}']
    if cph == 'conf':
        ph_lines['conf'] += placed
    if case.get('pre_use'):
        ph_lines['assert'][0:0] = PRE_USE_ASSERT
    if later_ph is not None:
        ph_lines[later_ph].insert(0, later_line)

    order = list(case['order'])
    if case.get('at_eof') and where == 'main':
        order = [p for p in order if p != cph] + [cph]
    if place_ph != cph and cph == 'setup' and order.index('setup') > order.index(place_ph):
        # [setup] contents included from another phase: the definitions of the main file must come first
        i, j = order.index('setup'), order.index(place_ph)
        order[i], order[j] = order[j], order[i]
    suite_name = SUITE_NAME if not car.get('suite_explicit') else 'x.suite'
    lines = []
    for p in order:
        if p == 'conf' and not ph_lines['conf']:
            continue
        lines.append('[%s]' % p)
        lines += ph_lines[p]
        if case.get('blank_lines', True) and not (case.get('at_eof') and where == 'main'):
            lines.append('')
    text = '\n'.join(lines)
    if case.get('final_newline', True):
        text += '\n'
    files['t.case'] = text
    suite = None
    if suite_sections is not None:
        s_lines = []
        for p in ['setup'] + [q for q in suite_sections if q != 'setup']:
            s_lines.append('[%s]' % p)
            s_lines += suite_sections[p]
        files[suite_name] = '\n'.join(s_lines) + ('\n' if case.get('final_newline', True) else '')
        suite = suite_name
    later_where = None
    if later is not None:
        later_where = 'same-phase' if later_ph is None else 'later-phase'
        if later_ph is not None and where == 'main' and order.index(later_ph) < order.index(cph):
            later_where += '/textually-earlier'
    return {'files': files, 'suite': suite, 'later_where': later_where, 'carrier_lines': carrier_lines}


def argv_for(mode, built):
    """-> (extra files, argv)"""
    # a suite that is not named exactly.suite is given by --suite
    so = ['--suite', built['suite']] if built['suite'] not in (None, SUITE_NAME) else []
    if mode == 'run':
        return {}, so + ['t.case']
    if mode == 'keep':
        return {}, ['--keep'] + so + ['t.case']
    if mode == 'act':
        return {}, so + ['--act', 't.case']
    if mode == 'symbol':
        return {}, ['symbol'] + so + ['t.case']
    if mode == 'symbol-def':
        return {}, ['symbol'] + so + ['t.case', 'S']
    if mode == 'symbol-ref':
        return {}, ['symbol'] + so + ['t.case', 'S', '--ref']
    if mode == 'symbol-suite':
        # the report about the suite's own phase sections
        return {}, ['symbol', 'suite', built['suite']]
    if mode == 'suite':
        if built['suite']:
            # the listing comes first: the carrier stays the last thing in the file (a "missing argument" defect
            # is only sound at the very end of a file)
            text = built['files'][built['suite']]
            return {built['suite']: '[cases]\nt.case\n' + text}, ['suite', built['suite']]
        return {'s.suite': '[cases]\nt.case\n'}, ['suite', 's.suite']
    raise ValueError(mode)


# ---- strategy --------------------------------------------------------------------------------------------------------------
_EFFECT = st.sampled_from(['marker', 'marker', 'marker', 'marker', 'file', 'dir'])
# weights of the operator families when several are applicable (rare ones first so that they are not drowned)
_OP_WEIGHT = {'wrong-type': 5, 'defined-later': 3, 'undefined': 2, 'self-reference': 5, 'wrong-type-indirect': 3, 'wrong-type-in-path': 5,
              'relativity-via-symbol': 4, 'relativity-option': 2, 'missing-home-file': 5, 'bad-integer': 6,
              'bad-integer-via-symbol': 3, 'bad-regex': 6, 'bad-regex-via-symbol': 3, 'bad-replacement': 6,
              'bad-range': 6, 'bad-enum': 2, 'unterminated-here-doc': 3, 'duplicate-definition': 2,
              'bad-symbol-name': 1, 'include-missing': 3, 'unterminated-quote': 2, 'unknown-instruction': 1,
              'unknown-option': 1, 'superfluous-argument': 1, 'missing-argument': 3, 'act-second-line': 2}


_ONE_IN_4 = st.sampled_from([False, False, False, True])
_ONE_IN_12 = st.sampled_from([False] * 11 + [True])
_ONE_IN_30 = st.sampled_from([False] * 29 + [True])
_ONE_IN_150 = st.sampled_from([False] * 149 + [True])


@st.composite
def generated_cases(draw, tier='quick'):
    effects = {p: draw(st.lists(_EFFECT, min_size=1, max_size=3 if tier == 'quick' else 5)) for p in IPHASES}
    if draw(_ONE_IN_12):
        p = draw(st.sampled_from(IPHASES))
        effects[p][0] = 'probe'
    cph = draw(st.sampled_from(['setup', 'setup', 'before-assert', 'before-assert', 'assert', 'assert', 'assert',
                                'cleanup', 'cleanup', 'cleanup', 'act', 'act', 'conf']))
    focus = draw(st.sampled_from(CG.FOCI))
    g = CG.CG(draw, focus)
    actor = 'command'
    if cph == 'conf':
        elems = CG.conf_carrier(g)
    elif cph == 'act':
        actor = draw(st.sampled_from(['command', 'command', 'command', 'file', 'source']))
        elems = CG.act_carrier(g, actor)
    elif draw(_ONE_IN_30):
        elems = CG.including_carrier(g)
    else:
        elems = CG.instruction_carrier(g, cph)
    if len(elems) == 1 and elems[0]['name'] == 'def' and draw(st.booleans()):
        use = CG.use_of_definition(elems[0], cph)
        if use is not None:
            elems = elems + [use]
    if cph in ('conf', 'act'):
        where = 'main' if cph == 'act' else draw(st.sampled_from(['main', 'main', 'main', 'suite']))
        pos = 0
    else:
        where = draw(st.sampled_from(['main'] * 6 + ['inc', 'inc', 'suite']))
        n = len(effects[cph])
        pos = draw(st.sampled_from([0, n, n] + list(range(n + 1)) + list(range(1, n))))
    if any(e['name'] == 'including' for e in elems) and where == 'inc':
        where = 'main'
    at_eof = draw(_ONE_IN_4)
    case = {'effects': effects, 'order': list(draw(st.permutations(EXEC_ORDER))),
            'blank_lines': draw(st.booleans()), 'final_newline': draw(st.booleans()),
            'carrier': {'ph': cph, 'pos': pos, 'where': where, 'actor': actor, 'elems': elems,
                        'inc_marker': draw(st.booleans()), 'suite_explicit': draw(st.booleans()),
                        'inc_depth': draw(st.sampled_from([1, 1, 2])),
                        'inc_from': draw(st.sampled_from([None, None] + IPHASES)) if cph in IPHASES else None},
            'at_eof': at_eof, 'symbol_check': draw(_ONE_IN_4), 'pre_use': draw(st.booleans())}
    if at_eof and where == 'main' and cph in IPHASES:
        case['carrier']['pos'] = len(effects[cph])
    if where == 'inc' and case['carrier']['inc_from'] not in (None, cph):
        n = len(effects[case['carrier']['inc_from']])
        case['carrier']['pos'] = min(pos, n)
    eof = is_at_eof(case)
    # applicable operators, by family
    fam = {}
    for ei, e in enumerate(elems):
        ctx = 'def-unused' if e['name'] == 'def' and not any(x.get('use_of') for x in elems) else 'used'
        for op in CG.ops_for(elems, ei, cph, eof, ctx):
            fam.setdefault(op['op'], []).append((ei, op))
    names = sorted(fam)
    weighted = [n for n in names for _ in range(_OP_WEIGHT.get(n, 2))]
    defects = []
    n_def = draw(st.integers(1, 5 if tier == 'quick' else 8))
    for _ in range(n_def):
        if not weighted:
            break
        name = draw(st.sampled_from(weighted))
        ei, op = fam[name][draw(st.integers(0, len(fam[name]) - 1))]
        op = dict(op)
        if 'later' in op:
            op['later'] = dict(op['later'], k=draw(st.integers(0, 3)))
        mode = draw(st.sampled_from(['run'] * 8 + ['keep', 'act', 'symbol', 'symbol', 'symbol-def', 'symbol-ref',
                                                  'suite', 'suite']))
        if where == 'suite' and mode.startswith('symbol') and draw(st.booleans()):
            mode = 'symbol-suite'
        defects.append({'ei': ei, 'op': op, 'mode': mode})
    case['defects'] = defects
    if tier == 'thorough':
        case['subproc'] = draw(_ONE_IN_30)
    else:
        case['subproc'] = draw(_ONE_IN_150)
    return case


# ---- deterministic sample: carriers from a seeded choice sequence, every (operator, hole) of each -----------------------
_ENUM_PHASES = ['setup', 'assert', 'cleanup', 'before-assert', 'act', 'assert', 'setup', 'cleanup', 'conf', 'assert']
_ENUM_WHERE = ['main', 'main', 'inc', 'main', 'suite', 'main', 'inc']
_ENUM_MODES = ['run', 'run', 'keep', 'run', 'symbol', 'run', 'act', 'suite', 'run', 'symbol-ref', 'run', 'symbol-def']
ENUM_CARRIERS = {'quick': 130, 'thorough': 2000}


def enumerated_cases(tier):
    """independent of VERIF_SEED: carrier k comes from random.Random(k); of every (operator family, hole) of the
    carrier two variants are taken; defects are grouped by 10 around one control run"""
    import random
    for k in range(ENUM_CARRIERS[tier]):
        rnd = random.Random(4200 + k)
        g = CG.ChoiceCG(lambda m: rnd.randrange(m), CG.FOCI[k % len(CG.FOCI)])
        cph = _ENUM_PHASES[k % len(_ENUM_PHASES)]
        actor = 'command'
        if cph == 'conf':
            elems = CG.conf_carrier(g)
        elif cph == 'act':
            actor = ['command', 'file', 'command', 'source'][(k // len(_ENUM_PHASES)) % 4]
            elems = CG.act_carrier(g, actor)
        elif k % 41 == 40:
            elems = CG.including_carrier(g)
        else:
            elems = CG.instruction_carrier(g, cph)
        if len(elems) == 1 and elems[0]['name'] == 'def' and k % 2:
            use = CG.use_of_definition(elems[0], cph)
            if use is not None:
                elems = elems + [use]
        where = _ENUM_WHERE[k % len(_ENUM_WHERE)]
        if cph == 'act' or (cph == 'conf' and where == 'inc') or \
                (where == 'inc' and any(e['name'] == 'including' for e in elems)):
            where = 'main'
        effects = {p: ['marker'] * (1 + (k + i) % 2) for i, p in enumerate(IPHASES)}
        n = len(effects[cph]) if cph in IPHASES else 0
        order = list(EXEC_ORDER)
        rnd.shuffle(order)
        case = {'effects': effects, 'order': order, 'blank_lines': bool(k % 3 == 0), 'final_newline': bool(k % 4),
                'carrier': {'ph': cph, 'pos': [n, 0, n, 1][k % 4] if n else 0, 'where': where, 'actor': actor,
                            'elems': elems, 'inc_marker': bool(k % 2), 'suite_explicit': bool(k % 2),
                            'inc_depth': 1 + (k // 7) % 2,
                            'inc_from': None},
                'at_eof': k % 2 == 0, 'symbol_check': k % 5 == 0 or cph == 'cleanup' or elems[0]['name'] == 'def',
                'pre_use': k % 3 == 1}
        if case['at_eof'] and where == 'main' and cph in IPHASES:
            case['carrier']['pos'] = n
        eof = is_at_eof(case)
        groups = {}
        for ei, e in enumerate(elems):
            ctx = 'def-unused' if e['name'] == 'def' and not any(x.get('use_of') for x in elems) else 'used'
            for op in CG.ops_for(elems, ei, cph, eof, ctx):
                groups.setdefault((ei, op['op'], op.get('tok', op.get('start'))), []).append((ei, op))
        chosen = []
        for key in sorted(groups, key=str):
            lst = groups[key]
            for _ in range(min(2, len(lst))):
                ei, op = lst[rnd.randrange(len(lst))]
                op = dict(op)
                if 'later' in op:
                    op['later'] = dict(op['later'], k=rnd.randrange(4))
                mode = _ENUM_MODES[(k + len(chosen)) % len(_ENUM_MODES)]
                if where == 'suite' and mode.startswith('symbol') and len(chosen) % 2:
                    mode = 'symbol-suite'
                chosen.append({'ei': ei, 'op': op, 'mode': mode})
        for i in range(0, len(chosen), 10):
            c = dict(case)
            c['defects'] = chosen[i:i + 10]
            c['symbol_check'] = case['symbol_check'] and i == 0
            yield c
