"""C09 - generators: string renderings (fragments, separators, hosts) and raw tokenizer sources.

A CLI case is a JSON dict:

  host   'defstr' | 'file' | 'deflist' | 'args' | 'argspar' | 'act'
  lead   list of filler lines before the target instruction (varies its line number)
  pre    extra whitespace before the first item
  items  list of  ['tok', [[kind, text], ...]]          kind: n naked, s soft, h hard, us/uh unterminated quote
                  ['eol', text]                          :> text until end of line
                  ['here', marker, [line...], has_end]   here document
  seps   separators between items (len(items)-1)
  next   what follows the value: 'eol' | 'arg' | 'option' | 'qreserved' | 'paren' | 'paren_nl'
  tail   trailing whitespace of the last line

`render` gives the test-case text; nothing here imports exactly_lib.
"""
from hypothesis import strategies as st

PRELUDE = [
    '[setup]',
    "def string E = ''",
    "def string S = 's#v \"q@[E]@ \\z'",
    "def string a_b = 'A1'",
    "def list L = 'e1' 'e 2'",
    'def list L0 =',
    "def path P = -rel-home 'pp'",
]
SYMBOLS = {
    'E': ('string', ''),
    'S': ('string', 's#v "q@[E]@ \\z'),
    'a_b': ('string', 'A1'),
    'L': ('list', ['e1', 'e 2']),
    'L0': ('list', []),
    'P': ('path', '{HOME}/pp'),
}
GUARD = 'def string GUARD_ = g'
PROBE_PREFIX = '% {PY} {PROBE} {OBS}/p'
UPPER = '-transformed-by char-case -to-upper'

HOSTS = ['defstr', 'file', 'deflist', 'args', 'argspar', 'act']
STRING_HOSTS = ('defstr', 'file')
RICH_LIST_HOSTS = ('args', 'argspar', 'act')

SPECIAL_CHARS = ' \t\n\'"@[]#\\=:|(){}!&-<>é'
REFS = ['@[S]@', '@[L]@', '@[P]@', '@[E]@', '@[L0]@', '@[a_b]@']

_PLAIN = ['a', 'b', 'a', 'b', 'ab', 'S', '_', 'é']
_SPECIAL_NAKED = ['@', '[', ']', '#', '#', '\\', '\\', '=', ':', '|', '(', ')', '{', '}', '!', '&', '-', '<', '>',
                  '&&', '||', '-x', '--', ':>', '<<', '@[', ']@', '@[S', 'S]@', '@[]@', '@[S ]@', '@[é]@', '@[SS]@']
NAKED_ATOMS = _PLAIN * 3 + _SPECIAL_NAKED + REFS * 3
SOFT_ATOMS = NAKED_ATOMS + [' ', ' ', '  ', '\t', "'", "'", '\n', ' # ', ' = ']
HARD_ATOMS = NAKED_ATOMS + [' ', ' ', '  ', '\t', '"', '"', '\n', ' # ', ' = ']
EOL_ATOMS = NAKED_ATOMS + [' ', ' ', '  ', '\t', '"', "'", ' # ', ' = ', '"a b"', "'@[S]@'"]
LINE_ATOMS = EOL_ATOMS

RESERVED = ['(', ')', '[', ']', '{', '}', '=', '|', ':', '!', '&&', '||']
MARKERS = ['EOF', 'E-O_F', '0', '-', 'eof', 'X1', 'MARKER_']


def _text(atoms, min_size, max_size):
    return st.lists(st.sampled_from(atoms), min_size=min_size, max_size=max_size).map(''.join)


_naked_frag = st.tuples(st.just('n'), _text(NAKED_ATOMS, 1, 4)).map(list)
_soft_frag = st.tuples(st.just('s'), _text(SOFT_ATOMS, 0, 5)).map(list)
_hard_frag = st.tuples(st.just('h'), _text(HARD_ATOMS, 0, 5)).map(list)
_frag = st.one_of(_naked_frag, _soft_frag, _hard_frag)

_SPECIAL_TOKENS = (
        [[['n', w]] for w in RESERVED] +
        [[['s', w]] for w in RESERVED] + [[['h', w]] for w in RESERVED] +
        [[['n', w], ['s', '']] for w in ['=', ')', '@[L]@', '@[P]@', '@[S]@', ':>', '!', '\\']] +
        [[['h', ''], ['n', w]] for w in ['=', ')', '@[L]@', ':>', '\\']] +
        [[['n', w]] for w in REFS] + [[['s', w]] for w in REFS] + [[['h', w]] for w in REFS] +
        [[['n', '@[L]@'], ['n', '@[L]@']], [['n', 'x@[L]@']], [['n', '@['], ['h', 'S'], ['n', ']@']],
         [['n', '@['], ['s', 'S'], ['n', ']@']], [['s', '@[S'], ['s', ']@']], [['n', '@[UNDEFINED]@']],
         [['h', '@[S]@'], ['s', '@[S]@']], [['n', 'x'], ['h', '@[S]@']], [['h', '@[UNDEFINED]@']],
         [['h', '']], [['s', '']], [['h', ''], ['s', '']], [['n', 'a'], ['h', ''], ['n', 'b']],
         [['n', '-x']], [['n', '--opt']], [['n', '-']], [['n', '\\']], [['n', 'b\\']], [['n', '\\b']], [['n', '\\\\']],
         [['n', '#']], [['n', '#a']], [['n', 'a#']], [['n', 'a#b']], [['s', '#a']], [['h', 'a # b']],
         [['n', ':>']], [['s', ':>']], [['s', '<<EOF']], [['h', '<<EOF']], [['n', 'a=b']], [['n', '=a']],
         [['n', 'a)']], [['n', ')a']], [['n', '(a)']], [['n', '[act]']], [['n', '[setup]']],
         [['s', 'multi\nline']], [['h', 'multi\n[act]\n# c\n\nline']], [['s', ' lead and trail ']],
         [['n', 'a'], ['us', 'b c']], [['uh', 'b c']], [['us', '']], [['n', 'x'], ['uh', ' @[S]@ ']]])

_token = st.one_of(
    st.lists(_frag, min_size=1, max_size=4),
    st.lists(_frag, min_size=2, max_size=3),
    st.sampled_from(_SPECIAL_TOKENS),
)
_tok_item = _token.map(lambda fr: ['tok', fr])


def _unterminated(frs_and_q):
    frs, q, text = frs_and_q
    return ['tok', frs + [[q, text]]]


_bad_tok_item = st.tuples(st.lists(_frag, min_size=0, max_size=2), st.sampled_from(['us', 'uh', 'uh']),
                          _text(NAKED_ATOMS + [' ', '\n', ' '], 0, 4)).map(_unterminated)

_eol_item = _text(EOL_ATOMS, 0, 6).map(lambda t: ['eol', t])


def _here_lines(marker):
    special = [marker + 'X', ' ' + marker, 'X' + marker, marker + marker, '<<' + marker, marker + ' x', '\t' + marker,
               '[act]', '[setup]', '[assert]', '# comment', '#', '', '', '  ', '@[S]@', "'@[S]@' \"@[L]@\"",
               'EOF_', '"', "'", '\\', ' \\', 'def string GUARD_ = g', ')', '-' + marker]
    line = st.one_of(st.sampled_from(special), st.sampled_from(special), _text(LINE_ATOMS, 0, 5))
    return st.lists(line, min_size=0, max_size=5)


_here_item = st.sampled_from(MARKERS).flatmap(
    lambda m: st.tuples(st.just('here'), st.just(m), _here_lines(m),
                        st.sampled_from([True] * 7 + [False])).map(list))

_SEPS_1LINE = [' ', ' ', ' ', ' ', '  ', '\t', ' \t ']
_SEPS = _SEPS_1LINE + [' \\\n', ' \\\n  ', '\t\\\n\t', ' \\ \n ', ' \\\n \\\n ']
_LEADS = ['dir d1', '', '# comment', 'dir d2', '  ', "def string Q = 'it''s'"]
_NEXT_STRING = ['eol'] * 6 + ['arg', 'arg', 'option', 'option', 'qreserved', 'qreserved', 'paren', 'paren', 'paren_nl']
_NEXT_LIST = ['eol'] * 6 + ['paren', 'paren_nl']


@st.composite
def cli_case(draw, tier='quick'):
    host = draw(st.sampled_from(HOSTS))
    lead = draw(st.lists(st.sampled_from(_LEADS), min_size=0, max_size=3, unique=True))
    pre = draw(st.sampled_from(['', '', '', ' ', '\t']))
    tail = draw(st.sampled_from(['', '', '', ' ', ' \t']))
    if host in STRING_HOSTS:
        k = draw(st.integers(0, 19))
        item = draw(_bad_tok_item if k == 0 else _eol_item if k <= 3 else _here_item if k <= 7 else _tok_item)
        items = [item]
        seps = []
        nxt = draw(st.sampled_from(_NEXT_STRING))
    else:
        n = draw(st.integers(0, 4))
        items = [draw(_tok_item) for _ in range(n)]
        if host in RICH_LIST_HOSTS:
            k = draw(st.integers(0, 9))
            if k == 0:
                items.append(draw(_eol_item))
            elif k == 1 and host != 'act':
                items.append(draw(_here_item))
        if draw(st.integers(0, 29)) == 0:
            items.append(draw(_bad_tok_item))
        seps = [draw(st.sampled_from(_SEPS_1LINE if host == 'act' else _SEPS)) for _ in range(max(0, len(items) - 1))]
        nxt = 'paren' if host == 'argspar' else draw(st.sampled_from(_NEXT_LIST))
        if host == 'argspar' and draw(st.integers(0, 4)) == 0:
            nxt = 'paren_nl'
        if host == 'act':
            nxt = 'eol'
    return {'host': host, 'lead': lead, 'pre': pre, 'items': items, 'seps': seps, 'next': nxt, 'tail': tail}


# ---- rendering ------------------------------------------------------------------------------------------------
def _merge_naked(frags):
    out = []
    for k, t in frags:
        if k == 'n' and out and out[-1][0] == 'n':
            out[-1][1] += t
        else:
            out.append([k, t])
    return out


def normalized_token(frags, last_on_line: bool, first_on_line: bool, one_line: bool):
    """Keeps the rendering inside the part of the syntax where the manual is definite (see ASSUMPTIONS)."""
    frags = _merge_naked([[k, t] for k, t in frags])
    if one_line:
        frags = [[k, t.replace('\n', ' ')] for k, t in frags]
    # an unterminated quote can only be the last fragment
    for i, (k, t) in enumerate(frags[:-1]):
        if k in ('us', 'uh'):
            frags[i][0] = k[1]
    # `<<x` written naked is (or resembles) a here-document start: the string `<<x` is written quoted
    if frags[0][0] == 'n' and frags[0][1].startswith('<<'):
        frags[0][0] = 's'
    # a continuation line that looks like a phase header: not covered by the manual - written quoted
    if first_on_line and frags[0][0] == 'n' and frags[0][1].startswith('['):
        frags[0][0] = 's'
    # `b\` at the end of a line: "an unquoted \ at END-OF-LINE" can be read both ways - written quoted
    if last_on_line and frags[-1][0] == 'n' and frags[-1][1].endswith('\\') and \
            not (len(frags) == 1 and frags[0][1] == '\\'):
        frags[-1][0] = 'h'
    return frags


def token_text(frags) -> str:
    out = []
    for k, t in frags:
        if k == 'n':
            out.append(t)
        elif k == 's':
            out.append('"' + t + '"')
        elif k == 'h':
            out.append("'" + t + "'")
        elif k == 'us':
            out.append('"' + t)
        elif k == 'uh':
            out.append("'" + t)
    return ''.join(out)


def here_text(marker, lines, has_end, start_suffix='') -> str:
    body = [(l if l != marker else l + '_') for l in lines]
    return ('<<' + marker + start_suffix + '\n' + ''.join(l + '\n' for l in body) +
            (marker if has_end else 'no-end-' + marker))


_PREFIX = {
    'defstr': 'def string X = ',
    'file': 'file o = ',
    'deflist': 'def list X = ',
    'args': PROBE_PREFIX + ' ',
    'argspar': 'run ( ' + PROBE_PREFIX + ' ',
    'act': PROBE_PREFIX + ' ',
}


def effective_next(case) -> str:
    """The `next` kind after the adjustments that keep the case a single instruction."""
    host, nxt, items = case['host'], case['next'], case['items']
    ends_line = bool(items) and items[-1][0] in ('eol', 'here')
    if host == 'act':
        return 'eol'
    if host == 'argspar':
        return 'paren_nl' if (nxt == 'paren_nl' or ends_line) else 'paren'
    if host in ('deflist', 'args'):
        if nxt == 'paren_nl':
            nxt = 'paren'
        if ends_line and nxt == 'paren':
            nxt = 'eol'
        return nxt if nxt in ('eol', 'paren') else 'eol'
    if host == 'defstr' and nxt == 'paren_nl':
        return 'paren'
    if host == 'file' and ends_line and nxt == 'paren':
        return 'paren_nl'
    return nxt


def render(case):
    """-> dict(text, target_line, arg_pos, target_end, target, norm_items, next)

    text       the test case (placeholders not substituted)
    arg_pos    index in text where the reader starts (just after the fixed prefix of the host instruction)
    target_end index just after the last character of the target instruction
    """
    host = case['host']
    one_line = host == 'act'
    items = case['items']
    seps = [(s.replace('\n', ' ').replace('\\', ' ') if one_line else s) for s in case['seps']]
    nxt = effective_next(case)
    # what follows the value on its own line
    if host in STRING_HOSTS:
        same_line = {'eol': '', 'arg': ' x', 'option': (' ' + UPPER if host == 'file' else ' -opt'),
                     'qreserved': ' ")"', 'paren': ' )', 'paren_nl': ''}[nxt]
    else:
        same_line = {'eol': '', 'paren': ' )', 'paren_nl': ''}[nxt]
    parts = []
    norm_items = []
    tail = case['tail']
    for i, it in enumerate(items):
        if i > 0:
            parts.append(seps[i - 1])
        last = i == len(items) - 1
        if it[0] == 'tok':
            nl_follows = ((not last and '\n' in seps[i]) or (last and nxt in ('eol', 'paren_nl')))
            nl_before = i > 0 and '\n' in seps[i - 1]
            fr = normalized_token(it[1], nl_follows and host not in STRING_HOSTS, nl_before, one_line)
            norm_items.append(['tok', fr])
            parts.append(token_text(fr))
        elif it[0] == 'eol':
            t = it[1].replace('\n', ' ')
            norm_items.append(['eol', t])
            parts.append(':> ' + t if t else ':>')
        else:
            suffix = same_line
            if host == 'file' and nxt == 'option':
                suffix = ''  # a transformation after a here document is not generated
            norm_items.append(['here', it[1], it[2], it[3]])
            parts.append(here_text(it[1], it[2], it[3], suffix))
            same_line = ''
            tail = ''  # the end marker line is exactly the marker
    value = ''.join(parts)
    open_par = '( ' if host == 'file' and nxt in ('paren', 'paren_nl') else ''
    next_line = '\n  )' if nxt == 'paren_nl' else ''
    prefix = _PREFIX[host]
    target = prefix + case['pre'] + open_par + value + same_line + tail + next_line
    lines_before = list(PRELUDE)
    if host == 'act':
        lines_before += case['lead'][:1] + ['[act]'] + [l for l in case['lead'][1:] if l in ('', '# comment', '  ')]
        head = '\n'.join(lines_before) + '\n'
        text = head + target + '\n'
    else:
        lines_before += case['lead']
        head = '\n'.join(lines_before) + '\n'
        observers = [GUARD]
        if host == 'defstr':
            observers.append('file o = @[X]@')
        elif host == 'deflist':
            observers.append(PROBE_PREFIX + ' @[X]@')
        text = head + target + '\n' + '\n'.join(observers) + '\n[act]\n$ true\n'
    return {
        'text': text,
        'target_line': head.count('\n') + 1,
        'arg_pos': len(head) + len(prefix),
        'target_end': len(head) + len(target),
        'target': target,
        'norm_items': norm_items,
        'next': nxt,
    }


# ---- raw sources for the tokenizer layer ---------------------------------------------------------------------
_RAW_ALPHABET = list('abS_é') + list(' \t\n') * 3 + list('\'"') * 3 + list('@[]#\\=:|(){}!&-<>') + ['#', '\\', '@[S]@']
_raw_text = st.lists(st.sampled_from(_RAW_ALPHABET), min_size=0, max_size=24).map(''.join)

_TOK_SEPS = [' ', ' ', '  ', '\t', '\n', '\n', ' \n', '\n ', ' \\\n ', '\n\n', ' # ', '\n#c\n']


@st.composite
def _structured_source(draw):
    n = draw(st.integers(0, 6))
    out = [draw(st.sampled_from(['', '', ' ', '\n', '\t']))]
    for i in range(n):
        k = draw(st.integers(0, 11))
        if k == 0:
            fr = draw(_bad_tok_item)[1]
        else:
            fr = draw(_token)
        fr = _merge_naked([[a, b] for a, b in fr])
        for j, (kk, t) in enumerate(fr[:-1]):
            if kk in ('us', 'uh') and k != 0:
                fr[j][0] = kk[1]
        out.append(token_text(fr))
        out.append(draw(st.sampled_from(_TOK_SEPS)))
    if draw(st.booleans()) and out:
        out.pop()
    return ''.join(out)


def tok_case(tier='quick'):
    src = st.one_of(_structured_source(), _structured_source(), _raw_text)
    ops = st.lists(st.sampled_from([0, 0, 0, 0, 1, 2]), min_size=0, max_size=10)
    return st.fixed_dictionaries({'src': src, 'ops': ops})
