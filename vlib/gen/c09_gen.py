"""C09 - generators: string renderings (fragments, separators, hosts) and raw tokenizer sources.

A CLI case is a JSON dict:

  host   'defstr' | 'file' | 'deflist' | 'args' | 'argspar' | 'act' | 'deftsrc' | 'fileapp' | 'env' | 'stdin' |
         'pstdin' | 'equals' | 'fname' | 'runargs' | 'symargs'
  lead   list of filler lines before the target instruction (varies its line number)
  pre    extra whitespace before the first item
  items  list of  ['tok', [[kind, text], ...]]          kind: n naked, s soft, h hard, us/uh unterminated quote
                  ['eol', text]                          :> text until end of line
                  ['here', marker, [line...], has_end]   here document
  seps   separators between items (len(items)-1)
  next   what follows the value: 'eol' | 'arg' | 'option' | 'qreserved' | 'paren' | 'paren_nl'
  tail   trailing whitespace of the last line
  htail  what follows a here-document start token on its line ('' or white space)
  end    what follows the target instruction: 'guard' (another instruction) | 'next' (the instruction that observes
         the value / a phase header, directly) | 'eof_nl' (end of file) | 'eof' (end of file, no final line break)
  inc    the target instruction is the last one of an included file (error reports must name that file)
  uws    the Unicode white-space characters (other than blank/tab/LF) the case was built with (informative)

`render` gives the test-case text; nothing here imports exactly_lib.
"""
import functools

from hypothesis import strategies as st

# Unicode white space that is no blank/tab/CR/LF (vlib/ref/c09_reader.UNICODE_WS lists them all)
UWS_ALL = ''.join(chr(c) for c in
                  [0x0b, 0x0c, 0x1c, 0x1d, 0x1e, 0x1f, 0x85, 0xa0, 0x1680] + list(range(0x2000, 0x200b)) +
                  [0x2028, 0x2029, 0x202f, 0x205f, 0x3000])
UWS_COMMON = ['\xa0', '\xa0', '\xa0', '\x0c', '\x0b', '\x1f', '\x1c', '\x85', '\u2028', '\u2029', '\u3000', '\u2009',
              '\u1680', '\u202f']

PRELUDE = [
    '[setup]',
    "def string E = ''",
    "def string S = 's#v \"q@[E]@ \\z'",
    "def string a_b = 'A1'",
    "def list L = 'e1' 'e 2'",
    'def list L0 =',
    "def path P = -rel-home 'pp'",
    "def string U = '\xa0u\u2028'",
]
SYMBOLS = {
    'E': ('string', ''),
    'S': ('string', 's#v "q@[E]@ \\z'),
    'a_b': ('string', 'A1'),
    'L': ('list', ['e1', 'e 2']),
    'L0': ('list', []),
    'P': ('path', '{HOME}/pp'),
    'U': ('string', '\xa0u\u2028'),
}
GUARD = 'def string GUARD_ = g'
PROBE_PREFIX = '% {PY} {PROBE} {OBS}/p'
UPPER = '-transformed-by char-case -to-upper'
INC_NAME = 'inc.case'

HOSTS = ['defstr', 'file', 'deflist', 'args', 'argspar', 'act', 'deftsrc', 'fileapp', 'env', 'stdin', 'pstdin',
         'equals', 'fname', 'runargs', 'symargs']
_HOST_WEIGHTED = (['defstr', 'file', 'deflist', 'args', 'argspar', 'act'] * 3 +
                  ['deftsrc', 'fileapp', 'env', 'env', 'stdin', 'pstdin', 'equals', 'fname', 'fname', 'runargs',
                   'symargs', 'symargs'])
STRING_HOSTS = ('defstr', 'file', 'deftsrc', 'fileapp', 'env', 'stdin', 'pstdin', 'equals', 'fname')
TEXT_SOURCE_HOSTS = ('file', 'deftsrc', 'fileapp', 'env', 'stdin', 'pstdin', 'equals')
RICH_LIST_HOSTS = ('args', 'argspar', 'act', 'runargs', 'symargs')
OBSERVED_LATER = ('defstr', 'deftsrc', 'deflist', 'env')  # the value is observed by a following instruction
NOT_INCLUDABLE = ('act', 'equals')

SPECIAL_CHARS = ' \t\n\'"@[]#\\=:|(){}!&-<>é' + UWS_ALL
REFS = ['@[S]@', '@[L]@', '@[P]@', '@[E]@', '@[L0]@', '@[a_b]@', '@[U]@']

_PLAIN = ['a', 'b', 'a', 'b', 'ab', 'S', '_', 'é']
_SPECIAL_NAKED = ['@', '[', ']', '#', '#', '\\', '\\', '=', ':', '|', '(', ')', '{', '}', '!', '&', '-', '<', '>',
                  '&&', '||', '-x', '--', ':>', '<<', '@[', ']@', '@[S', 'S]@', '@[]@', '@[S ]@', '@[é]@', '@[SS]@']
NAKED_ATOMS = _PLAIN * 3 + _SPECIAL_NAKED + REFS * 3
# names of options: inside quotes they are strings like any other ("option-like words"), also at the very place
# where the option is accepted
OPTION_NAMES = ['-contents-of', '-stdout-from', '-stderr-from', '-existing-file', '-existing-dir', '-existing-path',
                '-python', '-transformed-by', '-stdin', '-rel-act', '-rel-home', '-ignore-exit-code']
_QUOTED_EXTRA = [' ', ' ', '  ', '\t', '\n', '\n', 'a\nb', ' # ', ' = '] + OPTION_NAMES[:6]
RESERVED = ['(', ')', '[', ']', '{', '}', '=', '|', ':', '!', '&&', '||']
MARKERS = ['EOF', 'E-O_F', '0', '-', 'eof', 'X1', 'MARKER_']


def _text(atoms, min_size, max_size):
    return st.lists(st.sampled_from(atoms), min_size=min_size, max_size=max_size).map(''.join)  # noqa


def _unterminated(frs_and_q):
    frs, q, text = frs_and_q
    return ['tok', frs + [[q, text]]]


class _Strategies:
    """The item strategies for a given tuple of extra (Unicode white-space) characters."""

    def __init__(self, u, big=False):
        ux = []
        for c in u:
            ux += [c, c, c + 'a', 'a' + c, 'a' + c + 'b', c + c]
        weight = 3 if len(u) <= 1 else 2
        naked = NAKED_ATOMS + ux * weight
        soft = naked + _QUOTED_EXTRA + ["'", "'"] + [' ' + c for c in u]
        hard = naked + _QUOTED_EXTRA + ['"', '"'] + [c + ' ' for c in u]
        eol = naked + [' ', ' ', '  ', '\t', '"', "'", ' # ', ' = ', '"a b"', "'@[S]@'"] + \
              [' ' + c for c in u] + [c + ' ' for c in u]
        self.naked_atoms, self.line_atoms = naked, eol
        naked_frag = st.tuples(st.just('n'), _text(naked, 1, 4)).map(list)
        soft_frag = st.tuples(st.just('s'), _text(soft, 0, 5)).map(list)
        hard_frag = st.tuples(st.just('h'), _text(hard, 0, 5)).map(list)
        frag = st.one_of(naked_frag, soft_frag, hard_frag)
        special = list(_SPECIAL_TOKENS)
        for c in u:
            special += [[['n', c]], [['n', c]], [['n', c + c]], [['n', c + 'a' + c]], [['n', c + 'a' + c + 'b']],
                        [['n', 'a' + c + 'b' + c]], [['n', c], ['s', 'x y'], ['n', c]], [['s', c]], [['h', c]],
                        [['s', c + 'a' + c]], [['h', c + 'a' + c]], [['n', c], ['h', '@[S]@']],
                        [['n', c + '=']], [['n', ')' + c]], [['n', c + '@[L]@']], [['n', '@[L]@' + c]],
                        [['n', c + ':>']], [['n', ':>' + c]], [['n', '\\' + c]], [['n', c + '\\']],
                        [['n', c + '@[S]@' + c]], [['n', 'a' + c], ['us', 'b']], [['n', c + '-x']]]
        self.token = st.one_of(
            st.lists(frag, min_size=1, max_size=7 if big else 4),
            st.lists(frag, min_size=2, max_size=3),
            st.sampled_from(special),
        )
        self.tok_item = self.token.map(lambda fr: ['tok', fr])
        self.bad_tok_item = st.tuples(st.lists(frag, min_size=0, max_size=2), st.sampled_from(['uh', 'us']),
                                      _text(naked + [' ', '\n', ' '], 0, 4)).map(_unterminated)
        self.eol_item = _text(eol, 0, 6).map(lambda t: ['eol', t])
        self.here_item = st.sampled_from(MARKERS).flatmap(
            lambda m: st.tuples(st.just('here'), st.just(m), self._here_lines(m, u),
                                st.sampled_from([True, False, True, True, True, True])).map(list))
        ws1 = [' ', ' ', ' ', ' ', '  ', '\t', ' \t '] + [' ' + c + ' ' for c in u]
        self.seps_1line = ws1
        self.seps = ws1 + [' \\\n', ' \\\n  ', '\t\\\n\t', ' \\ \n ', ' \\\n \\\n '] + \
                    [' \\' + c + '\n ' for c in u] + [' ' + c + '\\\n ' for c in u]
        self.pre = ['', '', '', ' ', '\t'] * (2 if len(u) == 1 else 3) + [c + ' ' for c in u] + list(u)
        self.tail = ['', '', '', ' ', ' \t'] * (2 if len(u) == 1 else 3) + [' ' + c for c in u] + list(u) + \
                    [' ' + c + ' ' for c in u]
        self.htail = [''] * 4 + [' '] + [' ' + c for c in u] * 2
        # directly after the name of the instruction (host `file NAME`)
        self.pre_after_name = ['', ' ', '\t'] + [c + ' ' for c in u] + list(u) + [' ' + c + ' ' for c in u]

    def _here_lines(self, marker, u):
        special = [marker + 'X', ' ' + marker, 'X' + marker, marker + marker, '<<' + marker, marker + ' x',
                   '\t' + marker, '[act]', '[setup]', '[assert]', '# comment', '#', '', '', '  ', '@[S]@',
                   "'@[S]@' \"@[L]@\"", 'EOF_', '"', "'", '\\', ' \\', 'def string GUARD_ = g', ')', '-' + marker]
        for c in u:
            special += [c, c + marker, c + 'x' + c, 'x' + c + 'y', ' ' + c]
        line = st.one_of(st.sampled_from(special), st.sampled_from(special), _text(self.line_atoms, 0, 5))
        return st.lists(line, min_size=0, max_size=5)


_SPECIAL_TOKENS = (
        [[['h', w]] for w in OPTION_NAMES] + [[['s', w]] for w in OPTION_NAMES[:7]] +
        [[['n', w]] for w in RESERVED] +
        [[['s', w]] for w in RESERVED] + [[['h', w]] for w in RESERVED] +
        [[['n', w], ['s', '']] for w in ['=', ')', '@[L]@', '@[P]@', '@[S]@', ':>', '!', '\\']] +
        [[['h', ''], ['n', w]] for w in ['=', ')', '@[L]@', ':>', '\\']] +
        [[['n', w]] for w in REFS] + [[['s', w]] for w in REFS] + [[['h', w]] for w in REFS] +
        [[['n', '@[L]@'], ['n', '@[L]@']], [['n', 'x@[L]@']], [['n', '@['], ['h', 'S'], ['n', ']@']],
         [['n', '@['], ['s', 'S'], ['n', ']@']], [['s', '@[S'], ['s', ']@']], [['n', '@[UNDEFINED]@']],
         [['h', '@[S]@'], ['s', '@[S]@']], [['n', 'x'], ['h', '@[S]@']], [['h', '@[UNDEFINED]@']],
         [['h', '']], [['s', '']], [['h', ''], ['s', '']], [['n', 'a'], ['h', ''], ['n', 'b']],
         [['n', '-x']], [['n', '--opt']], [['n', '-']], [['n', '\\']], [['n', 'b\\']], [['n', '\\b']], [['n', '\\\\']],
         [['n', '#']], [['n', '#a']], [['n', 'a#']], [['n', 'a#b']], [['s', '#a']], [['h', 'a # b']],
         [['n', ':>']], [['s', ':>']], [['s', '<<EOF']], [['h', '<<EOF']], [['n', 'a=b']], [['n', '=a']],
         [['n', 'a)']], [['n', ')a']], [['n', '(a)']], [['n', '[act]']], [['n', '[setup]']],
         [['s', 'multi\nline']], [['h', 'multi\n[act]\n# c\n\nline']], [['s', ' lead and trail ']],
         [['n', 'a'], ['us', 'b c']], [['uh', 'b c']], [['us', '']], [['n', 'x'], ['uh', ' @[S]@ ']],
         [['n', '@[S]@'], ['s', '@[S]@'], ['h', '@[S]@'], ['n', '@[S]@']],
         [['s', '@[L]@'], ['n', '@[L]@']], [['h', 'x'], ['n', '@[P]@'], ['s', 'y']],
         [['n', 'a@[S]@b@[E]@'], ['h', "@[S]@\"@[S]@\""], ['s', "'@[S]@'"]],
         [['n', '@[U]@']], [['s', 'x@[U]@']], [['h', '@[U]@']]])


@functools.lru_cache(maxsize=None)
def _strategies(u, big=False) -> _Strategies:
    return _Strategies(u, big)


_LEADS = ['dir d1', '', '# comment', 'dir d2', '  ', "def string Q = 'it''s'"]
_NEXT_STRING = ['eol'] * 6 + ['arg', 'arg', 'option', 'option', 'qreserved', 'qreserved', 'paren', 'paren', 'paren_nl']
_NEXT_LIST = ['eol'] * 6 + ['paren', 'paren_nl']
_ENDS = ['guard'] * 5 + ['next'] * 3 + ['eof_nl'] * 2 + ['eof'] * 2

_uws_some = st.one_of(
    st.sampled_from(UWS_COMMON).map(lambda c: (c,)),
    st.sampled_from(UWS_COMMON).map(lambda c: (c,)),
    st.sampled_from(list(UWS_ALL)).map(lambda c: (c,)),
    st.lists(st.sampled_from(UWS_COMMON), min_size=2, max_size=2, unique=True).map(tuple),
)
_uws_some_big = st.one_of(
    _uws_some, st.lists(st.sampled_from(list(UWS_ALL)), min_size=1, max_size=3, unique=True).map(tuple))
_uws = st.one_of(st.just(()), _uws_some)


@st.composite
def cli_case(draw, tier='quick', uws=False):
    host = draw(st.sampled_from(_HOST_WEIGHTED))
    big = tier != 'quick'
    u = draw(_uws_some_big if big else _uws_some) if uws else ()
    S = _strategies(u, big)
    lead = draw(st.lists(st.sampled_from(_LEADS), min_size=0, max_size=3, unique=True))
    pre = draw(st.sampled_from(S.pre_after_name if host == 'fname' else S.pre))
    tail = draw(st.sampled_from(S.tail))
    htail = draw(st.sampled_from(S.htail))
    if host in STRING_HOSTS:
        # (the first element of a sampled_from is drawn more often than the others: it is an ordinary token)
        k = draw(st.sampled_from(list(range(8, 20)) + [1, 2, 3] + [4, 5, 6, 7] + [0]))
        if host == 'fname':
            k = max(k, 8) if k else 0
        item = draw(S.bad_tok_item if k == 0 else S.eol_item if k <= 3 else S.here_item if k <= 7 else S.tok_item)
        items = [item]
        seps = []
        nxt = draw(st.sampled_from(_NEXT_STRING))
    else:
        n = draw(st.integers(0, 7 if big else 4))
        items = [draw(S.tok_item) for _ in range(n)]
        if host in RICH_LIST_HOSTS:
            k = draw(st.sampled_from(list(range(10))))
            if k == 9:
                items.append(draw(S.eol_item))
            elif k == 8:
                items.append(draw(S.here_item))
        if draw(st.sampled_from(list(range(30)))) == 29:
            items.append(draw(S.bad_tok_item))
        seps = [draw(st.sampled_from(S.seps_1line if host == 'act' else S.seps))
                for _ in range(max(0, len(items) - 1))]
        nxt = 'paren' if host == 'argspar' else draw(st.sampled_from(_NEXT_LIST))
        if host == 'argspar' and draw(st.sampled_from(list(range(5)))) == 4:
            nxt = 'paren_nl'
        if host == 'act':
            nxt = 'eol'
    end = draw(st.sampled_from(_ENDS))
    inc = draw(st.sampled_from([False] * 5 + [True]))
    return {'host': host, 'lead': lead, 'pre': pre, 'items': items, 'seps': seps, 'next': nxt, 'tail': tail,
            'htail': htail, 'end': end, 'inc': inc, 'uws': list(u)}


# ---- rendering ------------------------------------------------------------------------------------------------
def _merge_naked(frags):
    out = []
    for k, t in frags:
        if k == 'n' and out and out[-1][0] == 'n':
            out[-1][1] += t
        else:
            out.append([k, t])
    return out


def normalized_token(frags, last_on_line: bool, first_on_line: bool, one_line: bool):
    """Keeps the rendering inside the part of the syntax where the manual is definite (see ASSUMPTIONS)."""
    frags = _merge_naked([[k, t] for k, t in frags])
    if one_line:
        frags = [[k, t.replace('\n', ' ')] for k, t in frags]
    # an unterminated quote can only be the last fragment
    for i, (k, t) in enumerate(frags[:-1]):
        if k in ('us', 'uh'):
            frags[i][0] = k[1]
    # `<<x` written naked is (or resembles) a here-document start: the string `<<x` is written quoted
    if frags[0][0] == 'n' and frags[0][1].lstrip(UWS_ALL).startswith('<<'):
        frags[0][0] = 's'
    # a continuation line that looks like a phase header: not covered by the manual - written quoted
    if first_on_line and frags[0][0] == 'n' and frags[0][1].lstrip(UWS_ALL).startswith('['):
        frags[0][0] = 's'
    # `b\` at the end of a line: "an unquoted \ at END-OF-LINE" can be read both ways - written quoted
    if last_on_line and frags[-1][0] == 'n' and frags[-1][1].rstrip(UWS_ALL).endswith('\\') and \
            not (len(frags) == 1 and frags[0][1] == '\\'):
        frags[-1][0] = 'h'
    return frags


def token_text(frags) -> str:
    out = []
    for k, t in frags:
        if k == 'n':
            out.append(t)
        elif k == 's':
            out.append('"' + t + '"')
        elif k == 'h':
            out.append("'" + t + "'")
        elif k == 'us':
            out.append('"' + t)
        elif k == 'uh':
            out.append("'" + t)
    return ''.join(out)


def here_text(marker, lines, has_end, start_suffix='') -> str:
    # a body line that is the marker, or the marker followed by white space, would be (or might be) the end marker
    body = [(l if l.rstrip(' \t' + UWS_ALL) != marker else l.rstrip(' \t' + UWS_ALL) + '_') for l in lines]
    return ('<<' + marker + start_suffix + '\n' + ''.join(l + '\n' for l in body) +
            (marker if has_end else 'no-end-' + marker))


_PREFIX = {
    'defstr': 'def string X = ',
    'deftsrc': 'def text-source X = ',
    'file': 'file o = ',
    'fileapp': 'file o += ',
    'fname': 'file ',
    'env': 'env V_ = ',
    'stdin': 'stdin = ',
    'pstdin': 'run ' + PROBE_PREFIX + '\n  -stdin ',
    'equals': 'contents -rel-home exp : equals ',
    'deflist': 'def list X = ',
    'args': PROBE_PREFIX + ' ',
    'runargs': 'run ' + PROBE_PREFIX + ' ',
    'symargs': 'run @ PR ',
    'argspar': 'run ( ' + PROBE_PREFIX + ' ',
    'act': PROBE_PREFIX + ' ',
}
_BEFORE_TARGET = {
    'fileapp': ['file o'],
    'symargs': ['def program PR = ' + PROBE_PREFIX + ' pre1'],
}
_OBSERVERS = {
    'defstr': ['file o = @[X]@'],
    'deftsrc': ['file o = @[X]@'],
    'deflist': [PROBE_PREFIX + ' @[X]@'],
    'env': [PROBE_PREFIX],
}


def effective_next(case) -> str:
    """The `next` kind after the adjustments that keep the case a single instruction."""
    host, nxt, items = case['host'], case['next'], case['items']
    ends_line = bool(items) and items[-1][0] in ('eol', 'here')
    if host == 'act':
        return 'eol'
    if host == 'argspar':
        return 'paren_nl' if (nxt == 'paren_nl' or ends_line) else 'paren'
    if host in ('deflist', 'args', 'runargs', 'symargs'):
        if nxt == 'paren_nl':
            nxt = 'paren'
        if ends_line and nxt == 'paren':
            nxt = 'eol'
        return nxt if nxt in ('eol', 'paren') else 'eol'
    if host == 'defstr' and nxt == 'paren_nl':
        return 'paren'
    if host == 'fname':
        return nxt if nxt in ('eol', 'arg') else 'eol'
    if host in TEXT_SOURCE_HOSTS and ends_line and nxt == 'paren':
        return 'paren_nl'
    return nxt


def effective_end(case) -> str:
    host, end = case['host'], case.get('end', 'guard')
    if host in OBSERVED_LATER and end in ('eof', 'eof_nl'):
        return 'next'
    return end


def effective_inc(case) -> bool:
    return bool(case.get('inc')) and case['host'] not in NOT_INCLUDABLE


def render(case):
    """-> dict(files, src_name, text, target_line, arg_pos, target_end, target, norm_items, next, end, location)

    files      {file name: text} (placeholders not substituted); `t.case` is the test case
    src_name   the file that contains the target instruction; `text` is its text
    arg_pos    index in text where the reader starts (just after the fixed prefix of the host instruction)
    target_end index just after the last character of the target instruction
    location   the (file, line) chain an error report for the target instruction must give
    """
    host = case['host']
    one_line = host == 'act'
    items = case['items']
    seps = [(s.replace('\n', ' ').replace('\\', ' ') if one_line else s) for s in case['seps']]
    nxt = effective_next(case)
    end = effective_end(case)
    inc = effective_inc(case)
    text_source = host in TEXT_SOURCE_HOSTS
    # what follows the value on its own line
    if host in STRING_HOSTS:
        same_line = {'eol': '', 'arg': ' x', 'option': (' ' + UPPER if text_source else ' -opt'),
                     'qreserved': ' ")"', 'paren': ' )', 'paren_nl': ''}[nxt]
    else:
        same_line = {'eol': '', 'paren': ' )', 'paren_nl': ''}[nxt]
    parts = []
    norm_items = []
    tail = case['tail']
    for i, it in enumerate(items):
        if i > 0:
            parts.append(seps[i - 1])
        last = i == len(items) - 1
        if it[0] == 'tok':
            nl_follows = ((not last and '\n' in seps[i]) or (last and nxt in ('eol', 'paren_nl')))
            nl_before = i > 0 and '\n' in seps[i - 1]
            fr = normalized_token(it[1], nl_follows and host not in STRING_HOSTS, nl_before, one_line)
            norm_items.append(['tok', fr])
            parts.append(token_text(fr))
        elif it[0] == 'eol':
            t = it[1].replace('\n', ' ')
            norm_items.append(['eol', t])
            parts.append(':> ' + t if t else ':>')
        else:
            suffix = same_line
            if text_source and nxt == 'option':
                suffix = ''  # a transformation after a here document is not generated
            lines = it[2]
            if host == 'act':
                # [act]: empty and comment lines are the actor's, `[` starts a phase header, `\\` an escape sequence
                lines = [l for l in lines if l.strip() and l.strip()[0] not in '#[\\']
            norm_items.append(['here', it[1], lines, it[3]])
            before = seps[i - 1] if i > 0 else case['pre']
            if before and before[-1] in UWS_ALL:
                parts.append(' ')  # `<NBSP><<EOF` resembles a here-document start: not covered by the manual
            parts.append(here_text(it[1], lines, it[3], suffix + case.get('htail', '')))
            same_line = ''
            tail = ''  # the end marker line is exactly the marker
    value = ''.join(parts)
    open_par = '( ' if text_source and nxt in ('paren', 'paren_nl') else ''
    next_line = '\n  )' if nxt == 'paren_nl' else ''
    prefix = _PREFIX[host]
    target = prefix + case['pre'] + open_par + value + same_line + tail + next_line
    observers = list(_OBSERVERS.get(host, []))
    before = list(_BEFORE_TARGET.get(host, []))
    final_nl = '' if end == 'eof' else '\n'
    files = {}
    if host == 'act':
        lines_before = PRELUDE + case['lead'][:1] + ['[act]'] + \
                       [l for l in case['lead'][1:] if l in ('', '# comment', '  ')]
        head = '\n'.join(lines_before) + '\n'
        after = {'guard': '\n', 'next': '\n[assert]\nexit-code == 0\n', 'eof_nl': '\n', 'eof': ''}[end]
        src_name = 't.case'
    elif host == 'equals':
        head = '\n'.join(PRELUDE + case['lead'] + ['[assert]']) + '\n'
        after = {'guard': '\nexit-code == 0\n', 'next': '\n[cleanup]\ndir d9\n', 'eof_nl': '\n', 'eof': ''}[end]
        src_name = 't.case'
    else:
        top = ['[act]', PROBE_PREFIX + ' act'] if host == 'stdin' else []
        closing = '' if host == 'stdin' else '[act]\n$ true\n'
        if inc:
            inc_head = '\n'.join(case['lead'] + before) + '\n' if (case['lead'] or before) else ''
            files[INC_NAME] = inc_head + target + final_nl
            main_lines = top + PRELUDE + ['including ' + INC_NAME, GUARD] + observers
            files['t.case'] = '\n'.join(main_lines) + '\n' + closing
            head, after, src_name = inc_head, final_nl, INC_NAME
            including_line = len(top) + len(PRELUDE) + 1
        else:
            head = '\n'.join(top + PRELUDE + case['lead'] + before) + '\n'
            if end == 'guard':
                after = '\n' + '\n'.join([GUARD] + observers) + '\n' + closing
            elif end == 'next':
                after = '\n' + ''.join(o + '\n' for o in observers) + (closing or '[assert]\nexit-code == 0\n')
            else:
                after = final_nl
            src_name = 't.case'
    text = head + target + after
    files.setdefault(src_name, text)
    target_line = head.count('\n') + 1  # first line of the instruction
    location = [[src_name, target_line]]
    if inc and host not in NOT_INCLUDABLE:
        location = [['t.case', including_line]] + location
    return {
        'files': files,
        'src_name': src_name,
        'text': text,
        'target_line': target_line,
        'arg_pos': len(head) + len(prefix),
        'target_end': len(head) + len(target),
        'target': target,
        'norm_items': norm_items,
        'next': nxt,
        'end': end,
        'inc': inc,
        'location': location,
    }


# ---- raw sources for the tokenizer layer ---------------------------------------------------------------------
_RAW_ALPHABET = list('abS_é') + list(' \t\n') * 3 + list('\'"') * 3 + list('@[]#\\=:|(){}!&-<>') + ['#', '\\', '@[S]@']
_TOK_SEPS = [' ', ' ', '  ', '\t', '\n', '\n', ' \n', '\n ', ' \\\n ', '\n\n', ' # ', '\n#c\n']


def _raw_text(u):
    return st.lists(st.sampled_from(_RAW_ALPHABET + list(u) * 4), min_size=0, max_size=24).map(''.join)


@st.composite
def _structured_source(draw, u):
    S = _strategies(u)
    seps = _TOK_SEPS + [c for c in u] + [' ' + c for c in u] + [c + '\n' for c in u] + [' ' + c + '\n' for c in u] + \
           ['\r', '\r\n']
    n = draw(st.integers(0, 6))
    out = [draw(st.sampled_from(['', '', ' ', '\n', '\t'] + list(u)))]
    for i in range(n):
        k = draw(st.integers(0, 11))
        if k == 0:
            fr = draw(S.bad_tok_item)[1]
        else:
            fr = draw(S.token)
        fr = _merge_naked([[a, b] for a, b in fr])
        for j, (kk, t) in enumerate(fr[:-1]):
            if kk in ('us', 'uh') and k != 0:
                fr[j][0] = kk[1]
        out.append(token_text(fr))
        out.append(draw(st.sampled_from(seps)))
    if draw(st.booleans()) and out:
        out.pop()
    return ''.join(out)


FUZZ_ALPHABET = ['a', 'b', ' ', ' ', '\t', '\n', '\n', "'", '"', '@[', ']@', 'S', '_', '#', '\\', '=', ':', '|', '(', ')',
                 '{', '}', '!', '&&', '||', '-', '<<', 'EOF', ':>', 'é', '[', ']', '@', '<', '>', '&', '\r', '0',
                 '\xa0', '\x0c', '\u2028', '\x1f', '\u3000', '\x85', '\x0b', '\xa0']


def decode_tok(data: bytes):
    """bytes -> tokenizer case: the first byte gives the number of operations, then the operations, the rest
    selects source fragments from a fixed alphabet (structured decoding, so that coverage feedback works on
    the syntax and not on UTF-8 validity)"""
    if not data:
        return {'src': '', 'ops': []}
    n_ops = data[0] % 9
    ops = [(0, 0, 0, 0, 1, 2)[b % 6] for b in data[1:1 + n_ops]]
    src = ''.join(FUZZ_ALPHABET[b % len(FUZZ_ALPHABET)] for b in data[1 + n_ops:])
    return {'src': src, 'ops': ops}


@st.composite
def _structured_tok_case(draw):
    u = draw(_uws)
    src = draw(st.one_of(_structured_source(u), _structured_source(u), _raw_text(u)))
    ops = draw(st.lists(st.sampled_from([0, 0, 0, 0, 1, 2]), min_size=0, max_size=10))
    return {'src': src, 'ops': ops}


def tok_case(tier='quick'):
    """Half of the cases are built from tokens (expensive to draw), half are decoded from random bytes (cheap)."""
    return st.one_of(_structured_tok_case(), st.binary(min_size=0, max_size=40).map(decode_tok))
