"""C07 - generators of test-case documents as sequences over the alphabet of line kinds, with inclusion graphs.

Independent of the code under test.  Two modes:

* ``api``  - every line kind, including erroneous ones (unknown / malformed headers, unknown instructions,
  unterminated here-documents and descriptions, incomplete instructions, missing / cyclic inclusion); nothing
  is executed, documents are only parsed;
* ``exec`` - executable documents: `actor = source /bin/sh`, act lines and `$` instructions append their tag to
  ``{MARKERS}``; optionally exactly one planted failing element.

Rules respected (DESIGN 2.10): a header is `[` immediately followed by the name, blanks only before `[` and
after `]`; comment lines are never placed inside an instruction; a here-document start token is the last token
of its line and the marker matches [0-9a-zA-Z_-]+; parentheses and operators are separate tokens.
"""
import itertools
import posixpath

from hypothesis import strategies as st

PHASES = ['conf', 'setup', 'act', 'before-assert', 'assert', 'cleanup']
INSTR_PHASES = ['conf', 'setup', 'before-assert', 'assert', 'cleanup']
ROOT = 't.case'
_HEADER_ORDER = ['setup', 'assert', 'act', 'cleanup', 'before-assert', 'conf']

_DIRS = ['', 'sub', 'sub/deep', 'other']
_MARKERS = ['EOF', 'END', '-', 'eof_1', 'E-O-F']
_UNKNOWN_HEADERS = ['[nophase]', '[acts]', '[setup-x]', '[assertion]', '[x]', '  [before assert] ', '[main]']
_MALFORMED_HEADERS = ['[setup', '[setup] x', '[ ]', '[]', '[setup]]', '[[setup]', '[setup][act]', '[', ' [assert ] ',
                      '[-setup]', '[act] # c']
_COMMENTS = ['# comment', '#', '  # indented comment', '#[setup]', '# including x.xly', '\t#tab', '# `tick`',
             '# k\u00f6mment \u2603']
_BLANKS = ['', '', '   ', '\t']
_HEREDOC_BODY = ['[assert]', '  [setup]', '[nophase]', '[setup', '# not a comment', '', '   ', 'including x.xly',
                 'plain text', '`tick`', '\\[x]', 'dir z', '$ echo x', 'text with ( paren', '<<EOF', 'a ||',
                 '\u00e5\u00e4\u00f6 \u2603 text', 'a \\', '{', '}']
_DESC_TEXTS = ['d', 'the description', 'with [assert] inside', 'x # y', 'dir z', '', ' padded ', 'b\u00e4ckticks \u2603']


_INT = {}


def _int_below(n):
    s = _INT.get(n)
    if s is None:
        s = _INT[n] = st.integers(0, n - 1)
    return s


def _w(draw, pairs):
    """weighted choice by construction: pairs = [(weight:int, value)]"""
    total = 0
    for w, _ in pairs:
        total += w
    x = draw(_int_below(total))
    for w, v in pairs:
        if x < w:
            return v
        x -= w
    raise AssertionError()


class _Gen:
    def __init__(self, draw, mode, root_items, inc_items, max_files, max_depth=3, plant=None, root=ROOT):
        self.draw = draw
        self.root = root
        self.mode = mode
        self.root_items = root_items
        self.inc_items = inc_items
        self.max_files = max_files
        self.max_depth = max_depth
        self.files = {}
        self.start_phase = {}
        self.dirs = set()
        self.tag = 0
        self.complete = []  # files whose generation is finished (candidates for repeated inclusion)
        self.plant = plant  # exec mode: dict(kind=..., at=item index) or None
        self.items_emitted = 0
        self.planted = None
        self.code = 0
        self.exit_line_emitted = False
        self.idempotent = {}
        self.symlinks = {}
        self.phase_after_plant = None

    # ---- helpers --------------------------------------------------------
    def new_tag(self):
        self.tag += 1
        return 't%d' % self.tag

    def some(self, pool, lo, hi):
        """list of lo..hi values of the pool"""
        n = lo + self.draw(_int_below(hi - lo + 1))
        return [pool[self.draw(_int_below(len(pool)))] for _ in range(n)]

    def choice(self, seq):
        return seq[self.draw(_int_below(len(seq)))]

    def header(self, phase):
        form = _w(self.draw, [(6, '[%s]'), (1, '  [%s]'), (1, '[%s]  '), (1, '\t[%s] \t')])
        return form % phase

    # ---- instruction texts --------------------------------------------
    def one_line(self, phase):
        t = self.new_tag()
        n = self.tag
        if phase == 'conf':
            if self.mode == 'exec':
                return self.choice(['actor = source /bin/sh', 'status = PASS'])
            return self.choice(['status = PASS', 'status = FAIL', 'actor = source /bin/sh', 'home = .',
                                'act-home = .', 'actor = command'])
        if self.mode == 'exec':
            pool = ['$ echo %s >> {MARKERS}' % t] * 9 + ['dir %s' % t, 'file %s.txt' % t,
                                                        'file %s.txt = "text of %s"' % (t, t),
                                                        'def string %s = "v"' % t.upper(), 'env %s = v' % t.upper(),
                                                        'timeout = 30']
            if phase == 'assert':
                pool += ['exit-code == %d' % self.code, 'stderr is-empty', 'exit-code >= 0',
                         'exit-code ! == %d' % ((self.code + 1) % 256)]
            return self.choice(pool)
        pool = ['dir %s' % t, 'file %s.txt' % t, 'file %s.txt = "text"' % t, 'def string %s = "v"' % t.upper(),
                'env %s = v' % t.upper(), '$ echo %s' % t, '% echo ' + t, 'timeout = 10', 'run % echo ' + t,
                'cd .', '$ echo "(" [x] `', 'dir %s/sub' % t]
        if phase == 'setup':
            pool += ['stdin = "x"']
        if phase == 'assert':
            pool += ['exit-code == %d' % (n % 256), 'stdout is-empty', 'exists %s' % t,
                     'contents %s.txt : is-empty' % t, 'dir-contents . : ! is-empty', 'stderr ! is-empty']
        return self.choice(pool)

    def heredoc(self, phase, terminated=True):
        """-> lines"""
        t = self.new_tag()
        marker = self.choice(_MARKERS) if terminated else 'NOEND%d' % self.tag
        if phase == 'conf':
            return None
        heads = ['file %s.txt = <<%s' % (t, marker), 'def string %s = <<%s' % (t.upper(), marker)]
        if phase == 'setup':
            heads.append('stdin = <<%s' % marker)
        if phase == 'assert':
            heads += ['stdout ! equals <<%s' % marker, 'stderr ! equals <<%s' % marker]
            if self.mode != 'exec':
                heads += ['stdout equals <<%s' % marker, 'contents f.txt : equals <<%s' % marker]
        head = self.choice(heads)
        body = self.some(_HEREDOC_BODY, 0 if not head.startswith('std') else 1, 4)
        body = [b for b in body if b != marker]
        if self.mode == 'exec':
            body = [b.replace('{', '(').replace('}', ')') for b in body]
            if head.startswith('std') and not any(b.strip() for b in body):
                body.append('text')
        # lines that look like the marker but are not
        if terminated and self.draw(_int_below(6)) == 0:
            body.append(self.choice([' ' + marker, marker + ' ', marker + 'x']))
        return [head] + body + ([marker] if terminated else [])

    def paren(self, phase):
        t = self.new_tag().upper()
        n = self.tag % 200
        if phase == 'conf':
            return None
        forms = [
            ['def text-matcher %s = (' % t, ' is-empty', ' ||', ' ! is-empty', ')'],
            ['def integer-matcher %s = ( == %d ||' % (t, n), ' == %d )' % (n + 1)],
            ['def integer-matcher %s = (' % t, '', '  ( == %d )' % n, '', ' || == %d )' % (n + 1)],
            ['def line-matcher %s = ( line-num == 1' % t, '&&', 'contents is-empty )'],
        ]
        # FILES-SOURCE / FILES-CONDITION within braces (one file per line), STDIN of a program on its own line
        t = t.lower()
        forms += [
            ['dir %s = {' % t, '  file a', '  dir b', '}'],
            ['dir %s = {' % t, '  file a = <<EOF', '[assert]', '# no comment', 'EOF', '', '  dir b = {', '    file c', '  }',
             '}'],
            ['dir %s = {' % t, '}'],
            ['run % cat', '  -stdin <<EOF', '[act]', 'text', 'EOF'],
            ['run % cat', '-stdin "text"'],
        ]
        if phase == 'assert':
            c = self.code
            forms += [
                ['dir-contents . : ! matches {', '  no-such-file-%s : type file' % t, '}'],
                ['dir-contents . : ! matches -full {', '  no-such-file-%s : type file' % t, '',
                 '  no-such-dir-%s : type dir' % t, '}'],
                ['exit-code (', ' == %d' % c, ')'],
                ['exit-code (', '', ' ( ! == %d )' % ((c + 1) % 256), ' && >= 0', ')'],
                ['stderr ( equals <<EOF', '[setup]', 'x', 'EOF', ' || is-empty )'],
            ]
        return self.choice(forms)

    def continued(self, phase):
        t = self.new_tag().upper()
        if phase == 'conf':
            return None
        forms = [['def list %s = a b \\' % t, ' c d'], ['def list %s = a \\' % t, 'b \\', 'c']]
        if phase == 'assert':
            c = self.code
            forms += [['exit-code == %d ||' % c, ' == %d' % ((c + 1) % 256)], ['exit-code !', ' == %d' % ((c + 1) % 256)],
                      ['exit-code == %d &&' % c, '', ' >= 0']]
        return self.choice(forms)

    def any_instruction(self, phase, allow_multi=True):
        """-> lines of one valid instruction of the phase"""
        kind = _w(self.draw, [(6, 'one'), (3, 'heredoc'), (2, 'paren'), (1, 'cont')]) if allow_multi else 'one'
        lines = None
        if kind == 'heredoc':
            lines = self.heredoc(phase)
        elif kind == 'paren':
            lines = self.paren(phase)
        elif kind == 'cont':
            lines = self.continued(phase)
        if lines is None:
            lines = [self.one_line(phase)]
        return lines

    def described(self, phase):
        text = self.choice(_DESC_TEXTS)
        if self.mode == 'exec' and text == '':
            text = 'd'
        instr = self.any_instruction(phase)
        form = _w(self.draw, [(3, 'same'), (4, 'prev'), (3, 'multi')])
        if form == 'same':
            return ['`%s` %s' % (text, instr[0])] + instr[1:]
        gap = self.some(_BLANKS + _COMMENTS[:3], 0, 2)
        if form == 'prev':
            return ['`%s`' % text] + gap + instr
        inner = self.some(['[assert]', '# c', '', 'second line', 'including x', '  [act]', 'dir q'], 1, 3)
        closing = self.choice(['`', 'last`', ' ` '])
        if _w(self.draw, [(3, False), (1, True)]) and closing.strip() == '`':
            # instruction on the line of the closing delimiter
            return ['`' + text] + inner + ['` ' + instr[0]] + instr[1:]
        return ['`' + text] + inner + [closing] + gap + instr

    # ---- inclusion --------------------------------------------------------
    def new_path(self, from_dir):
        d = self.choice(_DIRS)
        form = _w(self.draw, [(10, 'inc%d.xly'), (1, '[inc%d].xly'), (1, '#inc%d.xly'), (1, 'inc-\u00f6-%d.xly'),
                              (1, 'inc%d')])
        return posixpath.join(d, form % (len(self.files)))

    def rel_ref(self, from_path, target):
        rel = posixpath.relpath(target, posixpath.dirname(from_path) or '.')
        style = _w(self.draw, [(16, 'plain'), (2, 'dot'), (2, 'updown'), (1, 'absolute')])
        if style == 'absolute':
            return '{HOME}/' + target
        if style == 'dot':
            return './' + rel
        if style == 'updown' and posixpath.dirname(from_path):
            d = posixpath.dirname(from_path)
            return posixpath.join('..', posixpath.basename(d), rel) if '/' not in d else rel
        return rel

    def including(self, path, phase, depth, stack):
        """-> directive line"""
        options = [(20, 'new')] if (len(self.files) < self.max_files and depth < self.max_depth) else []
        again = [f for f in self.complete if f not in stack and
                 (self.start_phase[f] == phase or self.start_phase[f] is None) and
                 (self.mode != 'exec' or self.idempotent.get(f))]
        if again:
            options.append((8, 'again'))
        if self.mode == 'api':
            options += [(1, 'missing'), (1, 'self'), (1, 'directory'), (1, 'symlink-to-ancestor')]
            if len(stack) > 1:
                options.append((2, 'ancestor'))
            if again:
                options.append((2, 'symlink-to-file'))
            wrong = [f for f in self.complete if f not in stack and f not in again]
            if wrong:
                options.append((1, 'other-phase'))
        if not options:
            return None
        kind = _w(self.draw, options)
        if kind == 'new':
            target = self.new_path(path)
            self.gen_file(target, phase, depth + 1, stack + [target])
        elif kind == 'again':
            target = self.choice(again)
        elif kind == 'other-phase':
            target = self.choice(wrong)
        elif kind == 'missing':
            target = self.choice(['missing.xly', 'nodir/missing.xly', 'sub/missing.xly'])
            return 'including ' + target
        elif kind in ('symlink-to-ancestor', 'symlink-to-file'):
            # the same file under another name (a symbolic link in the directory of the file)
            real = self.choice(stack) if kind == 'symlink-to-ancestor' else self.choice(again)
            target = posixpath.join(posixpath.dirname(real), 'link%d.xly' % len(self.symlinks))
            self.symlinks[target] = real
        elif kind == 'self':
            target = path
        elif kind == 'directory':
            self.dirs.add('adir')
            return 'including ' + posixpath.relpath('adir', posixpath.dirname(path) or '.')
        else:
            target = self.choice(stack[:-1])
        lead = _w(self.draw, [(9, ''), (1, '  ')]) if self.mode == 'api' else ''
        return lead + 'including ' + self.rel_ref(path, target) + _w(self.draw, [(9, ''), (1, '  ')])

    # ---- one file -----------------------------------------------------------
    def gen_file(self, path, start_phase, depth, stack):
        self.files[path] = ''
        self.start_phase[path] = start_phase if depth else None
        n_items = ((0 if self.mode == 'api' else 1) + self.draw(_int_below(self.inc_items + 1)) if depth
                   else (1 if self.mode == 'api' else min(4, self.root_items)) +
                   self.draw(_int_below(self.root_items)))
        lines = []
        phase = start_phase
        seen = []
        idem = True
        k = 0
        eof = False
        after_header = False
        while k < n_items and not eof:
            k += 1
            self.items_emitted += 1
            if self.plant is not None and self.planted is None and self.items_emitted > self.plant['at']:
                got = self.planted_item(path, phase, depth, stack)
                if got is not None:
                    self.planted['line0'] = len(lines)
                    self.planted['n'] = len(got)
                    lines.extend(got)
                    idem = False
                    if self.phase_after_plant is not None:
                        phase = self.phase_after_plant
                        seen.append(phase)
                    continue
            kind = self.item_kind(phase, depth, first=(k == 1), after_header=after_header)
            after_header = kind == 'hdr'
            follower = False
            gap_pool = _BLANKS + _COMMENTS[:4]
            if kind == 'hdr':
                again = [p for p in seen if p != phase]
                if again and _w(self.draw, [(3, False), (2, True)]):
                    phase = self.choice(again)
                else:
                    phase = self.choice(_HEADER_ORDER)
                seen.append(phase)
                lines.append(self.header(phase))
            elif kind == 'hdr_unknown':
                lines.append(self.choice(_UNKNOWN_HEADERS))
            elif kind == 'hdr_malformed':
                lines.append(self.choice(_MALFORMED_HEADERS))
            elif kind == 'blank':
                lines.append(self.choice(_BLANKS))
            elif kind == 'comment':
                lines.append(self.choice(_COMMENTS))
            elif phase == 'act':
                lines.extend(self.act_item(kind))
            elif kind == 'one':
                text = self.one_line(phase)
                idem = idem and (text.startswith('$ echo') or text.startswith('env ') or phase == 'conf'
                                 or text.startswith('exit-code') or text.startswith('stderr')
                                 or text.startswith('timeout'))
                lines.append(text)
            elif kind in ('heredoc', 'paren', 'cont'):
                got = {'heredoc': self.heredoc, 'paren': self.paren, 'cont': self.continued}[kind](phase)
                lines.extend(got if got is not None else [self.one_line(phase)])
                if self.mode == 'exec' and got and got[0].startswith('file '):
                    # make the contents of the here-document visible in the marker trace
                    lines.append('$ cat %s >> {MARKERS}' % got[0].split()[1])
                idem = idem and got[0].startswith(('exit-code', 'stderr', 'stdout', 'dir-contents', 'run ')) \
                    if got else idem
            elif kind == 'desc':
                lines.extend(self.described(phase))
                idem = False
            elif kind == 'include':
                d = self.including(path, phase, depth, stack)
                lines.append(d if d is not None else self.one_line(phase))
                idem = False
            elif kind == 'include_arity':
                lines.append(self.choice(['including', 'including a.xly b.xly', 'including  ']))
            elif kind == 'incomplete':
                pool = ['file', 'dir', 'cd', 'def string X%d =' % self.tag, 'file f%d.txt =' % self.tag,
                        'env X%d =' % self.tag, 'timeout =', 'copy', 'run', 'env', 'timeout', 'dir d%d =' % self.tag]
                if phase == 'assert':
                    pool += ['exists', 'exit-code', 'stdout', 'contents', 'stderr', 'dir-contents',
                             'contents f%d.txt :' % self.tag]
                if phase == 'setup':
                    pool += ['stdin =']
                if phase == 'conf':
                    pool = ['status =', 'actor =', 'home =', 'status', 'actor', 'act-home =', 'home']
                lines.append(self.choice(pool))
                follower = True
                # (a comment line after an incomplete instruction has two documented readings: rare)
                gap_pool = _BLANKS if self.draw(_int_below(8)) else _COMMENTS[:4]
            elif kind == 'unknown_instr':
                other = {'conf': 'dir x', 'setup': 'exists x', 'before-assert': 'stdin = "x"', 'assert': 'status = PASS',
                         'cleanup': 'exit-code == 0'}[phase]
                lines.append(self.choice(['no-such-instruction %s' % self.new_tag(), other, 'Dir x', '= x',
                                          '`d` no-such-instruction', 'including-x a.xly', 'status = PASS'
                                          if phase != 'conf' else 'exit-code == 0']))
            elif kind == 'heredoc_unterminated':
                got = self.heredoc(phase, terminated=False)
                lines.extend(got if got is not None else ['status ='])
            elif kind == 'desc_unterminated':
                lines.append(self.choice(['`no end', '`no end', ' `x']))
            elif kind == 'desc_no_instr':
                lines.append('`lonely description`')
                follower = True
            elif kind == 'interrupted':
                # an instruction that is unfinished at the end of its line(s), directly followed by a header
                if phase == 'conf':
                    lines.append('status =')
                    follower = True
                    gap_pool = _BLANKS
                else:
                    form = self.choice(['paren', 'paren', 'operator', 'list'])
                    if form == 'paren':
                        lines.extend(self.choice([['def text-matcher M%d = (' % self.tag, ' is-empty'],
                                                  ['def integer-matcher I%d = ( == 1 ||' % self.tag],
                                                  ['def integer-matcher I%d = (' % self.tag, ' ( == 1 )']]))
                        gap_pool = _BLANKS
                    elif form == 'operator':
                        lines.extend(self.choice([['def integer-matcher I%d = == 1 ||' % self.tag],
                                                  ['def text-matcher M%d = is-empty &&' % self.tag],
                                                  ['def integer-matcher I%d = !' % self.tag]]))
                        gap_pool = _BLANKS
                    else:
                        lines.extend(self.choice([['def list L%d = a \\' % self.tag],
                                                  ['def list L%d = a \\' % self.tag, ' b c \\']]))
                        gap_pool = None
                    follower = 'header-only'
            else:
                raise AssertionError(kind)
            if follower:
                # what follows an incomplete element decides whether the error is reported: only header lines,
                # blank lines, comment lines and end of file have a single documented reading
                if gap_pool:
                    lines.extend(self.some(gap_pool, 0, 2))
                f = _w(self.draw, [(6, 'hdr'), (2, 'hdr_unknown'), (2, 'hdr_malformed')] +
                       ([(3, 'eof')] if follower is True else []))
                if f == 'hdr':
                    phase = self.choice(PHASES)
                    seen.append(phase)
                    lines.append(self.header(phase))
                elif f == 'hdr_unknown':
                    lines.append(self.choice(_UNKNOWN_HEADERS))
                elif f == 'hdr_malformed':
                    # ('#' after a pending list continuation would add the effect of another finding, C09)
                    lines.append(self.choice(_MALFORMED_HEADERS if gap_pool is not None else _MALFORMED_HEADERS[:-1]))
                else:
                    eof = True
        text = '\n'.join(lines)
        if lines and _w(self.draw, [(4, True), (1, False)]):
            text += '\n'
        self.files[path] = text
        self.idempotent[path] = idem
        self.complete.append(path)

    def item_kind(self, phase, depth, first=False, after_header=False):
        if first and depth == 0 and self.draw(_int_below(4)) != 0:
            return 'hdr'
        kind = self._item_kind(phase, depth)
        if after_header and kind == 'hdr' and self.draw(_int_below(6)) != 0:
            kind = 'act_line' if phase == 'act' else 'one'
        return kind

    def _item_kind(self, phase, depth):
        if phase == 'act':
            pairs = [(50, 'act_line'), (56, 'hdr'), (16, 'act_escaped'), (12, 'comment'), (14, 'blank')]
            if self.mode == 'api':
                pairs += [(2, 'hdr_unknown'), (2, 'hdr_malformed'), (6, 'act_including'), (3, 'act_backtick'),
                          (3, 'act_heredoc_looking')]
            return _w(self.draw, pairs)
        # (the first alternatives are what degenerate draws produce: keep them useful)
        pairs = [(60, 'one'), (52, 'hdr'), (50 if self.mode == 'api' else 64, 'include'), (24, 'heredoc'),
                 (28, 'desc'), (12, 'paren'), (8, 'cont'), (16, 'comment'), (20, 'blank')]
        if self.mode == 'api':
            pairs += [(2, 'hdr_unknown'), (2, 'hdr_malformed'), (1, 'include_arity'), (5, 'incomplete'),
                      (2, 'unknown_instr'), (1, 'heredoc_unterminated'), (1, 'desc_unterminated'),
                      (1, 'desc_no_instr'), (3, 'interrupted')]
        return _w(self.draw, pairs)

    def act_item(self, kind):
        t = self.new_tag()
        if self.mode == 'exec':
            if kind == 'act_line':
                if not self.exit_line_emitted and self.draw(_int_below(8)) == 0:
                    self.exit_line_emitted = True
                    return ['exit %d' % self.code]
                return ['echo %s >> {MARKERS}' % t]
            if kind == 'act_escaped':
                return [self.choice(['\\[ -n "[x]" ] && echo %s >> {MARKERS}', '  \\[ 1 = 1 ] && echo %s >> {MARKERS}',
                                     '\\\\echo %s >> {MARKERS}']) % t]
            raise AssertionError(kind)
        if kind == 'act_line':
            return [self.choice(['act-line-%s' % t, '$ echo %s' % t, 'prog arg %s' % t, '  indented %s' % t,
                                 'x [setup]', '] [', 'dir x', 'a\\[b'])]
        if kind == 'act_escaped':
            return [self.choice(['\\[x]', '\\[setup]', '  \\[assert]', '\\\\', '\\\\[setup]', '\t\\\\x', '\\[',
                                 '\\\\\\[', '\\x'])]
        if kind == 'act_including':
            return [self.choice(['including x.xly', 'including', '  including missing.xly'])]
        if kind == 'act_backtick':
            return [self.choice(['`not a description`', '`open'])]
        if kind == 'act_heredoc_looking':
            return ['cat <<EOF', 'x ' + t, 'EOF']
        raise AssertionError(kind)

    # ---- exec mode: exactly one failing element ---------------------------------
    def planted_item(self, path, phase, depth, stack):
        """-> lines of the failing element (valid for the current phase), or None if nothing fits here"""
        T = 'FAILTAG'
        kinds = [(1, 'hdr_unknown'), (1, 'hdr_malformed')]
        if phase != 'act':
            kinds += [(8, 'instr'), (5, 'instr_multi'), (2, 'syntax_unknown'), (2, 'include_missing'),
                      (3, 'include_cycle'), (1, 'include_directory'), (2, 'syntax_heredoc'), (2, 'incomplete')]
        elif self.draw(_int_below(4)) != 0:
            return None  # wait for a phase with instructions
        want = self.plant.get('kind')
        if want is not None and want not in [k for _, k in kinds]:
            return None
        kind = want if want is not None else _w(self.draw, kinds)
        c = self.code
        other = (c + 1) % 256
        lines, ident, desc_ok = None, None, False
        if kind == 'hdr_unknown':
            lines, ident = [self.choice(_UNKNOWN_HEADERS)], 'SYNTAX_ERROR'
        elif kind == 'hdr_malformed':
            lines, ident = [self.choice(_MALFORMED_HEADERS)], 'SYNTAX_ERROR'
        elif kind == 'include_missing':
            lines, ident = ['including missing-%s.xly' % T], 'FILE_ACCESS_ERROR'
        elif kind == 'include_cycle':
            # (an ancestor rather than the file itself, where there is one: indirect cycles)
            target = self.choice(stack[:-1]) if len(stack) > 1 and self.draw(_int_below(3)) else self.choice(stack)
            if self.draw(_int_below(3)) == 0:
                # the file on the inclusion stack under another name (a symbolic link in its directory)
                link = posixpath.join(posixpath.dirname(target), 'link%d.xly' % len(self.symlinks))
                self.symlinks[link] = target
                target = link
            lines, ident = ['including ' + self.rel_ref(path, target)], 'FILE_ACCESS_ERROR'
        elif kind == 'include_directory':
            self.dirs.add('adir')
            lines, ident = ['including ' + self.rel_ref(path, 'adir')], 'FILE_ACCESS_ERROR'
        elif kind == 'syntax_unknown':
            lines, ident, desc_ok = ['no-such-instruction %s' % T], 'SYNTAX_ERROR', True
        elif kind == 'syntax_heredoc':
            if phase == 'conf':
                lines, ident = ['status = %s' % T], 'SYNTAX_ERROR'
            else:
                lines, ident, desc_ok = ['file %s.txt = <<NOEND' % T, 'text', '[assert]'], 'SYNTAX_ERROR', True
        elif kind == 'incomplete':
            pool = ['status =']
            if phase != 'conf':
                pool = ['dir', 'file', 'def string X =', 'dir', 'file', 'def string X =', 'cd', 'copy', 'run',
                        'timeout =', 'env X =', 'file x-%s.txt =' % T] + (['exists'] if phase == 'assert' else [])
            if self.draw(_int_below(5)):
                # (what follows is written for the phase of this header: read in the old phase - KF-C07-1 - it is
                # mostly something else than what it is meant to be)
                self.phase_after_plant = self.choice(PHASES)
                hdr = self.header(self.phase_after_plant)
            else:
                hdr = self.choice(_UNKNOWN_HEADERS)
            lines, ident = [self.choice(pool)] + self.some(_BLANKS, 0, 2) + [hdr], 'SYNTAX_ERROR'
        elif phase == 'conf':
            lines, ident, desc_ok = ['status = %s' % T], 'SYNTAX_ERROR', True
        elif phase == 'assert':
            desc_ok = True
            if kind == 'instr':
                lines, ident = [self.choice(['exit-code == %d' % other, '$ echo %s > /dev/null; exit 1' % T,
                                             'exists %s-no-such-file' % T, 'stderr ! is-empty'])], 'FAIL'
            else:
                lines, ident = self.choice([
                    ['exit-code (', ' == %d ||' % other, '', ' == %d' % ((c + 2) % 256), ')'],
                    ['stderr equals <<EOF', T, '[setup]', '', '# c', 'EOF'],
                    ['exit-code == %d ||' % other, ' == %d' % ((c + 2) % 256)],
                    ['stdout ( equals <<EOF', T, 'EOF', ' || ! is-empty )'],
                    ['dir-contents . : matches {', '  no-such-file-%s : type file' % T, '', '  b : type dir', '}'],
                ]), 'FAIL'
        else:
            desc_ok = True
            if kind == 'instr':
                lines, ident = self.choice([
                    (['$ echo %s > /dev/null; exit 3' % T], 'HARD_ERROR'),
                    (['copy %s-missing-file' % T], 'VALIDATION_ERROR'),
                    (['def string %s = @[UNDEFINED_SYMBOL]@' % T], 'VALIDATION_ERROR'),
                    (['run % /bin/sh -c "exit 4"'], 'HARD_ERROR'),
                ])
            else:
                lines, ident = self.choice([
                    (['def string %s = <<EOF' % T, '@[UNDEFINED_SYMBOL]@', '', '[assert]', 'EOF'], 'VALIDATION_ERROR'),
                    (['def list %s = a \\' % T, ' @[UNDEFINED_SYMBOL]@'], 'VALIDATION_ERROR'),
                    (['def text-matcher %s = (' % T, ' is-empty', ' ||', ' UNDEFINED_SYMBOL', ')'],
                     'VALIDATION_ERROR'),
                    (['dir %s = {' % T, '  file a = <<EOF', '[assert]', 'EOF', '  dir b = {',
                      '    file c = @[UNDEFINED_SYMBOL]@', '  }', '}'], 'VALIDATION_ERROR'),
                    (['run % cat', '  -stdin <<EOF', '@[UNDEFINED_SYMBOL]@', '[act]', 'EOF'], 'VALIDATION_ERROR'),
                ])
        desc = None
        if desc_ok and self.draw(_int_below(3)) == 0:
            form = self.choice(['same', 'prev', 'multi'])
            if form == 'same':
                desc = 'same line description'
                lines = ['`%s` %s' % (desc, lines[0])] + lines[1:]
            elif form == 'prev':
                desc = 'description before'
                lines = ['`%s`' % desc] + self.some(_BLANKS + _COMMENTS[:2], 0, 2) + lines
            else:
                desc = 'description\n[assert]\nover lines'
                lines = ['`description', '[assert]', 'over lines`'] + lines
        self.planted = {'kind': kind, 'ident': ident, 'desc': desc, 'phase': phase, 'file': path}
        return lines

    def finish_exec(self):
        """makes the document executable: actor, exit code of the action, the planted element"""
        root = self.files[self.root]
        if root and not root.endswith('\n'):
            root += '\n'
        tail = []
        if self.plant is not None and self.planted is None:
            phase = self.choice(INSTR_PHASES[1:])
            tail.append('[%s]' % phase)
            self.plant['kind'] = self.choice(['instr', 'instr_multi', 'instr', 'instr_multi', 'syntax_unknown'])
            if self.plant.get('exec_only'):
                self.plant['kind'] = self.choice(['instr', 'instr_multi'])
            got = self.planted_item(self.root, phase, 0, [self.root])
            self.planted['line0'] = len(ref_lines(root)) + len(tail)
            self.planted['n'] = len(got)
            tail.extend(got)
            late_plant = len(tail) - len(got)
        else:
            late_plant = None
        pre = []
        if self.code != 0 and not self.exit_line_emitted:
            pre = ['[act]', 'exit %d' % self.code]
        conf = ['[conf]', 'actor = source /bin/sh']
        lines = ref_lines(root)
        if self.draw(_int_below(2)) == 0:
            first_is_header = bool(lines) and lines[0].lstrip(' \t').startswith('[')
            head = conf + ([] if first_is_header or not lines else ['[act]'])
            shift = len(head)
            all_lines = head + lines + pre + tail
            if late_plant is not None:
                self.planted['line0'] += len(pre)
        else:
            shift = 0
            all_lines = lines + conf + pre + tail
            if late_plant is not None:
                self.planted['line0'] += len(conf) + len(pre)
        if self.planted is not None and self.planted['file'] == self.root:
            self.planted['line0'] += shift
        self.files[self.root] = '\n'.join(all_lines) + '\n'


def ref_lines(text):
    lines = text.split('\n')
    if lines and lines[-1] == '':
        del lines[-1]
    return lines


_ROOTS = [ROOT, ROOT, ROOT, 'cases/t.case', 'sub/t.case']


def _build(draw, mode, root_items, inc_items, max_files, max_depth=3):
    root = _ROOTS[draw(_int_below(len(_ROOTS)))]
    g = _Gen(draw, mode, root_items, inc_items, max_files, max_depth=max_depth, root=root)
    g.gen_file(root, 'act', 0, [root])
    case = {'files': dict(sorted(g.files.items()))}
    if root != ROOT:
        case['root'] = root
    if draw(_int_below(8)) == 0:
        case['root_abs'] = True  # the test case file is given by its absolute path
    if g.dirs:
        case['dirs'] = sorted(g.dirs)
    if g.symlinks:
        case['symlinks'] = dict(sorted(g.symlinks.items()))
    return case


@st.composite
def _api_case(draw, root_items, inc_items, max_files, max_depth=3):
    return _build(draw, 'api', root_items, inc_items, max_files, max_depth)


def api_strategy(tier):
    if tier == 'quick':
        return _api_case(14, 6, 5)
    return _api_case(24, 8, 8, 5)


_CODES = [0, 0, 0, 3, 7, 255]


@st.composite
def _exec_case(draw, root_items, inc_items, max_files, plant, swaps, max_depth=3):
    root = _ROOTS[draw(_int_below(len(_ROOTS)))]
    g = _Gen(draw, 'exec', root_items, inc_items, max_files, max_depth=max_depth, root=root)
    g.code = _CODES[draw(_int_below(len(_CODES)))]
    want_plant = plant == 'always' or (plant == 'sometimes' and draw(_int_below(3)) == 0)
    if want_plant:
        g.plant = {'at': draw(_int_below(root_items + 4)), 'kind': None}
        if plant == 'sometimes':
            g.plant['kind'] = ['instr', 'instr_multi'][draw(_int_below(2))]  # failing instructions only
            g.plant['exec_only'] = True
    g.gen_file(root, 'act', 0, [root])
    g.finish_exec()
    case = {'files': dict(sorted(g.files.items())), 'code': g.code, 'plant': g.planted}
    if root != ROOT:
        case['root'] = root
    if g.dirs:
        case['dirs'] = sorted(g.dirs)
    if g.symlinks:
        case['symlinks'] = dict(sorted(g.symlinks.items()))
    if draw(_int_below(8)) == 0:
        case['root_abs'] = True  # the test case file is given by its absolute path
    if swaps:
        case['swaps'] = draw(st.lists(st.integers(0, 1000), min_size=4, max_size=24))
    return case


def cli_location_strategy(tier):
    return _exec_case(10, 5, 4, 'always', False) if tier == 'quick' else _exec_case(16, 6, 7, 'always', False, 5)


def cli_permutation_strategy(tier):
    return _exec_case(12, 5, 4, 'sometimes', True) if tier == 'quick' else _exec_case(18, 6, 7, 'sometimes', True, 5)


# ---- exhaustive enumeration over a small alphabet --------------------------------------
SMALL_ALPHABET = [
    '[setup]', '[assert]', '  [act] ', '[nophase]', '[setup', '# c', '', 'dir T', 'exit-code == 0',
    'file T = <<EOF', 'EOF', '`d`', '`d` dir T', 'act line', '\\[x]', 'including inc.xly', 'including t.case',
    'dir', 'exit-code (', 'dir T = {', '}',
]
_SMALL_INC = ['dir in-inc\n[assert]\nexit-code == 1\n[act]\nact in inc\n', '[cleanup]\n`d`\n\ndir in-inc']


_SMALL_PREFIXES = [[], ['[setup]'], ['[assert]']]


def enumerate_small(tier):
    """every document = prefix + sequence over SMALL_ALPHABET up to the length bound, with and without final
    newline for the longest ones; `including inc.xly` refers to one of two fixed included files"""
    max_len = 3 if tier == 'quick' else 4
    for text in ('', ' ', '\n\n', '[setup]', '#', 'including inc.xly'):
        yield {'files': {ROOT: text, 'inc.xly': ''}}  # (degenerate files: empty, no final newline)
    for prefix in _SMALL_PREFIXES:
        for n in range(0, max_len + 1):
            for combo in itertools.product(range(len(SMALL_ALPHABET)), repeat=n):
                lines = prefix + [SMALL_ALPHABET[i].replace('T', 't%d' % k) for k, i in enumerate(combo)]
                for nl in (('\n',) if n < max_len else ('\n', '')):
                    if not lines and nl == '':
                        continue
                    text = '\n'.join(lines) + nl
                    inc = _SMALL_INC[(sum(combo) + n) % len(_SMALL_INC)]
                    yield {'files': {ROOT: text, 'inc.xly': inc}}


# ---- coverage-guided campaign: bytes -> document over an alphabet of chunks ------------------------------
# Every item is a chunk of one or more lines.  Complete multi-line instructions are atomic chunks; the single
# lines that can leave something open (`<<EOF`, `(`, `{`, a description delimiter, an incomplete instruction) or
# close it (`EOF`, `}`) are items of their own, so that the fuzzer can nest and interleave them freely.
# No line starts with an infix operator (whether `&&` / `||` at the start of a line continues the expression of the
# previous instruction is C06's subject), no line is a lone `)`.
_FUZZ_ITEMS = [
    # headers
    ['[setup]'], ['[assert]'], ['[act]'], ['[conf]'], ['[cleanup]'], ['[before-assert]'], ['  [act] '], ['\t[setup]\t'],
    ['[nophase]'], ['[setup'], ['[setup] x'],
    # comments, blanks
    ['# c'], ['  #[setup]'], [''], ['   '],
    # one-line instructions (some phase-specific: in another phase they are unknown instructions)
    ['dir T'], ['file T.txt = "x"'], ['exit-code == 0'], ['status = PASS'], ['$ echo "(" [x] `'], ['def string ST = "v"'],
    ['run % echo T'], ['stdout is-empty'], ['timeout = 5'],
    # here-documents: atomic, and in pieces
    ['file T = <<EOF', '[assert]', '# c', '', 'including inc.xly', 'EOF'], ['stdout equals <<EOF', 'EOF'],
    ['def string ST = <<-', '  [setup]', '`', '-'],
    ['file T = <<EOF'], ['EOF'], [' EOF'], ['plain text'],
    # parentheses, operators, lists
    ['exit-code (', ' == 1', ')'], ['def integer-matcher IT = ( == 1 ||', '', '  ( == 2 ) )'],
    ['stderr ( equals <<EOF', '[setup]', 'EOF', ' || is-empty )'], ['exit-code == 0 ||', '', ' == 1'], ['exit-code !', ' == 1'],
    ['def list LT = a \\', ' b c'], ['exit-code ('], ['def list LT = a \\'],
    # braces, STDIN of a program
    ['dir T = {', '  file a = <<EOF', '[act]', 'EOF', '', '  dir b = {', '  }', '}'], ['dir T = {'], ['  file a'], ['}'],
    ['dir-contents . : ! matches {', '  a : type file', '}'],
    ['run % cat', '  -stdin <<EOF', '[act]', 'EOF'], ['run % cat'], ['  -stdin "x"'],
    # descriptions
    ['`d`'], ['`d` dir T'], ['`open', '[assert]', '# c'], ['close`'], ['` dir T'], ['`d`', '', '# c', 'dir T'],
    # act phase lines
    ['act line T'], ['\\[x]'], ['  \\\\y'], ['\\[setup]'], ['a\\[b'],
    # incomplete / unknown
    ['dir'], ['file'], ['timeout ='], ['def string ST ='], ['exit-code'], ['no-such-instruction T'],
    # directives (the targets 0..3 are rendered relative to the including file)
    ['including', 0], ['including', 1], ['including', 2], ['including', 3], ['including', 1], ['including', 2],
    ['including missing.xly'], ['including'], ['including a b'], ['  including', 1],
]
_FUZZ_NEXT_FILE = len(_FUZZ_ITEMS)
_FUZZ_FILES = [['t.case', 'inc.xly', 'sub/inc2.xly', 'other/inc3.xly'],
               ['sub/t.case', 'sub/inc.xly', 'inc2.xly', 'sub/deep/inc3.xly']]


def decode_doc(data: bytes):
    """bytes -> API case.  Byte 0: bit 0 = no final newline in the root file, bit 1 = root file in a sub-directory,
    bit 2 = root given by absolute path, bit 3 = files without contents are missing instead of empty; every
    further byte selects an item of _FUZZ_ITEMS for the current file or
    moves on to the next one of the four files (structured decoding: coverage feedback works on the structure)."""
    if not data:
        return {'files': {ROOT: ''}}
    flags = data[0]
    names = _FUZZ_FILES[(flags >> 1) & 1]
    texts = [[] for _ in names]
    cur = 0
    for k, b in enumerate(data[1:]):
        i = b % (_FUZZ_NEXT_FILE + 1)
        if i == _FUZZ_NEXT_FILE:
            cur = min(cur + 1, len(names) - 1)
            continue
        item = _FUZZ_ITEMS[i]
        if len(item) == 2 and isinstance(item[1], int):
            rel = posixpath.relpath(names[item[1]], posixpath.dirname(names[cur]) or '.')
            texts[cur].append('%s %s' % (item[0], rel))
        else:
            texts[cur].extend(x.replace('T', 't%d' % k) for x in item)
    files = {}
    for n, (name, lines) in enumerate(zip(names, texts)):
        text = '\n'.join(lines)
        if lines and not (n == 0 and flags & 1):
            text += '\n'
        if lines or n == 0 or not flags & 8:
            files[name] = text
    case = {'files': files}
    if names[0] != ROOT:
        case['root'] = names[0]
    if flags & 4:
        case['root_abs'] = True
    return case
